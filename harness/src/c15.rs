//! C15 — boundary clocks propagate TLVs faithfully and break path-trace loops.
//! Model-based: a reference forwarding queue per master port.

use crate::engine::*;
use crate::host::*;
use crate::refcodec::*;
use serde_json::json;
use std::collections::VecDeque;

const OWN: [u8; 8] = [0, 0, 0, 0, 0, 0, 0, 0x10];
const PARENT: PortId = PortId { clock: [0, 0, 0, 0, 0, 0, 0, 0x02], port: 1 };
const OTHER: PortId = PortId { clock: [0, 0, 0, 0, 0, 0, 0, 0x03], port: 1 };
const UNACC: PortId = PortId { clock: [0, 0, 0, 0, 0, 0, 0, 0x66], port: 1 };
const ROOM: usize = 960; // MAX_DATA_LEN - 64 byte Announce
pub const KNOWN_PT_BLOCK: &str = "received PATH_TRACE TLV (path trace enabled) blocks the forwarding queue";

#[derive(Clone, Debug, PartialEq)]
struct QTlv {
    sender: PortId,
    tlv: RTlv,
}

fn is_prop(t: u16) -> bool {
    matches!(t, 0x0008 | 0x0009 | 0x4000..=0x7fff)
}

fn gen_tlvs(t: &mut Tape, own_in_path: &mut bool, path_room: usize, big_frames: bool) -> Vec<RTlv> {
    let n = t.weighted(&[2, 4, 3, 2, 1, 1]);
    let mut v = vec![];
    let mut total = 0usize;
    for i in 0..n {
        let typ = match t.weighted(&[3, 2, 4, 2, 1]) {
            0 => 0x0008u16,
            1 => 0x0009,
            2 => 0x4000 + t.below(0x4000) as u16,
            3 => *t.pick(&[0x0001u16, 0x0003, 0x8000, 0x8001, 0x2004, 0x3fff, 0x000a]),
            _ => t.below(0x10000) as u16,
        };
        let len: usize = if typ == 0x0008 {
            let ids = match t.weighted(&[3, 3, 2, 1]) {
                0 => t.below(4) as usize,
                1 => t.below(40) as usize,
                2 => *t.pick(&[60usize, 117, 118, 119, 120, 127]),
                _ => {
                    if big_frames {
                        *t.pick(&[128usize, 129, 150, 200])
                    } else {
                        120
                    }
                }
            };
            8 * ids
        } else {
            match t.weighted(&[3, 3, 2, 3, 1]) {
                0 => 0,
                1 => 2 * t.below(16) as usize,
                2 => 2 * t.below(250) as usize,
                3 => {
                    // wire size equal to / just below / just above the remaining room
                    let target = *t.pick(&[ROOM, path_room]) as i64 + *t.pick(&[0i64, -2, 2, -4, 4, -6, -8, -12]);
                    (target - 4).clamp(0, 1100) as usize & !1
                }
                _ => {
                    if big_frames {
                        2 * (478 + t.below(80) as usize)
                    } else {
                        2 * t.below(400) as usize
                    }
                }
            }
        };
        let limit = if big_frames { 1980 } else { 956 };
        if total + 4 + len > limit {
            continue;
        }
        total += 4 + len;
        let mut value = vec![0u8; len];
        let salt = t.below(256) as u8;
        for (k, b) in value.iter_mut().enumerate() {
            *b = (k as u8).wrapping_mul(13).wrapping_add(salt).wrapping_add(i as u8);
        }
        if typ == 0x0008 {
            // make identities distinct from ours unless a loop is wanted
            for c in value.chunks_mut(8) {
                c[0] = 0xaa;
            }
            if len >= 8 && t.chance(1, 6) {
                let k = t.below((len / 8) as u64) as usize;
                value[8 * k..8 * k + 8].copy_from_slice(&OWN);
                *own_in_path = true;
            }
        }
        v.push(RTlv { typ, value });
    }
    v
}

struct Model {
    path_trace: bool,
    path: Vec<[u8; 8]>,
    queues: Vec<VecDeque<QTlv>>,
    overflowed: Vec<bool>,
    /// daemon forwarder: the head of the queue has been taken out of the broadcast channel into `peek`
    peeked: Vec<bool>,
    /// everything ever enqueued per port, for the weak (order / at-most-once / integrity) check
    history: Vec<Vec<QTlv>>,
    emitted_idx: Vec<usize>,
}

/// enqueue for port q. The daemon's forwarder is a tokio broadcast channel of 128 slots plus one peeked value per
/// receiver: when a 129th value is sent before the receiver caught up, the oldest value still in the channel is
/// overwritten (the receiver sees Lagged and continues with the oldest retained one).
fn enqueue(m: &mut Model, q: usize, item: QTlv, literal: bool) {
    m.history[q].push(item.clone());
    m.queues[q].push_back(item);
    if !literal {
        let held = m.peeked[q] as usize;
        if m.queues[q].len() - held > 128 {
            m.queues[q].remove(held);
            m.overflowed[q] = true;
        }
    }
}

pub fn case(t: &mut Tape) -> CaseOut {
    let mut out = CaseOut::new();
    let nmaster = 1 + t.below(3) as usize;
    let path_trace = t.chance(1, 2);
    let literal = t.chance(1, 3);
    let with_aml = t.chance(1, 2);
    let big_frames = t.chance(1, 2);
    let mut cfg = NodeCfg::default();
    cfg.identity = OWN;
    cfg.path_trace = path_trace;
    cfg.prov = if literal { ProvKind::Literal } else { ProvKind::Daemon };
    cfg.ports = vec![PortCfg::default(); 1 + nmaster];
    if with_aml {
        cfg.ports[0].aml = Some(vec![PARENT.clock, OTHER.clock]);
    }
    let mut node = Node::new(cfg);
    // port 1 slave of PARENT, the others master
    let mut pann = simple_announce(PARENT.clock, 100, 6, 0);
    pann.gm_identity = PARENT.clock;
    if !make_slave(&mut node, 0, PARENT, pann, 1) {
        out.fail("harness: could not make port 1 slave", "");
        return out;
    }
    for p in 1..=nmaster {
        node.timer(p, TimerKind::Receipt);
        if node.state(p) != PS::Master {
            out.fail("harness: port not master", format!("{:?}", node.state(p)));
            return out;
        }
    }
    // the two prelude announces carried no TLVs; drain anything pending
    let n = 1 + nmaster;
    let mut m = Model { path_trace, path: vec![], queues: vec![VecDeque::new(); n], overflowed: vec![false; n], peeked: vec![false; n], history: vec![vec![]; n], emitted_idx: vec![0; n] };
    let mut seq_p = 10u16;
    let mut seq_o = 10u16;
    let nops = t.urange(2, 40);
    let mut rendered = vec![];
    let mut forwarded = 0usize;
    let mut near_room = false;
    for _ in 0..nops {
        let op = t.weighted(&[6, 2, 1, 8, 1]);
        match op {
            0 | 1 | 2 => {
                let src = match op {
                    0 => PARENT,
                    1 => OTHER,
                    _ => UNACC,
                };
                let path_tlv_size = if path_trace { 4 + 8 * (m.path.len() + 1) } else { 0 };
                let path_room = ROOM.saturating_sub(path_tlv_size);
                let mut loops = false;
                let tlvs = gen_tlvs(t, &mut loops, path_room, big_frames);
                let seq = if src == PARENT {
                    seq_p = seq_p.wrapping_add(1);
                    seq_p
                } else {
                    seq_o = seq_o.wrapping_add(1);
                    seq_o
                };
                let mut ann = if src == PARENT { pann } else { simple_announce(src.clock, 200, 248, 1) };
                if src == PARENT && t.chance(1, 4) {
                    ann.steps_removed = t.below(5) as u16;
                    ann.gm_priority2 = t.below(256) as u8;
                }
                let mut msg = announce_from(src, seq, ann, 0, 0);
                msg.tlvs = tlvs.clone();
                let data = msg.encode();
                rendered.push(format!("announce from {:x} seq {} tlvs {:?}", src.clock[7], seq, tlvs.iter().map(|x| (format!("{:04x}", x.typ), x.wire_size())).collect::<Vec<_>>()));
                let before = node.ds();
                let before_timers = node.timers.clone();
                let acts = node.recv_general(0, &data);
                let accepted = src != UNACC || !with_aml;
                // path-trace loop: only the first PATH_TRACE TLV of an Announce from the parent is examined
                let first_path = tlvs.iter().find(|x| x.typ == 0x0008);
                let loop_here = path_trace && src == PARENT && first_path.map(|x| x.value.chunks_exact(8).any(|c| c == OWN)).unwrap_or(false);
                if loop_here {
                    out.label("path-trace-loop");
                    let after = node.ds();
                    if !acts.is_empty() || after != before || node.timers != before_timers {
                        out.fail("Announce from the parent whose path contains the own identity was not discarded", format!("actions {:?} ; data sets before {:?} after {:?}", acts.len(), before, after));
                    }
                } else if accepted {
                    if path_trace && src == PARENT {
                        if let Some(pt) = first_path {
                            m.path = pt.value.chunks_exact(8).take(128).map(|c| <[u8; 8]>::try_from(c).unwrap()).collect();
                        }
                    }
                    for x in &tlvs {
                        if is_prop(x.typ) && x.wire_size() <= ROOM {
                            for q in 0..n {
                                enqueue(&mut m, q, QTlv { sender: src, tlv: x.clone() }, literal);
                            }
                            if src == PARENT {
                                let ps = if path_trace { ROOM.saturating_sub(4 + 8 * (m.path.len() + 1)) } else { ROOM };
                                if x.wire_size() + 4 >= ps && x.wire_size() <= ps {
                                    near_room = true;
                                }
                            }
                        }
                    }
                } else if !acts.is_empty() {
                    out.fail("Announce from an unacceptable master produced actions", format!("{:?}", acts.len()));
                }
                if path_trace && !loop_here {
                    let got: Vec<[u8; 8]> = node.ds().path;
                    if got != m.path {
                        out.fail("pathTraceDS differs from the last accepted path of the parent", format!("got {} entries, want {}", got.len(), m.path.len()));
                    }
                }
            }
            3 => {
                let p = 1 + t.below(nmaster as u64) as usize;
                rendered.push(format!("p{} announce-timer", p + 1));
                let acts = node.timer(p, TimerKind::Announce);
                let frames: Vec<&Vec<u8>> = acts.iter().filter_map(|a| if let OAction::SendGeneral { data, .. } = a { Some(data) } else { None }).collect();
                if frames.len() != 1 {
                    out.fail("a due Announce was not sent (exactly one frame expected from a master port)", format!("{} frames", frames.len()));
                    break;
                }
                let data = frames[0];
                if data.len() > 1024 {
                    out.fail("forwarding made the Announce exceed the maximum size", format!("{}", data.len()));
                }
                let Ok(msg) = decode(data) else {
                    out.fail("emitted Announce rejected by the reference codec", "");
                    break;
                };
                if statime::fuzz::FuzzMessage::deserialize(data).is_err() {
                    out.fail("emitted Announce not decodable by the library's own parser", format!("{} bytes", data.len()));
                }
                // expected TLV list
                let mut want: Vec<RTlv> = vec![];
                let mut room = ROOM;
                if m.path_trace && m.path.len() + 1 <= 128 {
                    let size = 4 + 8 * (m.path.len() + 1);
                    if room > size {
                        let mut v: Vec<u8> = m.path.iter().flat_map(|c| c.iter().copied()).collect();
                        v.extend(OWN);
                        want.push(RTlv { typ: 0x0008, value: v });
                        room -= size;
                    }
                }
                let parent_now = node.ds().parent;
                let mut blocked_by_path_trace = false;
                while let Some(h) = m.queues[p].front() {
                    if h.tlv.wire_size() > room {
                        m.peeked[p] = true;
                        if m.path_trace && h.tlv.typ == 0x0008 && m.queues[p].len() > 1 {
                            // known finding: the parent's own PATH_TRACE TLV is queued for forwarding although it is
                            // only ever skipped by the sender; when it does not fit next to the local PATH_TRACE TLV
                            // (received path >= 58 identities) it blocks everything behind it
                            blocked_by_path_trace = true;
                        }
                        break;
                    }
                    let h = m.queues[p].pop_front().unwrap();
                    m.peeked[p] = false;
                    if h.sender != parent_now {
                        continue;
                    }
                    if m.path_trace && h.tlv.typ == 0x0008 {
                        continue;
                    }
                    room -= h.tlv.wire_size();
                    want.push(h.tlv);
                }
                if blocked_by_path_trace && msg.tlvs == want {
                    out.fail(KNOWN_PT_BLOCK, format!("{} TLVs wait behind a received PATH_TRACE TLV of {} bytes that does not fit the remaining {} bytes ; ops {:?}", m.queues[p].len() - 1, m.queues[p].front().map(|h| h.tlv.wire_size()).unwrap_or(0), room, rendered));
                }
                if msg.tlvs != want {
                    let d = |v: &Vec<RTlv>| v.iter().map(|x| format!("{:04x}/{}", x.typ, x.wire_size())).collect::<Vec<_>>();
                    out.fail(if m.overflowed[p] { "TLVs of the emitted Announce differ from the reference forwarding queue (after an overflow of the 128-slot forwarder)" } else { "TLVs of the emitted Announce differ from the reference forwarding queue" }, format!("got {:?} want {:?} ; ops {:?}", d(&msg.tlvs), d(&want), rendered));
                }
                if m.overflowed[p] {
                    out.label("overflow");
                }
                // weak check always: order, at most once, integrity, only parent + propagating
                let start = if m.path_trace && msg.tlvs.first().map(|x| x.typ == 0x0008).unwrap_or(false) { 1 } else { 0 };
                for x in msg.tlvs.iter().skip(start) {
                    let hist = &m.history[p];
                    let mut i = m.emitted_idx[p];
                    let mut found = false;
                    while i < hist.len() {
                        if hist[i].tlv == *x && hist[i].sender == PARENT {
                            found = true;
                            i += 1;
                            break;
                        }
                        i += 1;
                    }
                    if !found {
                        out.fail("emitted TLV is not one received from the parent (wrong order, duplicate, modified, other sender or non-propagating type)", format!("type {:04x} size {} ; ops {:?}", x.typ, x.wire_size(), rendered));
                        break;
                    }
                    m.emitted_idx[p] = i;
                    forwarded += 1;
                }
            }
            _ => {
                // many Announces with small TLVs in a row: lag beyond the 128-entry broadcast queue
                let k = t.urange(20, 70);
                for _ in 0..k {
                    seq_p = seq_p.wrapping_add(1);
                    let mut msg = announce_from(PARENT, seq_p, pann, 0, 0);
                    let v = vec![seq_p as u8, (seq_p >> 8) as u8];
                    msg.tlvs = vec![RTlv { typ: 0x4001, value: v.clone() }, RTlv { typ: 0x4002, value: v.clone() }, RTlv { typ: 0x4003, value: v }];
                    node.recv_general(0, &msg.encode());
                    for x in &msg.tlvs {
                        for q in 0..n {
                            enqueue(&mut m, q, QTlv { sender: PARENT, tlv: x.clone() }, literal);
                        }
                    }
                }
                rendered.push(format!("{} announces with 3 small TLVs each", k));
            }
        }
        if !node.monitor.is_empty() {
            out.fail(format!("monitor: {}", node.monitor[0].split(": ").nth(1).unwrap_or("").split('(').next().unwrap_or("").trim()), node.monitor.join("; "));
        }
        if out.violation.is_some() {
            break;
        }
    }
    let lm = lock_mon_take();
    if !lm.nested.is_empty() {
        out.fail("nested lock acquisition", lm.nested.join("; "));
    }
    out.label(if literal { "provider:literal" } else { "provider:daemon" });
    if path_trace {
        out.label("path-trace-on");
    }
    out.render = json!({"master_ports": nmaster, "path_trace": path_trace, "provider": if literal { "literal" } else { "daemon" }, "acceptable_master_list": with_aml, "frames_up_to_2048": big_frames, "ops": rendered});
    if forwarded > 0 && (near_room || nmaster >= 2 || (path_trace && !m.path.is_empty())) {
        out.nontrivial = Some(hash_of(&rendered));
    }
    out
}

/// exhaustive sweep: one propagating TLV of every even value length 0..=1100 x path length
fn sweep(rep: &mut Report) {
    let t0 = std::time::Instant::now();
    let mut total = 0u64;
    let mut known_hits = 0u64;
    let mut first: Option<(String, String, serde_json::Value)> = None;
    for &plen in &[usize::MAX, 0usize, 1, 60, 117, 118, 119, 120, 127, 128, 129] {
        for vlen in (0..=1100usize).step_by(2) {
            let path_trace = plen != usize::MAX;
            let mut cfg = NodeCfg::default();
            cfg.identity = OWN;
            cfg.path_trace = path_trace;
            cfg.prov = ProvKind::Daemon;
            cfg.ports = vec![PortCfg::default(); 2];
            let mut node = Node::new(cfg);
            let mut pann = simple_announce(PARENT.clock, 100, 6, 0);
            pann.gm_identity = PARENT.clock;
            make_slave(&mut node, 0, PARENT, pann, 1);
            node.timer(1, TimerKind::Receipt);
            let mut msg = announce_from(PARENT, 5, pann, 0, 0);
            let mut path_size = 0;
            if path_trace {
                let mut v = vec![0xabu8; 8 * plen];
                for (i, c) in v.chunks_mut(8).enumerate() {
                    c[7] = i as u8;
                }
                msg.tlvs.push(RTlv { typ: 0x0008, value: v });
                let stored = plen.min(128);
                if stored + 1 <= 128 && 4 + 8 * (stored + 1) < ROOM {
                    path_size = 4 + 8 * (stored + 1);
                }
            }
            let tl = RTlv { typ: 0x4abc, value: (0..vlen).map(|i| i as u8).collect() };
            msg.tlvs.push(tl.clone());
            let follow = RTlv { typ: 0x4abd, value: vec![1, 2] };
            msg.tlvs.push(follow.clone());
            let data = msg.encode();
            if data.len() > 2048 {
                continue;
            }
            total += 1;
            crate::engine::PROGRESS.fetch_add(1, std::sync::atomic::Ordering::Relaxed);
            let r = guarded(|| {
                node.recv_general(0, &data);
                let a1 = node.timer(1, TimerKind::Announce);
                let a2 = node.timer(1, TimerKind::Announce);
                (a1, a2)
            });
            let mut fail = |sig: &str, detail: String| {
                if first.is_none() {
                    first = Some((sig.to_string(), detail, json!({"path_len": if path_trace { plen as i64 } else { -1 }, "tlv_value_len": vlen})));
                }
            };
            match r {
                Err(p) => fail("panic while forwarding", p),
                Ok((a1, a2)) => {
                    let f = |a: &Vec<OAction>| a.iter().find_map(|x| if let OAction::SendGeneral { data, .. } = x { decode(data).ok() } else { None });
                    let (Some(m1), Some(m2)) = (f(&a1), f(&a2)) else {
                        fail("a due Announce was not sent (exactly one frame expected from a master port)", format!("path {} tlv {}", plen as i64, vlen));
                        continue;
                    };
                    let room = ROOM - path_size;
                    let skip = if path_size > 0 { 1 } else { 0 };
                    let got1: Vec<&RTlv> = m1.tlvs.iter().skip(skip).collect();
                    let got2: Vec<&RTlv> = m2.tlvs.iter().skip(skip).collect();
                    if path_trace && 4 + 8 * plen > room && 4 + 8 * plen <= ROOM {
                        // known finding: the received PATH_TRACE TLV sits at the head of the queue and never fits
                        if got1.is_empty() && got2.is_empty() {
                            known_hits += 1;
                            continue;
                        }
                    }
                    let fits = tl.wire_size() <= room;
                    let want1: Vec<&RTlv> = if tl.wire_size() > ROOM {
                        vec![&follow]
                    } else if fits {
                        if tl.wire_size() + follow.wire_size() <= room { vec![&tl, &follow] } else { vec![&tl] }
                    } else {
                        vec![]
                    };
                    if got1 != want1 {
                        fail("TLVs of the emitted Announce differ from the reference forwarding queue", format!("path {} tlv value {} (wire {} room {}): first Announce carries {:?}, want {:?}", plen as i64, vlen, tl.wire_size(), room, got1.iter().map(|x| x.wire_size()).collect::<Vec<_>>(), want1.iter().map(|x| x.wire_size()).collect::<Vec<_>>()));
                    }
                    if fits && tl.wire_size() + follow.wire_size() > room && got2 != vec![&follow] {
                        fail("TLVs of the emitted Announce differ from the reference forwarding queue", format!("second Announce should carry the follow-up TLV; path {} tlv {}", plen as i64, vlen));
                    }
                    rep.nontrivial.insert(hash_of(&("sweep", plen, vlen)));
                }
            }
            if !node.monitor.is_empty() && first.is_none() {
                first = Some((format!("monitor: {}", node.monitor[0].split(": ").nth(1).unwrap_or("").split('(').next().unwrap_or("").trim()), node.monitor.join("; "), json!({"path_len": plen as i64, "tlv_value_len": vlen})));
            }
        }
    }
    lock_mon_take();
    rep.evaluations += total;
    if known_hits > 0 {
        *rep.known_hits.entry(KNOWN_PT_BLOCK.to_string()).or_insert(0) += known_hits;
    }
    rep.parts.push(json!({"part": "size-sweep", "cases": total, "exhaustive": true, "wall_s": t0.elapsed().as_secs_f64(), "what": "one propagating TLV of every even value length 0..1100 followed by a 6-byte TLV, x path trace {off, 0,1,60,117,118,119,120,127,128,129 identities}"}));
    if let Some((sig, detail, r)) = first {
        rep.violations.push((Violation { sig: format!("{}|sweep", sig), detail }, vec![], r));
        rep.viol_parts.push("size-sweep".into());
    }
}

pub fn run(ctx: &Ctx) -> i32 {
    let mut rep = Report::new();
    // the forwarder as the real daemon drives it (statime-linux/src/main.rs), end to end
    let workers = (ctx.threads as u64 / 2).clamp(2, 8);
    let sum = crate::daemon::run_part(ctx, &mut rep, ctx.cases(12 * workers, 150 * workers), workers);
    if let Some(why) = &sum.skipped {
        println!("note: end-to-end daemon part skipped ({}); the other parts are unaffected", why);
    }
    // a violation seen on the real daemon is reported at once (see C12: an endless loop in the forwarding path would
    // hang the in-process parts instead of being reported)
    if rep.violations.is_empty() {
        sweep(&mut rep);
        run_cases(ctx, &mut rep, "histories", ctx.cases(100_000, 3_000_000), case);
    } else {
        println!("end-to-end part found a violation; in-process parts skipped");
    }
    finish(
        Finish {
            ctx,
            level: "exploration",
            rule: "boundary clock: port 1 slave of a synthetic parent, 1-3 master ports sharing the daemon's TlvForwarder wired as in main.rs (or a provider implementing the documented contract literally), path trace on/off, acceptable-master list on/off; Announces (frames to 1024 or to 2048 bytes) from the parent, another acceptable master and an unacceptable identity with 0-5 TLVs of every type class and sizes at / around the remaining room (960 minus path-trace TLV), path traces of 0..200 identities with or without the own identity; announce timers of the master ports at generated points; bursts that lag the forwarder beyond its 128-entry queue. Oracle: exact reference queue per master port (order, at most once, unmodified, only parent + propagating types, every TLV that fits is present, PATH_TRACE = parent's path + own identity); under overflow the exact contents of the 128-slot broadcast channel; loop Announces must be discarded without any effect. Plus an exhaustive size sweep. Part daemon: the real statime binary as a two-port boundary clock (private network namespace, veth pairs, PTP over Ethernet, announce interval 125 ms, path trace on in half of the daemons): the harness is the parent on port 1's segment (4-12 Announces at gaps of 60-190 ms, 0-3 TLVs each, propagating and not, plus Announces with TLVs from a worse master) and listens on port 2's segment; after five more intervals the TLVs forwarded must be exactly the parent's propagating TLVs, once each, unmodified, in order. Non-trivial = >= 1 TLV forwarded and (size within 4 bytes of the room, >= 2 master ports, or a received path); distinct by op list.",
            assumptions: vec!["parts sweep/histories: the library plus TlvForwarder wired as in main.rs; part daemon: the binary itself, real time (cases in which the daemon is not (Slave, Master) before and after are counted as inconclusive, never as violations); skipped with a note where network namespaces are unavailable".into(), "TLVs larger than 960 bytes can never fit and are expected to be skipped without blocking later TLVs".into()],
            min_nontrivial: 100,
        },
        rep,
    )
}

pub fn replay(ctx: &Ctx, path: &str) -> i32 {
    let s = std::fs::read_to_string(path).expect("read replay");
    let v: serde_json::Value = serde_json::from_str(&s).expect("parse");
    if v["part"].as_str() == Some("size-sweep") {
        let mut rep = Report::new();
        sweep(&mut rep);
        return if rep.violations.is_empty() { println!("replay passed"); 0 } else { println!("VIOLATION property=C15 replay={}\n  {}\n  {}", path, rep.violations[0].0.sig, rep.violations[0].0.detail); 1 };
    }
    if v["part"].as_str() == Some("daemon") {
        return crate::daemon::replay_part(ctx, path, 6);
    }
    replay_file(ctx, path, case)
}
