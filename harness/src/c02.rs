//! C02 — a slave port drives its clock to the master's time and keeps it there.
//! Closed-loop simulation: synthetic master (one-step / two-step) + real slave
//! port with the real KalmanFilter steering a simulated clock whose readings
//! produce the slave's own timestamps.

use crate::engine::*;
use crate::host::*;
use crate::refcodec::*;
use serde_json::json;
use std::collections::BinaryHeap;

const BASE_NS: u128 = 1_700_000_000_000_000_000;
const MASTER: PortId = PortId { clock: [0, 0, 0, 0, 0, 0, 0, 0x01], port: 1 };

#[derive(Clone, Debug)]
pub struct Params {
    offset_ns: i64,
    osc_ppm: f64,
    delay_ns: u64,
    jitter_ns: u64,
    sync_log: i8,
    delay_log: i8,
    one_step: bool,
    fup_first: bool,
    /// 0 prompt transmit timestamps, 1 reported after the Delay_Resp arrived, 2 mixed
    tx_mode: u8,
    seed: u64,
    /// the grandmaster starts announcing (and sending Sync) this late: 0, or late enough that the port has
    /// become master through its announce receipt timeout first (LISTENING -> MASTER -> SLAVE)
    master_start_ns: u64,
}

fn gen_params(t: &mut Tape) -> Params {
    let mag = match t.weighted(&[1, 2, 2, 2, 1]) {
        0 => 0i64,
        1 => t.below(1_000) as i64,                 // < 1 us
        2 => t.below(1_000_000) as i64,             // < 1 ms
        3 => t.below(1_000_000_000) as i64,         // < 1 s
        _ => t.below(10_000_000_000) as i64,        // < 10 s
    };
    let offset_ns = if t.bool() { -mag } else { mag };
    let osc_ppm = match t.weighted(&[1, 3, 2]) {
        0 => 0.0,
        1 => t.range(-150_000, 150_000) as f64 / 1000.0,
        _ => *t.pick(&[150.0, -150.0, 100.0, -100.0, 10.0]),
    };
    Params {
        offset_ns,
        osc_ppm,
        delay_ns: t.urange(1_000, 400_000),
        jitter_ns: match t.weighted(&[2, 2, 2]) {
            0 => 0,
            1 => t.below(1_000),
            _ => t.below(20_001),
        },
        sync_log: t.range(-3, 1) as i8,
        delay_log: t.range(-3, 1) as i8,
        one_step: t.chance(1, 3),
        fup_first: t.chance(1, 6),
        tx_mode: t.weighted(&[3, 1, 1]) as u8,
        seed: t.below(1 << 30),
        master_start_ns: if t.chance(1, 3) { t.urange(5_000_000_000, 20_000_000_000) } else { 0 },
    }
}

#[derive(PartialEq, Eq, PartialOrd, Ord, Clone, Debug)]
enum Kind {
    MasterAnnounce,
    MasterSync,
    DeliverSync { seq: u16, t1: u64 },
    DeliverFup { seq: u16, t1: u64 },
    DelayReqAtMaster { seq: u16, ctx: usize, t3_local: i128 },
    DeliverResp { seq: u16, t4: u64 },
    TxTs { ctx: usize, t3_local: i128 },
    Bmca,
}

#[derive(PartialEq, Eq, PartialOrd, Ord)]
struct Ev(std::cmp::Reverse<(u64, u64)>, Kind);

pub struct Outcome {
    pub settle_s: Option<f64>,
    pub worst_after_ns: f64,
    pub steps_total: u64,
    pub last_step_s: f64,
    pub measurements: usize,
    pub bad_freq: Option<f64>,
    pub trace_tail: Vec<(f64, f64)>,
}

fn ilog_ns(log: i8) -> u64 {
    if log >= 0 {
        1_000_000_000u64 << log
    } else {
        1_000_000_000u64 >> (-log)
    }
}

pub fn simulate(p: &Params, bound_ns: f64, t_settle_ns: u64, horizon_ns: u64) -> Outcome {
    let mut cfg = NodeCfg::default();
    cfg.identity = [0, 0, 0, 0, 0, 0, 0, 0x10];
    cfg.filter = FilterKind::Kalman;
    cfg.clock_local0_bits = ((BASE_NS as i128) + p.offset_ns as i128) << 32;
    cfg.clock_osc_ppm = p.osc_ppm;
    cfg.rng_seed = p.seed;
    cfg.ports[0].sync_log = p.sync_log;
    cfg.ports[0].delay_log = p.delay_log;
    cfg.ports[0].announce_log = 0;
    let mut node = Node::new(cfg);
    let mut rng = p.seed | 1;
    let mut rnd = move || {
        rng ^= rng << 13;
        rng ^= rng >> 7;
        rng ^= rng << 17;
        rng
    };
    let mut heap: BinaryHeap<Ev> = BinaryHeap::new();
    let mut tie = 0u64;
    let mut push = |heap: &mut BinaryHeap<Ev>, t: u64, k: Kind| {
        tie += 1;
        heap.push(Ev(std::cmp::Reverse((t, tie)), k));
    };
    let sync_i = ilog_ns(p.sync_log);
    let ann_i = ilog_ns(0);
    push(&mut heap, 1_000 + p.master_start_ns, Kind::MasterAnnounce);
    push(&mut heap, 50_000 + p.master_start_ns, Kind::MasterSync);
    push(&mut heap, node.bmca_interval_ns() / 3, Kind::Bmca);
    let mut ann = simple_announce(MASTER.clock, 1, 6, 0);
    ann.gm_identity = MASTER.clock;
    let mut aseq = 0u16;
    let mut sseq = 0u16;
    let clock = node.clock.clone();
    let local_at = |true_ns: u64| -> i128 { clock.borrow().local_at((true_ns as i128) << 32) };
    let true_offset_ns = |true_ns: u64| -> f64 { (local_at(true_ns) - (((BASE_NS + true_ns as u128) as i128) << 32)) as f64 / 4294967296.0 };
    let mut samples: Vec<(u64, f64)> = vec![];
    let mut calls_seen = 0usize;
    let mut step_times: Vec<u64> = vec![];
    let mut bad_freq = None;
    let mut now = 0u64;
    let mut guard = 0u64;
    loop {
        guard += 1;
        if guard > 2_000_000 {
            break;
        }
        let tt = node.next_timer().map(|x| x.0).unwrap_or(u64::MAX);
        let te = heap.peek().map(|e| e.0 .0 .0).unwrap_or(u64::MAX);
        let t = tt.min(te);
        if t > horizon_ns {
            break;
        }
        now = now.max(t);
        node.now_ns = now;
        clock.borrow_mut().set_true((now as i128) << 32);
        let mut acts: Vec<OAction> = vec![];
        if tt <= te {
            let (_, port, k) = node.next_timer().unwrap();
            acts = node.timer(port, k);
        } else {
            let Ev(_, kind) = heap.pop().unwrap();
            match kind {
                Kind::Bmca => {
                    node.bmca();
                    let per = node.bmca_interval_ns();
                    push(&mut heap, now + per, Kind::Bmca);
                }
                Kind::MasterAnnounce => {
                    aseq = aseq.wrapping_add(1);
                    let m = announce_from(MASTER, aseq, ann, 0, 0);
                    acts = node.recv_general(0, &m.encode());
                    push(&mut heap, now + ann_i, Kind::MasterAnnounce);
                }
                Kind::MasterSync => {
                    sseq = sseq.wrapping_add(1);
                    let j1 = if p.jitter_ns > 0 { rnd() % (p.jitter_ns + 1) } else { 0 };
                    let j2 = if p.jitter_ns > 0 { rnd() % (p.jitter_ns + 1) } else { 0 };
                    let arrive = now + p.delay_ns + j1;
                    if p.one_step {
                        push(&mut heap, arrive, Kind::DeliverSync { seq: sseq, t1: now });
                    } else if p.fup_first {
                        push(&mut heap, arrive.saturating_sub(1), Kind::DeliverFup { seq: sseq, t1: now });
                        push(&mut heap, arrive, Kind::DeliverSync { seq: sseq, t1: now });
                    } else {
                        push(&mut heap, arrive, Kind::DeliverSync { seq: sseq, t1: now });
                        push(&mut heap, arrive + 20_000 + j2, Kind::DeliverFup { seq: sseq, t1: now });
                    }
                    push(&mut heap, now + sync_i, Kind::MasterSync);
                }
                Kind::DeliverSync { seq, t1 } => {
                    let mut m = RMsg::new(T_SYNC, MASTER, seq, RBody::Sync { origin: if p.one_step { RTs::from_ns(BASE_NS + t1 as u128) } else { RTs::default() } });
                    m.header.set_flag(F_TWO_STEP, !p.one_step);
                    let rx = local_at(now).max(0) as u128;
                    acts = node.recv_event(0, &m.encode(), time_from_bits(rx));
                }
                Kind::DeliverFup { seq, t1 } => {
                    let m = RMsg::new(T_FOLLOW_UP, MASTER, seq, RBody::FollowUp { precise_origin: RTs::from_ns(BASE_NS + t1 as u128) });
                    acts = node.recv_general(0, &m.encode());
                }
                Kind::DelayReqAtMaster { seq, ctx, t3_local } => {
                    // master stamps the arrival with true time and answers
                    let back = p.delay_ns + if p.jitter_ns > 0 { rnd() % (p.jitter_ns + 1) } else { 0 };
                    push(&mut heap, now + back, Kind::DeliverResp { seq, t4: now });
                    let late = match p.tx_mode {
                        0 => false,
                        1 => true,
                        _ => rnd() % 2 == 0,
                    };
                    if late {
                        push(&mut heap, now + back + 5_000, Kind::TxTs { ctx, t3_local });
                    }
                }
                Kind::DeliverResp { seq, t4 } => {
                    let m = RMsg::new(T_DELAY_RESP, MASTER, seq, RBody::DelayResp { receive: RTs::from_ns(BASE_NS + t4 as u128), requesting: node.port_id(0) });
                    acts = node.recv_general(0, &m.encode());
                }
                Kind::TxTs { ctx, t3_local } => {
                    // the hardware latched the clock reading when the frame left
                    let ts = t3_local.max(0) as u128;
                    // note: the timestamp is the clock reading at transmission; a step in between shifts the
                    // timescale, which is what real hardware timestamps do as well
                    if let Some((_, a)) = node.tx_timestamp(ctx, time_from_bits(ts)) {
                        acts = a;
                    }
                }
            }
        }
        // frames the slave emits
        let mut queue = acts;
        while !queue.is_empty() {
            let mut next = vec![];
            for a in queue {
                if let OAction::SendEvent { ctx, data, .. } = a {
                    if data.len() >= 34 && data[0] & 0xf == T_DELAY_REQ {
                        let seq = ((data[30] as u16) << 8) | data[31] as u16;
                        let j = if p.jitter_ns > 0 { rnd() % (p.jitter_ns + 1) } else { 0 };
                        push(&mut heap, now + p.delay_ns + j, Kind::DelayReqAtMaster { seq, ctx, t3_local: local_at(now) });
                        if p.tx_mode == 0 {
                            let ts = local_at(now).max(0) as u128;
                            if let Some((_, a2)) = node.tx_timestamp(ctx, time_from_bits(ts)) {
                                next.extend(a2);
                            }
                        }
                    } else {
                        // other event frames (none expected from an E2E slave): report the timestamp at once
                        let ts = local_at(now).max(0) as u128;
                        if let Some((_, a2)) = node.tx_timestamp(ctx, time_from_bits(ts)) {
                            next.extend(a2);
                        }
                    }
                }
            }
            queue = next;
        }
        // clock commands issued during this event
        {
            let c = clock.borrow();
            for call in c.calls.iter().skip(calls_seen) {
                match call.op {
                    ClockOp::Step(b) if call.ok => {
                        if std::env::var("VERIF_C02_TRACE").is_ok() {
                            eprintln!("STEP t={:.3}s by {:.6}s offset_after={:.6}s", now as f64 / 1e9, b as f64 / 4294967296.0 / 1e9, true_offset_ns(now) / 1e9);
                        }
                        step_times.push(now)
                    }
                    ClockOp::SetFrequency(f) => {
                        if !f.is_finite() || f.abs() > 400.0 * (1.0 + 1e-12) {
                            bad_freq = Some(f);
                        }
                    }
                    _ => {}
                }
            }
            calls_seen = c.calls.len();
        }
        samples.push((now, true_offset_ns(now)));
    }
    lock_mon_take();
    // settle time: the last sample outside the bound
    let last_bad = samples.iter().rev().find(|(_, o)| o.abs() > bound_ns).map(|(t, _)| *t);
    let settle = match last_bad {
        None => Some(0.0),
        Some(t) if t < horizon_ns.saturating_sub(ilog_ns(p.sync_log) * 4) => Some(t as f64 / 1e9),
        Some(_) => None,
    };
    let ts_ns = settle.map(|s| (s * 1e9) as u64).unwrap_or(horizon_ns);
    let worst_after = samples.iter().filter(|(t, _)| *t > t_settle_ns).map(|(_, o)| o.abs()).fold(0.0, f64::max);
    let _ = ts_ns;
    let ncalls = node.clock.borrow().calls.len();
    Outcome {
        settle_s: settle,
        worst_after_ns: worst_after,
        steps_total: step_times.len() as u64,
        last_step_s: step_times.last().map(|t| *t as f64 / 1e9).unwrap_or(0.0),
        measurements: ncalls,
        bad_freq,
        trace_tail: samples.iter().rev().take(5).map(|(t, o)| (*t as f64 / 1e9, *o)).collect(),
    }
}

/// stated tolerance (calibrated on the unchanged tree, see DESIGN.md C02): residual bound and settle time
pub fn bound_ns(jitter_ns: u64) -> f64 {
    500.0 + 3.0 * jitter_ns as f64
}
pub fn t_settle_ns(sync_log: i8, delay_log: i8) -> u64 {
    // the servo needs sync/delay pairs close in time to estimate its measurement noise, so its start-up
    // time scales with the slower of the two message rates (calibration: DESIGN.md C02)
    120_000_000_000 + 1000 * ilog_ns(sync_log).max(ilog_ns(delay_log))
}

pub fn case(t: &mut Tape) -> CaseOut {
    let mut out = CaseOut::new();
    let p = gen_params(t);
    let ts = t_settle_ns(p.sync_log, p.delay_log) + p.master_start_ns;
    let horizon = ts + 120_000_000_000 + std::env::var("VERIF_C02_EXTRA_S").ok().and_then(|x| x.parse::<u64>().ok()).unwrap_or(0) * 1_000_000_000;
    let b = bound_ns(p.jitter_ns);
    let o = simulate(&p, b, ts, horizon);
    if std::env::var("VERIF_C02_CALIB").is_ok() {
        eprintln!("CAL {} {} {} {} {} {} {} {} {} {:?} {} {} {}", p.offset_ns, p.osc_ppm, p.delay_ns, p.jitter_ns, p.sync_log, p.delay_log, p.one_step as u8, p.fup_first as u8, p.tx_mode, o.settle_s, o.worst_after_ns, o.steps_total, o.last_step_s);
    }
    out.render = json!({"params": format!("{:?}", p), "settle_s": o.settle_s, "worst_offset_after_settle_ns": o.worst_after_ns, "steps": o.steps_total, "last_step_s": o.last_step_s});
    if let Some(f) = o.bad_freq {
        out.fail("frequency command not finite or outside +-max_freq_offset", format!("{} ; {:?}", f, p));
    }
    if o.measurements == 0 {
        out.fail("harness: the servo never touched the clock", format!("{:?}", p));
    }
    match o.settle_s {
        Some(s) if s * 1e9 <= ts as f64 => {
            out.label(format!("settle<={}s", ((s / 20.0).ceil() * 20.0) as u64));
        }
        _ => out.fail(
            "true offset not within the jitter-determined bound by the settle time",
            format!("bound {} ns, settle limit {} s: settled at {:?} s, worst after limit {} ns, tail {:?} ; {:?}", b, ts as f64 / 1e9, o.settle_s, o.worst_after_ns, o.trace_tail, p),
        ),
    }
    if o.last_step_s * 1e9 > ts as f64 {
        out.fail("clock stepped after the settle time", format!("last step at {} s (limit {} s), {} steps ; {:?}", o.last_step_s, ts as f64 / 1e9, o.steps_total, p));
    }
    out.label(format!("residual/bound<={}", ((o.worst_after_ns / b * 4.0).ceil() / 4.0)));
    if p.master_start_ns > 0 {
        out.label("late-master(port was MASTER first)");
    }
    if p.offset_ns.abs() > 1_000_000 || p.osc_ppm.abs() > 10.0 || p.jitter_ns > 1_000 {
        out.nontrivial = Some(hash_of(&(p.offset_ns / 1000, (p.osc_ppm * 10.0) as i64, p.delay_ns / 1000, p.jitter_ns / 100, p.sync_log, p.delay_log, p.one_step, p.tx_mode, p.master_start_ns > 0)));
    }
    out
}

pub fn run(ctx: &Ctx) -> i32 {
    let mut rep = Report::new();
    run_cases(ctx, &mut rep, "loops", ctx.cases(4000, 200_000), case);
    // the real daemon (real KalmanFilter, OverlayClock and the clock plumbing of statime-linux/src/main.rs) locked to
    // a grandmaster played by the harness with kernel transmit/receive timestamps
    std::env::set_var("VERIF_C02_E2E_SECS", if ctx.quick() { "40" } else { "75" });
    let workers = (ctx.threads as u64 / 2).clamp(2, 8);
    let sum = crate::daemon::run_part(ctx, &mut rep, ctx.cases(workers, 6 * workers), workers);
    if let Some(why) = &sum.skipped {
        println!("note: end-to-end daemon part skipped ({}); the other parts are unaffected", why);
    }
    finish(
        Finish {
            ctx,
            level: "exploration",
            rule: "closed loop: a synthetic grandmaster (ideal clock = true time; one-step or two-step, Follow_Up optionally before its Sync) and a real slave port with the real KalmanFilter (default configuration) steering a simulated clock; initial offset in [-10 s, 10 s] (log-uniform magnitude, both signs, exact 0), oscillator error within +-150 ppm, symmetric one-way delay 1..400 us, uniform per-message jitter up to J in [0, 20 us], sync and delay-request log intervals -3..1, transmit timestamps reported promptly / only after the Delay_Resp / mixed; in a third of the cases the grandmaster only starts 5-20 s after the port, which has then become master through its announce receipt timeout (LISTENING -> MASTER -> SLAVE; all limits count from the grandmaster's start); all of the slave's timestamps are readings of the steered clock. Oracle: |true offset| <= 0.5 us + 3 J from some time <= 120 s + 1000 x max(sync interval, delay-request interval) until the horizon (+120 s), no clock step after that time, every frequency command finite and within +-400 ppm. Part daemon: the real statime daemon (two-port boundary clock in a private network namespace, virtual overlay clock) slaved for 40 s (thorough 75 s) to a grandmaster played by the harness whose clock differs from the system clock by a generated offset (0 .. +-5 s) and drift (+-100 ppm), two-step Sync with kernel transmit timestamps, Delay_Resp with kernel receive timestamps; the daemon's other port is master and stamps its own Sync/Follow_Up with the steered clock, which gives the true offset at every Sync; over the last quarter of the run the median |offset| must be <= 200 us and the 90th percentile <= 1 ms (thorough: 100 us / 400 us; calibration: 1-3 us after 18 s, single outliers <= 36 us). Non-trivial = |offset| > 1 ms or |oscillator error| > 10 ppm or J > 1 us; distinct by quantised parameter tuple.",
            assumptions: vec!["tolerances (0.5 us + 3 J, 120 s + 1000 x the slower message interval) were calibrated once on the unchanged tree with head-room and are a stated tolerance, not tuned per run".into(), "no wall clock anywhere: a run is a pure function of its parameters".into()],
            min_nontrivial: 50,
        },
        rep,
    )
}

pub fn replay(ctx: &Ctx, path: &str) -> i32 {
    let part = std::fs::read_to_string(path).ok().and_then(|s| serde_json::from_str::<serde_json::Value>(&s).ok()).and_then(|v| v["part"].as_str().map(|x| x.to_string()));
    if part.as_deref() == Some("daemon") {
        std::env::set_var("VERIF_C02_E2E_SECS", if ctx.quick() { "40" } else { "75" });
        return crate::daemon::replay_part(ctx, path, 2);
    }
    replay_file(ctx, path, case)
}
