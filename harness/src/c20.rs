//! C20 — the metrics exporter cannot be wedged by its clients.
//! Fault enumeration: all behaviour sequences to length 2 exhaustively, sampled
//! to length 4, each followed by a probe request that must be answered.

use crate::engine::*;
use crate::exporter::*;
use crate::host::*;
use serde_json::json;
use statime_linux::metrics::exporter::{ObservableState, ProgramData};
use statime_linux::observer::ObservableInstanceState;
use std::io::Write;
use std::net::TcpStream;
use std::time::{Duration, Instant};

pub fn observable_of(node: &Node) -> ObservableInstanceState {
    let inst = node.inst();
    ObservableInstanceState {
        default_ds: inst.default_ds(),
        current_ds: inst.current_ds(None),
        parent_ds: inst.parent_ds(),
        time_properties_ds: inst.time_properties_ds(),
        path_trace_ds: inst.path_trace_ds(),
        port_ds: (0..node.nports()).map(|p| node.port_ds(p)).collect(),
    }
}

pub fn valid_payload() -> Vec<u8> {
    let node = Node::new(NodeCfg::default());
    let st = ObservableState { program: ProgramData::with_uptime(12.5), instance: observable_of(&node) };
    lock_mon_take();
    serde_json::to_vec(&st).unwrap()
}

#[derive(Clone, Copy, Debug, PartialEq, Eq, Hash)]
pub enum Client {
    GoodGet,
    CloseAfter(usize),  // send the first n bytes of a valid request, then close
    CloseBeforeLast,    // everything but the last byte of the header terminator
    Oversize(usize),    // n bytes without header terminator, then close
    Verb(u8),           // 0 POST, 1 HEAD, 2 lowercase get
    SplitGet(usize),    // well-formed GET in k writes
    SplitAt(usize),     // well-formed GET in two writes, the second starting n bytes before the end
    SplitHead(usize),   // well-formed GET in two writes, the first being its first n bytes only
    ResetBefore,        // RST before sending anything
    ResetAfterSend,     // full request, then RST without reading the reply
}

#[derive(Clone, Copy, Debug, PartialEq, Eq, Hash)]
pub enum Sock {
    Valid,
    Truncated,
    WrongShape,
    NotJson,
    EmptyClose,
    Refused,
    /// well-formed JSON of the right shape whose enum payloads are outside what the daemon can produce
    /// (clockAccuracy ProfileSpecific(200), timeSource ProfileSpecific(200))
    OutOfRange,
    /// well-formed JSON of the right shape generated over the full range of every field (C19's generator), case k
    Generated(u16),
}

const REQ: &[u8] = b"GET /metrics HTTP/1.1\r\nHost: localhost\r\nAccept: */*\r\n\r\n";

pub const CLIENTS_REDUCED: [Client; 14] = [Client::SplitAt(1), Client::SplitAt(2), Client::SplitAt(3), Client::SplitHead(1), Client::SplitHead(2), Client::GoodGet, Client::CloseAfter(0), Client::CloseAfter(3), Client::CloseBeforeLast, Client::Oversize(2048), Client::Verb(0), Client::SplitGet(3), Client::ResetBefore, Client::ResetAfterSend];
pub const CLIENTS_FULL: [Client; 26] = [
    Client::SplitHead(1),
    Client::SplitHead(2),
    Client::SplitHead(3),
    Client::SplitHead(7),
    Client::SplitAt(1),
    Client::SplitAt(2),
    Client::SplitAt(3),
    Client::SplitAt(4),
    Client::SplitAt(5),
    Client::SplitAt(30),
    Client::GoodGet,
    Client::CloseAfter(0),
    Client::CloseAfter(1),
    Client::CloseAfter(3),
    Client::CloseAfter(17),
    Client::CloseBeforeLast,
    Client::Oversize(2048),
    Client::Oversize(2049),
    Client::Oversize(4096),
    Client::Verb(0),
    Client::Verb(1),
    Client::Verb(2),
    Client::SplitGet(2),
    Client::SplitGet(5),
    Client::ResetBefore,
    Client::ResetAfterSend,
];
pub const SOCKS_REDUCED: [Sock; 5] = [Sock::Valid, Sock::Truncated, Sock::EmptyClose, Sock::Refused, Sock::OutOfRange];
pub const SOCKS_FULL: [Sock; 7] = [Sock::Valid, Sock::Truncated, Sock::WrongShape, Sock::NotJson, Sock::EmptyClose, Sock::Refused, Sock::OutOfRange];

fn sock_behaviour(s: Sock, valid: &[u8]) -> SockBehaviour {
    match s {
        Sock::Valid => SockBehaviour::Payload(valid.to_vec()),
        Sock::Truncated => SockBehaviour::Payload(valid[..valid.len() / 2].to_vec()),
        Sock::WrongShape => SockBehaviour::Payload(b"{\"program\": 1, \"instance\": [1,2,3]}".to_vec()),
        Sock::NotJson => SockBehaviour::Payload(b"<html>not json</html>".to_vec()),
        Sock::EmptyClose => SockBehaviour::EmptyClose,
        Sock::Refused => SockBehaviour::Refused,
        Sock::Generated(k) => {
            let mut t = Tape::fresh(0xc20_c19, k as u64);
            SockBehaviour::Payload(crate::c19::gen_json_state(&mut t).into_bytes())
        }
        Sock::OutOfRange => {
            let mut v: serde_json::Value = serde_json::from_slice(valid).expect("valid payload parses");
            v["instance"]["default_ds"]["clock_quality"]["clock_accuracy"] = serde_json::json!({"ProfileSpecific": 200});
            v["instance"]["parent_ds"]["grandmaster_clock_quality"]["clock_accuracy"] = serde_json::json!({"ProfileSpecific": 255});
            v["instance"]["time_properties_ds"]["time_source"] = serde_json::json!({"ProfileSpecific": 200});
            SockBehaviour::Payload(serde_json::to_vec(&v).unwrap())
        }
    }
}

/// returns Some(status) if a complete response was read
fn do_client(exp: &Exporter, c: Client, expect_served: bool) -> Result<Option<u16>, String> {
    let t0 = Instant::now();
    let mut s = TcpStream::connect_timeout(&exp.addr, Duration::from_secs(2)).map_err(|e| format!("connect: {}", e))?;
    s.set_read_timeout(Some(Duration::from_millis(50))).ok();
    s.set_nodelay(true).ok();
    match c {
        Client::GoodGet => {
            s.write_all(REQ).map_err(|e| e.to_string())?;
            let raw = read_response(&mut s, t0, Duration::from_secs(3))?;
            Ok(parse_http(&raw).filter(|r| r.complete).map(|r| r.status))
        }
        Client::SplitGet(k) => {
            let n = REQ.len();
            for i in 0..k {
                let a = n * i / k;
                let b = n * (i + 1) / k;
                s.write_all(&REQ[a..b]).map_err(|e| e.to_string())?;
                s.flush().ok();
                std::thread::sleep(Duration::from_millis(3));
            }
            let raw = read_response(&mut s, t0, Duration::from_secs(3))?;
            Ok(parse_http(&raw).filter(|r| r.complete).map(|r| r.status))
        }
        Client::SplitAt(n) => {
            let cut = REQ.len() - n.min(REQ.len() - 1);
            s.write_all(&REQ[..cut]).map_err(|e| e.to_string())?;
            s.flush().ok();
            std::thread::sleep(Duration::from_millis(4));
            s.write_all(&REQ[cut..]).map_err(|e| e.to_string())?;
            let raw = read_response(&mut s, t0, Duration::from_secs(3))?;
            Ok(parse_http(&raw).filter(|r| r.complete).map(|r| r.status))
        }
        Client::SplitHead(n) => {
            let cut = n.min(REQ.len() - 1);
            s.write_all(&REQ[..cut]).map_err(|e| e.to_string())?;
            s.flush().ok();
            std::thread::sleep(Duration::from_millis(4));
            s.write_all(&REQ[cut..]).map_err(|e| e.to_string())?;
            let raw = read_response(&mut s, t0, Duration::from_secs(3))?;
            Ok(parse_http(&raw).filter(|r| r.complete).map(|r| r.status))
        }
        Client::CloseAfter(n) => {
            let _ = s.write_all(&REQ[..n.min(REQ.len())]);
            drop(s);
            Ok(None)
        }
        Client::CloseBeforeLast => {
            let _ = s.write_all(&REQ[..REQ.len() - 1]);
            drop(s);
            Ok(None)
        }
        Client::Oversize(n) => {
            let mut junk = b"GET /".to_vec();
            junk.resize(n, b'a');
            let _ = s.write_all(&junk);
            std::thread::sleep(Duration::from_millis(2));
            drop(s);
            Ok(None)
        }
        Client::Verb(v) => {
            let req: &[u8] = match v {
                0 => b"POST /metrics HTTP/1.1\r\nHost: x\r\nContent-Length: 0\r\n\r\n",
                1 => b"HEAD /metrics HTTP/1.1\r\nHost: x\r\n\r\n",
                _ => b"get /metrics HTTP/1.1\r\nHost: x\r\n\r\n",
            };
            let _ = s.write_all(req);
            // whatever comes back (nothing, an error status) is fine; then go away
            let _ = read_response(&mut s, t0, Duration::from_millis(300));
            drop(s);
            Ok(None)
        }
        Client::ResetBefore => {
            set_linger_zero(&s);
            drop(s);
            Ok(None)
        }
        Client::ResetAfterSend => {
            let _ = s.write_all(REQ);
            if expect_served {
                std::thread::sleep(Duration::from_millis(2));
            }
            set_linger_zero(&s);
            drop(s);
            Ok(None)
        }
    }
}

fn needs_observation(c: Client) -> bool {
    matches!(c, Client::GoodGet | Client::SplitGet(_) | Client::SplitAt(_) | Client::SplitHead(_) | Client::ResetAfterSend)
}

pub struct Runner {
    pub exp: Option<Exporter>,
    pub valid: Vec<u8>,
    pub restarts: u64,
}

impl Runner {
    pub fn new() -> Result<Runner, String> {
        let valid = valid_payload();
        let exp = Exporter::start(valid.clone())?;
        Ok(Runner { exp: Some(exp), valid, restarts: 0 })
    }
    fn restart(&mut self) -> Result<(), String> {
        self.exp = None;
        self.exp = Some(Exporter::start(self.valid.clone())?);
        self.restarts += 1;
        Ok(())
    }

    /// Run one sequence + probe. Ok(None) = held, Ok(Some((sig, detail))) = violation, Err = infrastructure.
    pub fn run_sequence(&mut self, seq: &[(Client, Sock)]) -> Result<Option<(String, String)>, String> {
        if self.exp.is_none() {
            self.restart()?;
        }
        let valid = self.valid.clone();
        let exp = self.exp.as_mut().unwrap();
        let cpu0 = exp.cpu_ticks();
        let t_start = Instant::now();
        let mut verdict: Option<(String, String)> = None;
        for (i, (c, sk)) in seq.iter().enumerate() {
            let uses_obs = needs_observation(*c);
            if uses_obs {
                exp.obs.script.lock().unwrap().push_back(sock_behaviour(*sk, &valid));
                exp.obs.wait_settled();
            }
            let r = do_client(exp, *c, uses_obs);
            if uses_obs {
                // let the exporter finish with the observation socket before the script moves on
                let t0 = Instant::now();
                while t0.elapsed() < Duration::from_millis(300) {
                    let pending = exp.obs.script.lock().unwrap().len();
                    if pending == 0 || *sk == Sock::Refused {
                        break;
                    }
                    std::thread::sleep(Duration::from_micros(300));
                }
                if *sk == Sock::Refused {
                    std::thread::sleep(Duration::from_millis(3));
                    exp.obs.consume_refused();
                    exp.obs.wait_settled();
                } else {
                    // drop an unconsumed behaviour (e.g. the client reset before the exporter connected)
                    exp.obs.script.lock().unwrap().clear();
                }
            }
            match (c, r) {
                (Client::GoodGet | Client::SplitGet(_) | Client::SplitAt(_) | Client::SplitHead(_), Ok(Some(st))) => {
                    let want_ok = *sk == Sock::Valid;
                    if (want_ok && st != 200) || (!want_ok && st != 500 && st != 200) {
                        verdict.get_or_insert((format!("well-formed request #{} answered with unexpected status", i), format!("status {} for {:?}/{:?} in {:?}", st, c, sk, seq)));
                    }
                }
                (Client::GoodGet | Client::SplitGet(_) | Client::SplitAt(_) | Client::SplitHead(_), other) => {
                    verdict.get_or_insert((format!("well-formed request inside the sequence not answered ({:?})", c), format!("{:?} for {:?}/{:?} in {:?}", other, c, sk, seq)));
                }
                _ => {}
            }
            if verdict.is_some() {
                break;
            }
        }
        // probe
        if verdict.is_none() {
            exp.obs.script.lock().unwrap().clear();
            exp.obs.wait_settled();
            let mut probe = http_get(&exp.addr, Duration::from_secs(5)).ok().and_then(|raw| parse_http(&raw)).filter(|r| r.complete).map(|r| r.status);
            if probe != Some(200) {
                // The property is about later requests being answered; one unlucky probe (the harness's own
                // observation socket is re-created between requests) is not the exporter's fault: up to ten more over
                // a second, with the observation socket known to be listening, then look at the process. An exporter
                // that no longer serves fails all of them.
                for _ in 0..10 {
                    std::thread::sleep(Duration::from_millis(100));
                    exp.obs.script.lock().unwrap().clear();
                    exp.obs.wait_settled();
                    let again = http_get(&exp.addr, Duration::from_secs(3)).ok().and_then(|raw| parse_http(&raw)).filter(|r| r.complete).map(|r| r.status);
                    if again == Some(200) {
                        probe = again;
                        break;
                    }
                }
            }
            if probe != Some(200) {
                let alive = exp.alive();
                let cpu = exp.cpu_ticks() - cpu0;
                let wall = t_start.elapsed().as_secs_f64();
                let ticks_per_s = 100.0;
                let spinning = alive && (cpu as f64 / ticks_per_s) > 0.5 * wall.max(0.5);
                let how = if !alive {
                    "exporter exited"
                } else if spinning {
                    "exporter spins (busy loop) and no longer answers"
                } else {
                    "exporter hangs and no longer answers"
                };
                let last = seq.last().map(|x| format!("{:?}", x.0)).unwrap_or_default();
                let last_class = last.split('(').next().unwrap_or("").to_string();
                verdict = Some((format!("{} after client behaviour {}", how, last_class), format!("probe {:?}; cpu ticks {} in {:.1}s; sequence {:?}", probe, cpu, wall, seq)));
            }
        }
        if verdict.is_some() {
            // independent cases: restart after a violating one
            self.exp = None;
        }
        Ok(verdict)
    }
}

fn render_seq(seq: &[(Client, Sock)]) -> serde_json::Value {
    json!(seq.iter().map(|(c, s)| format!("{:?}/{:?}", c, s)).collect::<Vec<_>>())
}

pub fn run(ctx: &Ctx) -> i32 {
    let mut rep = Report::new();
    let mut runner = match Runner::new() {
        Ok(r) => r,
        Err(e) => {
            println!("INFRASTRUCTURE: cannot start the exporter: {}", e);
            return 2;
        }
    };
    let known = load_known();
    let (clients, socks): (&[Client], &[Sock]) = if ctx.quick() { (&CLIENTS_REDUCED, &SOCKS_REDUCED) } else { (&CLIENTS_FULL, &SOCKS_FULL) };
    let mut pairs: Vec<(Client, Sock)> = vec![];
    for c in clients {
        if needs_observation(*c) {
            for s in socks {
                pairs.push((*c, *s));
            }
        } else {
            pairs.push((*c, Sock::Valid));
        }
    }
    let mut seqs: Vec<Vec<(Client, Sock)>> = vec![];
    for a in &pairs {
        seqs.push(vec![*a]);
    }
    for a in &pairs {
        for b in &pairs {
            seqs.push(vec![*a, *b]);
        }
    }
    // runs: the same disturbing client many times in a row (anything that accumulates per failed connection)
    let run_lens: &[usize] = if ctx.quick() { &[14] } else { &[14, 40] };
    let mut n_runs = 0;
    for c in clients {
        if *c == Client::GoodGet {
            continue;
        }
        for k in run_lens {
            seqs.push(vec![(*c, Sock::Valid); *k]);
            n_runs += 1;
        }
    }
    let exhaustive_n = seqs.len() - n_runs;
    // sampled longer sequences
    let nsample = ctx.cases(150, 5000);
    let mut tape = Tape::fresh(ctx.seed ^ 0xc20, 1);
    for _ in 0..nsample {
        let l = 3 + tape.below(2) as usize;
        seqs.push(
            (0..l)
                .map(|_| {
                    let mut p = *tape.pick(&pairs);
                    if needs_observation(p.0) && tape.chance(1, 4) {
                        p.1 = Sock::Generated(tape.below(65536) as u16);
                    }
                    p
                })
                .collect(),
        );
    }
    // every kind of state the observation socket could conceivably hold, one request each
    for k in 0..ctx.cases(400, 20_000) {
        seqs.push(vec![(Client::GoodGet, Sock::Generated(k as u16))]);
    }
    let mut seen_sigs = std::collections::HashSet::new();
    let t0 = Instant::now();
    for (i, seq) in seqs.iter().enumerate() {
        let r = runner.run_sequence(seq);
        rep.evaluations += 1;
        crate::engine::PROGRESS.fetch_add(1, std::sync::atomic::Ordering::Relaxed);
        let nontriv = seq.iter().any(|(c, s)| *c != Client::GoodGet || *s != Sock::Valid);
        if nontriv {
            rep.nontrivial.insert(hash_of(seq));
            if rep.samples.len() < 8 && i % 37 == 0 {
                rep.samples.push(render_seq(seq));
            }
        }
        for (c, _) in seq {
            *rep.labels.entry(format!("client:{}", format!("{:?}", c).split('(').next().unwrap_or(""))).or_insert(0) += 1;
        }
        match r {
            Err(e) => {
                println!("INFRASTRUCTURE: {}", e);
                return 2;
            }
            Ok(None) => {}
            Ok(Some((sig, detail))) => {
                if let Some(k) = known.iter().find(|k| k.status == "known" && k.property == ctx.prop && sig.contains(&k.signature)) {
                    *rep.known_hits.entry(k.signature.clone()).or_insert(0) += 1;
                } else if seen_sigs.insert(sig.clone()) && rep.violations.len() < 6 {
                    rep.violations.push((Violation { sig, detail }, vec![], json!({"sequence": render_seq(seq), "seq_debug": format!("{:?}", seq)})));
                    rep.viol_parts.push("sequences".into());
                }
            }
        }
        if rep.violations.len() >= 3 {
            println!("stopping after {} sequences: three distinct violations recorded", i + 1);
            break;
        }
        if t0.elapsed() > Duration::from_secs(if ctx.quick() { 240 } else { 3000 }) {
            println!("time budget reached after {} sequences (inconclusive for the rest)", i + 1);
            break;
        }
    }
    if rep.samples.is_empty() {
        rep.samples.push(render_seq(&seqs[seqs.len() / 2]));
    }
    rep.exhaustive = true;
    rep.parts.push(json!({"part": "sequences", "exhaustive_up_to_length_2": exhaustive_n, "runs_of_one_client": n_runs, "sampled_length_3_4": nsample, "exporter_restarts": runner.restarts, "wall_s": t0.elapsed().as_secs_f64()}));
    finish(
        Finish {
            ctx,
            level: "fault_enumeration",
            rule: "the statime-metrics-exporter binary built from /repo is run as a subprocess; a case is a sequence of (client behaviour, observation-socket behaviour) pairs followed by a probe (well-formed GET with valid JSON behind it). Client behaviours: well-formed GET, close after 0/1/3/17 bytes, close one byte before the end of the header terminator, 2048/2049/4096 bytes without terminator then close, POST/HEAD/lowercase get, GET split over 2-5 writes, split inside the header terminator and after its first 1/2/3/7 bytes, TCP reset before sending, reset after sending without reading the reply. Socket behaviours: valid JSON, truncated JSON, wrong-shape JSON, not JSON, accept-and-close, socket absent, well-formed JSON with out-of-range enum payloads (ProfileSpecific(200) accuracy / time source), well-formed JSON generated over the full range of every field (400 states, thorough 20000, one request each, and mixed into the sampled sequences). All sequences of length 1 and 2 are enumerated exhaustively (quick: reduced alphabet), lengths 3-4 sampled, plus for every disturbing client a run of 14 (thorough also 40) in a row. Oracle: the probe gets a complete 200 response with matching Content-Length within 5 s; well-formed requests inside the sequence get 200 (500 when the socket misbehaved); on a miss the process is inspected (exited / spinning by CPU time / hanging). Non-trivial = the sequence contains a behaviour other than a well-formed GET with valid JSON; distinct by sequence.",
            assumptions: vec!["only clients that go away are generated (a client that stays connected and silent is not)".into(), "loopback TCP and Unix sockets of the sandbox kernel".into()],
            min_nontrivial: 10,
        },
        rep,
    )
}

pub fn replay(_ctx: &Ctx, path: &str) -> i32 {
    let s = std::fs::read_to_string(path).expect("read replay");
    let v: serde_json::Value = serde_json::from_str(&s).expect("parse");
    let dbg = v["case"]["seq_debug"].as_str().unwrap_or("").to_string();
    // rebuild the sequence from its debug form by matching against the full alphabets
    let mut seq = vec![];
    for part in dbg.trim_matches(|c| c == '[' || c == ']').split("), (") {
        let part = part.trim_matches(|c| c == '(' || c == ')');
        for c in CLIENTS_FULL.iter() {
            for sk in SOCKS_FULL.iter() {
                if part == format!("{:?}, {:?}", c, sk) {
                    seq.push((*c, *sk));
                }
            }
            if let Some(rest) = part.strip_prefix(&format!("{:?}, Generated(", c)) {
                if let Ok(k) = rest.trim_end_matches(')').parse::<u16>() {
                    seq.push((*c, Sock::Generated(k)));
                }
            }
        }
    }
    let mut runner = match Runner::new() {
        Ok(r) => r,
        Err(e) => {
            println!("INFRASTRUCTURE: {}", e);
            return 2;
        }
    };
    match runner.run_sequence(&seq) {
        Err(e) => {
            println!("INFRASTRUCTURE: {}", e);
            2
        }
        Ok(None) => {
            println!("replay passed ({} steps)", seq.len());
            0
        }
        Ok(Some((sig, detail))) => {
            println!("VIOLATION property=C20 replay={}\n  signature: {}\n  detail: {}", path, sig, detail);
            1
        }
    }
}
