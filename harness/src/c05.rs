//! C05 — BMCA state decision equals IEEE 1588 for every data set combination.

use crate::engine::*;
use crate::host::*;
use crate::refbmca::*;
use crate::refcodec::*;
use serde_json::json;

const OWN: [u8; 8] = [0, 0, 0, 0, 0, 0, 0, 0x10];
const P1S: [u8; 5] = [128, 127, 129, 0, 255];
const CLASSES: [u8; 7] = [248, 6, 127, 128, 255, 1, 126];
const ACCS: [u8; 5] = [0x21, 0x22, 0xfe, 0x17, 0x80];
const VARS: [u16; 4] = [0x4000, 0x5000, 0x8000, 0xffff];
const P2S: [u8; 4] = [128, 127, 0, 255];
const STEPS: [u16; 5] = [0, 1, 2, 3, 254];

#[derive(Clone, Debug)]
struct MasterSpec {
    sender: PortId,
    ann: RAnnounce,
    flags1: u8,
}

#[derive(Clone, Debug, PartialEq)]
enum Prelude {
    None,
    ReceiptTimeout,
    Master(usize), // index into scenario.prelude_masters
    Faulty,
}

#[derive(Clone, Debug)]
struct Scenario {
    p1: u8,
    class: u8,
    acc: u8,
    var: u16,
    p2: u8,
    slave_only: bool,
    master_only: Vec<bool>,
    p2p: Vec<bool>,
    preludes: Vec<Prelude>,
    prelude_masters: Vec<MasterSpec>,
    /// per port: new masters of the test round
    round: Vec<Vec<MasterSpec>>,
    /// per port: re-announce the prelude master with this content (one fresh Announce)
    reannounce: Vec<Option<MasterSpec>>,
    /// per port: Announce from the own instance with this source port number
    own_ann: Vec<Option<u16>>,
    delivery_keys: Vec<u64>,
    order: Vec<usize>,
}

/// grandmaster attributes are a function of the grandmaster identity within one scenario
/// (a real grandmaster has one set of attributes; inconsistent copies make Figure 34/35 non-transitive)
#[derive(Clone, Debug)]
struct GmTable(Vec<(u8, (u8, u8, u8, u16, u8))>);

fn gen_gm_table(t: &mut Tape, own: (u8, u8, u8, u16, u8)) -> GmTable {
    let mut v = vec![];
    for id in [0x05u8, 0x20, 0x06] {
        v.push((id, (*t.pick(&P1S), *t.pick(&CLASSES), *t.pick(&ACCS), *t.pick(&VARS), *t.pick(&P2S))));
    }
    v.push((0x10, own));
    GmTable(v)
}

fn gen_master(t: &mut Tape, k: u8, gms: &GmTable) -> MasterSpec {
    let (gm_b, attrs) = gms.0[t.weighted(&[3, 3, 2, 1])];
    let mut gm = [0u8; 8];
    gm[7] = gm_b;
    let sender_b = match t.weighted(&[2, 2, 2]) {
        0 => gm_b,
        1 => 0x03 + k,
        _ => 0x30 + k,
    };
    let sender_b = if sender_b == 0x10 { 0x31 + k } else { sender_b };
    let mut sc = [0u8; 8];
    sc[7] = sender_b;
    let mut steps = *t.pick(&STEPS);
    if gm_b == 0x10 && steps == 0 {
        steps = 1; // our own identity as grandmaster can only come back over at least one hop
    }
    let ann = RAnnounce {
        origin: RTs::default(),
        utc_offset: *t.pick(&[37i16, 0, -5, i16::MAX]),
        reserved: 0,
        gm_priority1: attrs.0,
        gm_class: attrs.1,
        gm_accuracy: attrs.2,
        gm_variance: attrs.3,
        gm_priority2: attrs.4,
        gm_identity: gm,
        steps_removed: steps,
        time_source: *t.pick(&[0x20u8, 0xa0, 0x10, 0x77]),
    };
    MasterSpec { sender: PortId { clock: sc, port: 1 + t.below(2) as u16 }, ann, flags1: t.below(128) as u8 }
}

fn gen_scenario(t: &mut Tape) -> Scenario {
    let nports = 1 + t.weighted(&[2, 3, 2]);
    let slave_only = t.chance(1, 6);
    let mut sc = Scenario {
        p1: *t.pick(&P1S),
        class: *t.pick(&CLASSES),
        acc: *t.pick(&ACCS),
        var: *t.pick(&VARS),
        p2: *t.pick(&P2S),
        slave_only,
        master_only: vec![],
        p2p: vec![],
        preludes: vec![],
        prelude_masters: vec![],
        round: vec![],
        reannounce: vec![],
        own_ann: vec![],
        delivery_keys: vec![],
        order: (0..nports).collect(),
    };
    let gms = gen_gm_table(t, (sc.p1, sc.class, sc.acc, sc.var, sc.p2));
    let mut used: Vec<PortId> = vec![];
    for p in 0..nports {
        sc.master_only.push(!slave_only && t.chance(1, 5));
        let pre = match t.weighted(&[3, 2, 3, 1]) {
            0 => Prelude::None,
            1 => Prelude::ReceiptTimeout,
            2 => {
                let mut m = gen_master(t, p as u8, &gms);
                while used.contains(&m.sender) {
                    m.sender.port += 2;
                }
                used.push(m.sender);
                sc.prelude_masters.push(m);
                Prelude::Master(sc.prelude_masters.len() - 1)
            }
            _ => Prelude::Faulty,
        };
        sc.p2p.push(pre == Prelude::Faulty || t.chance(1, 6));
        sc.preludes.push(pre);
    }
    for p in 0..nports {
        let n = t.weighted(&[2, 4, 3, 2]);
        let mut v: Vec<MasterSpec> = vec![];
        for k in 0..n {
            let mut m = gen_master(t, (3 * p + k) as u8, &gms);
            // distinct sender identities per port (also distinct from the prelude master)
            while v.iter().any(|x: &MasterSpec| x.sender == m.sender) || sc.prelude_masters.iter().any(|x| x.sender == m.sender) {
                m.sender.port += 2;
            }
            v.push(m);
        }
        sc.round.push(v);
        let re = if let Prelude::Master(i) = sc.preludes[p] {
            if t.chance(1, 2) {
                let mut m = gen_master(t, p as u8, &gms);
                m.sender = sc.prelude_masters[i].sender;
                if t.bool() {
                    m.ann = sc.prelude_masters[i].ann;
                }
                Some(m)
            } else {
                None
            }
        } else {
            None
        };
        sc.reannounce.push(re);
        sc.own_ann.push(if nports >= 2 && t.chance(1, 6) { Some(*t.pick(&[1u16, 2, 3, 0])) } else { None });
    }
    let total: usize = sc.round.iter().map(|v| 2 * v.len()).sum::<usize>() + 2 * nports;
    for _ in 0..total {
        sc.delivery_keys.push(t.below(1 << 20));
    }
    for i in (1..nports).rev() {
        let j = t.below(i as u64 + 1) as usize;
        sc.order.swap(i, j);
    }
    sc
}

fn build_node(sc: &Scenario) -> Node {
    let mut cfg = NodeCfg::default();
    cfg.identity = OWN;
    cfg.priority1 = sc.p1;
    cfg.priority2 = sc.p2;
    cfg.class = sc.class;
    cfg.accuracy = sc.acc;
    cfg.variance = sc.var;
    cfg.slave_only = sc.slave_only;
    cfg.filter = FilterKind::Rec;
    cfg.ports.clear();
    for p in 0..sc.master_only.len() {
        let mut pc = PortCfg::default();
        pc.master_only = sc.master_only[p];
        pc.p2p = sc.p2p[p];
        cfg.ports.push(pc);
    }
    Node::new(cfg)
}

fn send_ann(node: &mut Node, p: usize, m: &MasterSpec, seq: u16) {
    let mut msg = announce_from(m.sender, seq, m.ann, 0, 0);
    msg.header.flags[1] = m.flags1;
    node.recv_general(p, &msg.encode());
}

struct Outcome {
    states: Vec<PS>,
    ds: DsSnapshot,
    before: DsSnapshot,
    prior: Vec<PS>,
}

fn execute(sc: &Scenario, reverse: bool, out: &mut CaseOut) -> Option<Outcome> {
    let mut node = build_node(sc);
    let n = node.nports();
    // prelude
    let mut need_bmca = false;
    for p in 0..n {
        match &sc.preludes[p] {
            Prelude::None => {}
            Prelude::ReceiptTimeout => {
                node.timer(p, TimerKind::Receipt);
            }
            Prelude::Master(i) => {
                let m = &sc.prelude_masters[*i];
                send_ann(&mut node, p, m, 100);
                send_ann(&mut node, p, m, 101);
                need_bmca = true;
            }
            Prelude::Faulty => {
                let acts = node.timer(p, TimerKind::DelayReq);
                let seq = acts.iter().find_map(|a| if let OAction::SendEvent { data, .. } = a { decode(data).ok().map(|m| m.header.seq) } else { None });
                let Some(seq) = seq else {
                    out.fail("harness: no Pdelay_Req", "");
                    return None;
                };
                for r in [0x21u8, 0x22] {
                    let src = PortId { clock: [0, 0, 0, 0, 0, 0, 0, r], port: 1 };
                    let mut m = RMsg::new(T_PDELAY_RESP, src, seq, RBody::PdelayResp { receipt: RTs::from_ns(1_700_000_000_000_000_000), requesting: node.port_id(p) });
                    m.header.set_flag(F_TWO_STEP, true);
                    node.recv_event(p, &m.encode(), time_from_bits(1_700_000_000_000_001_000u128 << 32));
                }
                if node.state(p) != PS::Faulty {
                    out.fail("harness: faulty prelude failed", format!("{:?}", node.state(p)));
                    return None;
                }
            }
        }
    }
    if need_bmca {
        node.bmca();
    }
    // test round deliveries: (key, port, master, k-th announce)
    let mut dels: Vec<(u64, usize, MasterSpec, u16)> = vec![];
    let mut ki = 0;
    for p in 0..n {
        for m in &sc.round[p] {
            let k0 = sc.delivery_keys[ki];
            let k1 = sc.delivery_keys[ki + 1];
            ki += 2;
            let (a, b) = if k0 <= k1 { (k0, k1) } else { (k1, k0) };
            dels.push((a, p, m.clone(), 7));
            dels.push((b, p, m.clone(), 8));
        }
        if let Some(m) = &sc.reannounce[p] {
            dels.push((sc.delivery_keys[ki % sc.delivery_keys.len()], p, m.clone(), 102));
        }
        if let Some(q) = sc.own_ann[p] {
            let mut a = simple_announce(OWN, sc.p1, sc.class, 0);
            a.gm_identity = OWN;
            dels.push((sc.delivery_keys[(ki + 1) % sc.delivery_keys.len()], p, MasterSpec { sender: PortId { clock: OWN, port: q }, ann: a, flags1: 0 }, 3));
        }
    }
    dels.sort_by(|a, b| (a.0, a.1, a.3).cmp(&(b.0, b.1, b.3)));
    if reverse {
        // reverse arrival order across masters while keeping each master's own two Announces in sequence order
        dels.reverse();
        let mut fixed: Vec<(u64, usize, MasterSpec, u16)> = vec![];
        for d in dels.into_iter() {
            fixed.push(d);
        }
        // restore per-master order (seq 7 before 8)
        for i in 0..fixed.len() {
            if fixed[i].3 == 8 {
                if let Some(j) = (i + 1..fixed.len()).find(|&j| fixed[j].3 == 7 && fixed[j].1 == fixed[i].1 && fixed[j].2.sender == fixed[i].2.sender) {
                    fixed.swap(i, j);
                    let (a, b) = (fixed[i].3, fixed[j].3);
                    fixed[i].3 = a.min(b);
                    fixed[j].3 = a.max(b);
                }
            }
        }
        dels = fixed;
    }
    for (_, p, m, seq) in &dels {
        send_ann(&mut node, *p, m, *seq);
    }
    let prior = node.states();
    let before = node.ds();
    let order: Vec<usize> = if reverse { sc.order.iter().rev().copied().collect() } else { sc.order.clone() };
    node.bmca_ordered(&order);
    if !node.monitor.is_empty() {
        out.fail("monitor", node.monitor.join("; "));
    }
    Some(Outcome { states: node.states(), ds: node.ds(), before, prior })
}

fn reference(sc: &Scenario, o: &Outcome, out: &mut CaseOut) -> bool {
    // returns true if the case had a genuine tie (then only weak checks apply)
    let n = sc.master_only.len();
    let d0 = DsView::d0(OWN, sc.p1, sc.class, sc.acc, sc.var, sc.p2);
    let mut ports = vec![];
    let mut disable = vec![false; n];
    for p in 0..n {
        let id = PortId { clock: OWN, port: p as u16 + 1 };
        let mut cands: Vec<(Cand, u8)> = vec![];
        for m in &sc.round[p] {
            if m.ann.steps_removed < 255 && m.sender.clock != OWN {
                cands.push((Cand { sender: m.sender, ann: m.ann }, m.flags1));
            }
        }
        if let Prelude::Master(i) = sc.preludes[p] {
            let pm = &sc.prelude_masters[i];
            let latest = sc.reannounce[p].as_ref().unwrap_or(pm);
            if pm.sender.clock != OWN {
                cands.push((Cand { sender: latest.sender, ann: latest.ann }, latest.flags1));
            }
        }
        if let Some(q) = sc.own_ann[p] {
            if (p as u16 + 1) > q {
                disable[p] = true;
            }
        }
        ports.push((PortIn { id, listening: o.prior[p] == PS::Listening, excluded_from_ebest: sc.master_only[p] || o.prior[p] == PS::Faulty, cands: cands.iter().map(|c| c.0).collect() }, cands));
    }
    let pin: Vec<PortIn> = ports.iter().map(|(p, _)| PortIn { id: p.id, listening: p.listening, excluded_from_ebest: p.excluded_from_ebest, cands: p.cands.clone() }).collect();
    let dec = decide(&d0, &pin);
    for c in &dec.codes {
        out.label(format!("code:{:?}", c));
    }
    if dec.tie {
        out.label("genuine-tie-skipped");
        return true;
    }
    // expected port states
    for p in 0..n {
        let want = if o.prior[p] == PS::Faulty {
            PS::Faulty
        } else {
            match dec.codes[p] {
                Code::Stay => PS::Listening,
                Code::S1 => PS::Slave,
                Code::P1 | Code::P2 => PS::Passive,
                Code::M1 | Code::M2 | Code::M3 => {
                    if sc.slave_only {
                        PS::Listening
                    } else if disable[p] {
                        PS::Passive
                    } else {
                        PS::Master
                    }
                }
            }
        };
        if sc.slave_only && matches!(dec.codes[p], Code::M1 | Code::M2 | Code::M3) {
            out.label("deviation:slave-only");
        }
        if disable[p] {
            out.label("deviation:same-segment");
        }
        if o.states[p] != want {
            out.fail(format!("port state differs from IEEE state decision (code {:?}, prior {:?})", dec.codes[p], o.prior[p]), format!("port {}: got {:?} want {:?}; codes {:?}", p + 1, o.states[p], want, dec.codes));
            return false;
        }
    }
    // expected data sets
    let any_m12 = dec.codes.iter().any(|c| matches!(c, Code::M1 | Code::M2));
    let s1 = dec.codes.iter().position(|c| *c == Code::S1);
    let got = &o.ds;
    if any_m12 {
        let ok = got.steps_removed == 0 && got.parent == (PortId { clock: OWN, port: 0 }) && got.gm_identity == OWN && got.gm_class == sc.class && got.gm_accuracy == sc.acc && got.gm_variance == sc.var && got.gm_priority1 == sc.p1 && got.gm_priority2 == sc.p2 && got.path.is_empty();
        if !ok {
            out.fail("data sets after decision code M1/M2 are not the instance's own", format!("{:?}", got));
        }
    } else if let Some(i) = s1 {
        let (bi, bc) = dec.ebest.unwrap();
        debug_assert_eq!(bi, i);
        let flags1 = ports[i].1.iter().find(|(c, _)| *c == bc).map(|x| x.1).unwrap_or(0);
        let a = bc.ann;
        let leap59 = flags1 & 2 != 0;
        let leap61 = flags1 & 1 != 0 && !leap59;
        let utc = if flags1 & 4 != 0 { Some(a.utc_offset) } else { None };
        let ok = got.steps_removed == a.steps_removed + 1
            && got.parent == bc.sender
            && got.gm_identity == a.gm_identity
            && got.gm_class == a.gm_class
            && got.gm_accuracy == a.gm_accuracy
            && got.gm_variance == a.gm_variance
            && got.gm_priority1 == a.gm_priority1
            && got.gm_priority2 == a.gm_priority2
            && got.leap59 == leap59
            && got.leap61 == leap61
            && got.utc_offset == utc
            && got.ptp_timescale == (flags1 & 8 != 0)
            && got.time_traceable == (flags1 & 16 != 0)
            && got.frequency_traceable == (flags1 & 32 != 0)
            && got.time_source == a.time_source;
        if !ok {
            out.fail("data sets after decision code S1 are not those of Ebest (Table 33)", format!("got {:?} ; Ebest from {:?}: {:?} flags {:02x}", got, bc.sender, a, flags1));
        }
        // maximality: the selected parent is not worse than any other qualified candidate on non-excluded ports
        let bv = DsView::from_announce(&bc.ann, bc.sender, pin[bi].id);
        for (pi, p) in pin.iter().enumerate() {
            if p.excluded_from_ebest {
                continue;
            }
            for c in &p.cands {
                let v = DsView::from_announce(&c.ann, c.sender, p.id);
                if compare(&v, &bv).a_wins() {
                    out.fail("selected parent is worse than another qualified candidate", format!("port {} candidate {:?}", pi + 1, c));
                }
            }
        }
    } else if o.ds != o.before {
        out.fail("data sets changed although no port got decision code M1, M2 or S1", format!("before {:?} after {:?} codes {:?}", o.before, o.ds, dec.codes));
    }
    false
}

fn render(sc: &Scenario) -> serde_json::Value {
    json!({"own": {"p1": sc.p1, "class": sc.class, "acc": sc.acc, "var": sc.var, "p2": sc.p2, "slave_only": sc.slave_only},
        "ports": (0..sc.master_only.len()).map(|p| json!({"master_only": sc.master_only[p], "prelude": format!("{:?}", sc.preludes[p]),
            "masters": sc.round[p].iter().map(|m| format!("{:?}", m)).collect::<Vec<_>>(), "reannounce": format!("{:?}", sc.reannounce[p]), "own_ann_from_port": sc.own_ann[p]})).collect::<Vec<_>>(),
        "prelude_masters": sc.prelude_masters.iter().map(|m| format!("{:?}", m)).collect::<Vec<_>>(),
        "bmca_order": sc.order})
}

pub fn case(t: &mut Tape) -> CaseOut {
    let mut out = CaseOut::new();
    let sc = gen_scenario(t);
    out.render = render(&sc);
    let Some(o1) = execute(&sc, false, &mut out) else { return out };
    let tie = reference(&sc, &o1, &mut out);
    // order independence
    if out.violation.is_none() {
        if let Some(o2) = execute(&sc, true, &mut out) {
            if !tie && (o1.states != o2.states || o1.ds != o2.ds) {
                out.fail("outcome depends on the order of ports / Announces", format!("forward {:?} {:?} ; reversed {:?} {:?}", o1.states, o1.ds, o2.states, o2.ds));
            }
        }
    }
    let ncand: usize = sc.round.iter().map(|v| v.len()).sum::<usize>() + sc.prelude_masters.len();
    for p in &o1.prior {
        out.label(format!("prior:{:?}", p));
    }
    if ncand >= 2 || o1.prior.iter().any(|s| *s != PS::Listening) {
        out.nontrivial = Some(hash_of(&format!("{:?}", sc)));
    }
    let lm = lock_mon_take();
    if !lm.nested.is_empty() {
        out.fail("nested lock acquisition", lm.nested.join("; "));
    }
    out
}

/// exhaustive lattice: own (p1 x class) x one foreign candidate (p1 x class x steps x gm identity x sender relation) on a single port,
/// prior state Listening and Master
fn lattice(ctx: &Ctx, rep: &mut Report) {
    let t0 = std::time::Instant::now();
    let mut total = 0u64;
    let mut first: Option<(String, String, serde_json::Value)> = None;
    let accs: &[u8] = if ctx.quick() { &[0x21] } else { &ACCS };
    let vars: &[u16] = if ctx.quick() { &[0x4000] } else { &VARS };
    for &p1 in &P1S {
        for &class in &CLASSES {
            for &fp1 in &P1S {
                for &fclass in &CLASSES {
                    for &facc in accs {
                        for &fvar in vars {
                            for &steps in &STEPS {
                                for gm_b in [0x05u8, 0x20, 0x10] {
                                    for sender_b in [0x03u8, 0x30] {
                                        for prior in [Prelude::None, Prelude::ReceiptTimeout] {
                                            let mut gm = [0u8; 8];
                                            gm[7] = gm_b;
                                            let mut s = [0u8; 8];
                                            s[7] = sender_b;
                                            let ann = RAnnounce { origin: RTs::default(), utc_offset: 37, reserved: 0, gm_priority1: fp1, gm_class: fclass, gm_accuracy: facc, gm_variance: fvar, gm_priority2: 128, gm_identity: gm, steps_removed: steps, time_source: 0x20 };
                                            let sc = Scenario {
                                                p1,
                                                class,
                                                acc: 0x21,
                                                var: 0x4000,
                                                p2: 128,
                                                slave_only: false,
                                                master_only: vec![false],
                                                p2p: vec![false],
                                                preludes: vec![prior.clone()],
                                                prelude_masters: vec![],
                                                round: vec![vec![MasterSpec { sender: PortId { clock: s, port: 1 }, ann, flags1: 0x0c }]],
                                                reannounce: vec![None],
                                                own_ann: vec![None],
                                                delivery_keys: vec![1, 2, 3, 4],
                                                order: vec![0],
                                            };
                                            let mut out = CaseOut::new();
                                            if let Some(o) = execute(&sc, false, &mut out) {
                                                reference(&sc, &o, &mut out);
                                            }
                                            total += 1;
                                            crate::engine::PROGRESS.fetch_add(1, std::sync::atomic::Ordering::Relaxed);
                                            rep.nontrivial.insert(hash_of(&("lat", p1, class, fp1, fclass, facc, fvar, steps, gm_b, sender_b, prior == Prelude::None)));
                                            for l in out.labels {
                                                *rep.labels.entry(format!("lattice:{}", l)).or_insert(0) += 1;
                                            }
                                            if let (Some(v), None) = (out.violation, &first) {
                                                first = Some((v.sig, v.detail, render(&sc)));
                                            }
                                        }
                                    }
                                }
                            }
                        }
                    }
                }
            }
        }
    }
    lock_mon_take();
    rep.evaluations += total;
    rep.parts.push(json!({"part": "single-candidate-lattice", "cases": total, "exhaustive": true, "wall_s": t0.elapsed().as_secs_f64(),
        "what": "own priority1 x clockClass, one foreign candidate: priority1 x clockClass (x accuracy x variance in thorough) x stepsRemoved x grandmaster identity (<own, >own, =own) x sender identity (<own, >own), prior state Listening / Master"}));
    if let Some((sig, detail, r)) = first {
        rep.violations.push((Violation { sig: format!("{}|lattice", sig), detail }, vec![], r));
        rep.viol_parts.push("single-candidate-lattice".into());
    }
}


/// thorough only: exhaustive lattice over own (priority1 x clockClass) x two candidates on two ports
/// (each: priority1 x clockClass x stepsRemoved x grandmaster identity x sender relation); grandmaster
/// attributes are kept consistent per identity by skipping pairs that disagree.
fn lattice2(ctx: &Ctx, rep: &mut Report) {
    let t0 = std::time::Instant::now();
    let mut cands: Vec<MasterSpec> = vec![];
    for &fp1 in &P1S {
        for &fclass in &CLASSES {
            for &steps in &STEPS {
                for gm_b in [0x05u8, 0x20, 0x10] {
                    for sender_b in [0x03u8, 0x30] {
                        let mut gm = [0u8; 8];
                        gm[7] = gm_b;
                        let mut s = [0u8; 8];
                        s[7] = sender_b;
                        if gm_b == 0x10 && steps == 0 {
                            continue;
                        }
                        let ann = RAnnounce { origin: RTs::default(), utc_offset: 37, reserved: 0, gm_priority1: fp1, gm_class: fclass, gm_accuracy: 0x21, gm_variance: 0x4000, gm_priority2: 128, gm_identity: gm, steps_removed: steps, time_source: 0x20 };
                        cands.push(MasterSpec { sender: PortId { clock: s, port: 1 }, ann, flags1: 0x0c });
                    }
                }
            }
        }
    }
    let owns: Vec<(u8, u8)> = P1S.iter().flat_map(|p| CLASSES.iter().map(move |c| (*p, *c))).collect();
    let results: std::sync::Mutex<Vec<(u64, Option<(String, String, serde_json::Value)>)>> = std::sync::Mutex::new(vec![]);
    let next = std::sync::atomic::AtomicUsize::new(0);
    std::thread::scope(|sc| {
        for _ in 0..ctx.threads.max(1) {
            sc.spawn(|| loop {
                let i = next.fetch_add(1, std::sync::atomic::Ordering::Relaxed);
                if i >= owns.len() {
                    break;
                }
                let (p1, class) = owns[i];
                let mut total = 0u64;
                let mut first = None;
                for a in &cands {
                    for b in &cands {
                        // one set of attributes per grandmaster identity
                        if a.ann.gm_identity == b.ann.gm_identity && (a.ann.gm_priority1, a.ann.gm_class) != (b.ann.gm_priority1, b.ann.gm_class) {
                            continue;
                        }
                        if (a.ann.gm_identity == OWN && (a.ann.gm_priority1, a.ann.gm_class) != (p1, class)) || (b.ann.gm_identity == OWN && (b.ann.gm_priority1, b.ann.gm_class) != (p1, class)) {
                            continue;
                        }
                        let sc2 = Scenario {
                            p1,
                            class,
                            acc: 0x21,
                            var: 0x4000,
                            p2: 128,
                            slave_only: false,
                            master_only: vec![false, false],
                            p2p: vec![false, false],
                            preludes: vec![Prelude::None, Prelude::ReceiptTimeout],
                            prelude_masters: vec![],
                            round: vec![vec![a.clone()], vec![b.clone()]],
                            reannounce: vec![None, None],
                            own_ann: vec![None, None],
                            delivery_keys: vec![1, 2, 3, 4, 5, 6, 7, 8],
                            order: vec![1, 0],
                        };
                        let mut out = CaseOut::new();
                        if let Some(o) = execute(&sc2, false, &mut out) {
                            reference(&sc2, &o, &mut out);
                        }
                        total += 1;
                        crate::engine::PROGRESS.fetch_add(1, std::sync::atomic::Ordering::Relaxed);
                        if let (Some(v), None) = (out.violation, &first) {
                            first = Some((v.sig, v.detail, render(&sc2)));
                        }
                    }
                }
                lock_mon_take();
                results.lock().unwrap().push((total, first));
            });
        }
    });
    let mut total = 0;
    let mut first = None;
    for (n, f) in results.into_inner().unwrap() {
        total += n;
        if first.is_none() {
            first = f;
        }
    }
    rep.evaluations += total;
    rep.parts.push(json!({"part": "two-candidate-lattice", "cases": total, "exhaustive": true, "wall_s": t0.elapsed().as_secs_f64(),
        "what": "own priority1 x clockClass x (candidate on port 1) x (candidate on port 2, prior state Master), candidates over priority1 x clockClass x stepsRemoved x grandmaster identity x sender relation"}));
    if let Some((sig, detail, r)) = first {
        rep.violations.push((Violation { sig: format!("{}|lattice2", sig), detail }, vec![], r));
        rep.viol_parts.push("two-candidate-lattice".into());
    }
}

pub fn run(ctx: &Ctx) -> i32 {
    let mut rep = Report::new();
    lattice(ctx, &mut rep);
    if !ctx.quick() {
        lattice2(ctx, &mut rep);
    }
    run_cases(ctx, &mut rep, "sampled", ctx.cases(150_000, 5_000_000), case);
    // the real daemon between generated masters: its port states and parentDS against the reference state decision
    let workers = (ctx.threads as u64 / 2).clamp(2, 8);
    let sum = crate::daemon::run_part(ctx, &mut rep, ctx.cases(5 * workers, 40 * workers), workers);
    if let Some(why) = &sum.skipped {
        println!("note: end-to-end daemon part skipped ({}); the other parts are unaffected", why);
    }
    // every decision code must have been exercised
    let mut missing = vec![];
    for c in ["M1", "M2", "M3", "P1", "P2", "S1", "Stay"] {
        if rep.labels.get(&format!("sampled:code:{}", c)).copied().unwrap_or(0) == 0 {
            missing.push(c);
        }
    }
    let code = finish(
        Finish {
            ctx,
            level: "exploration",
            rule: "own priority1/clockClass/accuracy/variance/priority2 from small domains (classes 6,127,128,248,255), slave-only, 1-3 ports each master-only or not; prior port states reached by a generated prelude (nothing, receipt timeout, earlier BMCA round with one master, P2P double responder => Faulty); per port 0-3 new foreign masters (grandmaster attributes from the same domains, the same grandmaster via different senders, stepsRemoved 0,1,2,3,254, sender identity below/above own) each qualified by two consecutive Announces delivered in a generated global order, re-announcement of the prelude master with changed contents, Announces from the own instance (same segment), BMCA with a generated port permutation. Oracle: independent Figure 33/34/35 implementation + Table 30/33 updates with statime's documented deviations; maximality; order independence (second run with reversed orders). Plus an exhaustive single-candidate lattice. Non-trivial = >= 2 candidates or a prior state other than Listening; distinct by case tuple. Part daemon: the real statime daemon (configured priority1 128, 127, 129 and priority2 128, 127, 129 by worker; D0 is taken from the configuration, the reported defaultDS must agree with it) with two ports between up to two generated masters per segment plus, in half of the cases, the usual parent (priority1 100, class 6); 1-3 grandmasters with attributes from small domains around the daemon's and the parent's values (priority1 50..200, class 6/7/248/255, accuracy, variance, priority2), each sender being a grandmaster itself or 1-3 steps from one, so that one grandmaster may be heard on both segments at different distances; after 2 s of steady announcing the observed port states, parentDS and stepsRemoved must equal what the reference data set comparison and state decision give for the daemon's observed defaultDS and those candidates (a mismatch must persist through 1.5 s more of announcing; ties are not judged); workers 6-7: empty acceptable master list on the first port; a third of the cases start after 3-5 s of total silence; a port reported Slave to the end of the case must not send Announce/Sync from 150 ms after the first such report. Non-trivial there = >= 1 generated sender.",
            assumptions: vec![
                "genuine ties (Error-1/-2) are skipped and counted".into(),
                "timePropertiesDS after M1/M2 is not asserted (IEEE leaves the source of the local values to the implementation)".into(),
                "every candidate is freshly announced in the test round or is the sole master of the prelude round, so that IEEE's and statime's record keeping agree on qualification (record mechanics are C06's subject)".into(),
            ],
            min_nontrivial: 100,
        },
        rep,
    );
    if code == 0 && !missing.is_empty() {
        println!("VACUOUS: decision codes never produced: {:?}", missing);
        return 2;
    }
    code
}

pub fn replay(ctx: &Ctx, path: &str) -> i32 {
    let s = std::fs::read_to_string(path).expect("read replay");
    let v: serde_json::Value = serde_json::from_str(&s).expect("parse");
    if v["part"].as_str() == Some("daemon") {
        return crate::daemon::replay_part(ctx, path, 2);
    }
    if v["part"].as_str() == Some("single-candidate-lattice") {
        let mut rep = Report::new();
        lattice(ctx, &mut rep);
        return if rep.violations.is_empty() { println!("replay passed"); 0 } else { println!("VIOLATION property=C05 replay={}\n  {}", path, rep.violations[0].0.detail); 1 };
    }
    replay_file(ctx, path, case)
}
