#!/bin/bash
# prints the prompt for a seeding agent: $1 = property id
ID=$1
cat <<P
You are helping test a verification tool by producing realistic *bugs* ("seeded changes") in a Rust code base. Work ONLY inside the scratch git worktree /tmp/seed2-$ID (a checkout of the open-source project pendulum-project/statime, a Rust implementation of IEEE 1588 PTP: crates statime/ and statime-linux/). Never touch /repo or /verif and do not look into them. The machine is offline: use \`cargo ... --offline\`, and set CARGO_TARGET_DIR=/tmp/seed2-$ID/target for every cargo command. Other jobs share this machine: use \`-j 4\` for cargo builds.

Here is a semantic property that the code base is supposed to satisfy:

---
$(cat /tmp/prop-$ID.txt)
---

Your task: produce THREE different, independent source changes (call them m3, m4 and m5) to the statime code (library and/or daemon sources, not tests) such that each one:
 1. still compiles (\`cargo build --workspace --offline\`),
 2. still passes the complete existing test suite, unedited (\`cargo test --workspace --no-fail-fast --offline\`; 76 tests pass on the unchanged tree),
 3. BREAKS the property above, in a way that a realistic programming slip or a plausible "refactoring"/"optimisation" could introduce, and
 4. needs something specific to manifest — a particular interleaving or ordering of calls, a multi-step sequence of operations, an unusual/boundary input value, a wrap-around, or two cooperating code sites that each look fine alone — NOT something every ordinary use would expose at once. Prefer subtle over blatant; the three should touch different mechanisms and, where possible, different files; at least one should consist of two cooperating edits that each look harmless alone, and at least one should only manifest in a rarely visited state, at a numeric boundary or after a long history (hundreds of steps, wrap-arounds).

For each change, also write a demonstration: a small Rust test (preferably a new file under statime/tests/ or statime-linux/tests/ using only the public API — the statime crate has a cargo feature "fuzz" exposing statime::fuzz::FuzzMessage for raw message encode/decode; or, if the public API cannot reach it, a #[cfg(test)] unit test appended inside the crate) that FAILS with the change applied and PASSES on the unchanged code. Verify both directions yourself by actually running it.

Deliverables, written to /tmp/seed2-$ID-out/ :
  m3.diff, m4.diff, m5.diff      – \`git diff\` of ONLY the source change (no demo test), each relative to the clean worktree HEAD, applicable with \`git apply\` on a clean checkout
  m3_demo.diff, m4_demo.diff, m5_demo.diff – \`git diff\`/patch adding ONLY the demonstration test (new files must be included, e.g. via \`git add -N\` before \`git diff\`), applicable on a clean checkout independently of m1.diff
  m3.md, m4.md, m5.md          – short notes: what was changed, why it breaks the property, what exactly is needed for it to manifest, the exact command to run the demo, and the observed output with and without the change
When you are done, leave the worktree clean (\`git checkout -- . && git clean -fd -e target\`) and reply with a brief summary (what each mutation is, and confirmation that you ran: build OK, 76 existing tests pass with change, demo fails with change, demo passes without). Do not write anything outside /tmp/seed2-$ID and /tmp/seed2-$ID-out.
P
