//! C10 — master-side messages carry exact timestamps and consistent identifiers.

use crate::engine::*;
use crate::host::*;
use crate::refcodec::*;
use serde_json::json;

const NS: u128 = 1_000_000_000;

pub fn gen_time_bits_full(t: &mut Tape) -> u128 {
    let secs: u128 = match t.weighted(&[3, 2, 2, 1, 1, 1]) {
        0 => 1_600_000_000 + t.below(400_000_000) as u128,
        1 => t.below(100) as u128,
        2 => t.below(1 << 48) as u128,
        3 => (1u128 << 32) - 2 + t.below(4) as u128,
        4 => 18_446_744_072 + t.below(4) as u128,
        _ => (1u128 << 48) - 1 - t.below(3) as u128,
    };
    let nanos: u128 = match t.weighted(&[3, 1, 1]) {
        0 => t.below(1_000_000_000) as u128,
        1 => 0,
        _ => 999_999_999,
    };
    let frac: u128 = match t.weighted(&[2, 3, 1, 1, 1]) {
        0 => 0,
        1 => t.below(1 << 32) as u128,
        2 => (1 << 16) - 1 + t.below(3) as u128,
        3 => (1u128 << 32) - 1,
        _ => 1 << t.below(32),
    };
    ((secs * NS + nanos) << 32) | frac
}

struct Exp {
    sync_seq: Option<u16>,
    announce_seq: Option<u16>,
    pdelay_req_seq: Option<u16>,
}

fn check_common(node: &Node, m: &RMsg, data: &[u8], out: &mut CaseOut) {
    let cfg = &node.cfg;
    if m.header.source != node.port_id(0) {
        out.fail("emitted frame does not bear the port's identity", format!("{:?} vs {:?}", m.header.source, node.port_id(0)));
    }
    if m.header.domain != cfg.domain || m.header.sdo_id() != cfg.sdo {
        out.fail("emitted frame has wrong domain/sdoId", format!("{} {:x} vs {} {:x} ({})", m.header.domain, m.header.sdo_id(), cfg.domain, cfg.sdo, type_name(m.header.msg_type)));
    }
    // versionPTP must be 2; the minor version is not part of the statement (Delay_Resp echoes the
    // requester's minorVersionPTP, see DESIGN.md section 8) and is only checked for frames the port originates
    if m.header.version != 2 || (m.header.msg_type != T_DELAY_RESP && m.header.minor_version != cfg.ports[0].minor_version) {
        out.fail("emitted frame has wrong PTP version", format!("{}.{} in {}", m.header.version, m.header.minor_version, type_name(m.header.msg_type)));
    }
    if data.len() > 1024 {
        out.fail("emitted frame exceeds MAX_DATA_LEN", format!("{}", data.len()));
    }
}

fn next_seq(slot: &mut Option<u16>, got: u16, what: &str, out: &mut CaseOut) {
    if let Some(prev) = *slot {
        if got != prev.wrapping_add(1) {
            out.fail(format!("{} sequenceId does not increase by one", what), format!("prev {} got {}", prev, got));
        }
    }
    *slot = Some(got);
}

pub fn case(t: &mut Tape) -> CaseOut {
    let mut out = CaseOut::new();
    let mut cfg = NodeCfg::default();
    cfg.domain = if t.chance(1, 2) { t.below(256) as u8 } else { 0 };
    cfg.sdo = if t.chance(1, 2) { t.below(0x1000) as u16 } else { 0 };
    cfg.ports[0].p2p = t.chance(1, 3);
    cfg.ports[0].minor_version = t.below(2) as u8;
    cfg.ports[0].delay_log = t.range(-4, 4) as i8;
    cfg.ports[0].sync_log = t.range(-4, 2) as i8;
    cfg.rng_seed = t.below(1000);
    let p2p = cfg.ports[0].p2p;
    let delay_log = cfg.ports[0].delay_log;
    let mut node = Node::new(cfg);
    node.timer(0, TimerKind::Receipt);
    if node.state(0) != PS::Master {
        out.fail("harness: port not master after receipt timeout", "");
        return out;
    }
    let mut exp = Exp { sync_seq: None, announce_seq: None, pdelay_req_seq: None };
    // outstanding contexts: (ctx handle, kind, seq, aux)
    let mut sync_ctx: Vec<(usize, u16)> = vec![];
    let mut presp_ctx: Vec<(usize, u16, PortId)> = vec![];
    let mut other_ctx: Vec<usize> = vec![];
    let nops = t.urange(1, 40);
    let mut rendered = vec![];
    let mut nontrivial = false;
    for _ in 0..nops {
        let op = t.weighted(&[4, 4, 4, 3, 3, 2, 2]);
        let acts: Vec<OAction>;
        match op {
            0 => {
                // sync timer
                acts = node.timer(0, TimerKind::Sync);
                rendered.push("sync-timer".to_string());
                let mut n_sync = 0;
                for a in &acts {
                    if let OAction::SendEvent { ctx, data, .. } = a {
                        match decode(data) {
                            Ok(m) if m.header.msg_type == T_SYNC => {
                                n_sync += 1;
                                check_common(&node, &m, data, &mut out);
                                if !m.header.flag(F_TWO_STEP) {
                                    out.fail("Sync without twoStepFlag although a Follow_Up is promised", "");
                                }
                                next_seq(&mut exp.sync_seq, m.header.seq, "Sync", &mut out);
                                sync_ctx.push((*ctx, m.header.seq));
                            }
                            _ => out.fail("sync timer emitted something that is not a Sync", hexs(data)),
                        }
                    }
                }
                if n_sync != 1 {
                    out.fail("master sync timer did not emit exactly one Sync", format!("{}", n_sync));
                }
                if !acts.iter().any(|a| matches!(a, OAction::Timer(TimerKind::Sync, _))) {
                    out.fail("sync timer not re-armed by master", "");
                }
            }
            1 => {
                // return a Sync context with transmit time T
                if sync_ctx.is_empty() {
                    continue;
                }
                let i = t.below(sync_ctx.len() as u64) as usize;
                let (ctx, seq) = sync_ctx.remove(i);
                let tb = gen_time_bits_full(t);
                rendered.push(format!("sync-tx-timestamp seq {} T=0x{:x}", seq, tb));
                let (_, acts) = node.tx_timestamp(ctx, time_from_bits(tb)).unwrap();
                let fups: Vec<RMsg> = acts.iter().filter_map(|a| if let OAction::SendGeneral { data, .. } = a { decode(data).ok() } else { None }).collect();
                if fups.len() != 1 || acts.len() != 1 {
                    out.fail("transmit timestamp of a Sync not answered by exactly one Follow_Up", format!("{} frames, {} actions", fups.len(), acts.len()));
                } else {
                    let m = &fups[0];
                    if let OAction::SendGeneral { data, .. } = &acts[0] {
                        check_common(&node, m, data, &mut out);
                    }
                    match m.body {
                        RBody::FollowUp { precise_origin } => {
                            if m.header.seq != seq {
                                out.fail("Follow_Up sequenceId differs from its Sync", format!("{} vs {}", m.header.seq, seq));
                            }
                            let got: i128 = ((precise_origin.total_ns() as i128) << 16) + m.header.correction as i128;
                            if got != (tb >> 16) as i128 || precise_origin.nanos >= 1_000_000_000 {
                                out.fail("Follow_Up origin+correction != transmit timestamp to 2^-16 ns", format!("T=0x{:x} wire {:?} corr {}", tb, precise_origin, m.header.correction));
                            }
                            if tb & 0xffff_ffff != 0 {
                                nontrivial = true;
                            }
                        }
                        _ => out.fail("frame after Sync transmit timestamp is not a Follow_Up", ""),
                    }
                }
            }
            2 => {
                // Delay_Req from some requester
                let src = gen_port_id(t);
                let seq = t.below(0x10000) as u16;
                let mut m = RMsg::new(T_DELAY_REQ, src, seq, RBody::DelayReq { origin: gen_ts(t) });
                m.header.domain = node.cfg.domain;
                m.header.major_sdo = (node.cfg.sdo >> 8) as u8;
                m.header.minor_sdo = node.cfg.sdo as u8;
                m.header.correction = match t.weighted(&[2, 3, 2]) {
                    0 => 0,
                    1 => t.log_i128(48) as i64,
                    _ => t.log_i128(62) as i64,
                };
                m.header.flags = [t.below(256) as u8 & DEFINED_FLAGS[0], t.below(256) as u8 & DEFINED_FLAGS[1]];
                m.header.log_interval = 0x7f;
                m.header.minor_version = t.below(2) as u8;
                let rx = gen_time_bits_full(t);
                rendered.push(format!("delay-req seq {} corr {} rx=0x{:x}", seq, m.header.correction, rx));
                acts = node.recv_event(0, &m.encode(), time_from_bits(rx));
                let resp: Vec<(&Vec<u8>, RMsg)> = acts.iter().filter_map(|a| if let OAction::SendGeneral { data, .. } = a { decode(data).ok().map(|m| (data, m)) } else { None }).collect();
                if resp.len() != 1 || acts.len() != 1 {
                    out.fail("Delay_Req not answered by exactly one Delay_Resp", format!("{} frames {} actions", resp.len(), acts.len()));
                } else {
                    let (data, r) = &resp[0];
                    check_common(&node, r, data, &mut out);
                    match r.body {
                        RBody::DelayResp { receive, requesting } => {
                            if requesting != src || r.header.seq != seq {
                                out.fail("Delay_Resp does not echo requester identity / sequenceId", format!("{:?}/{} vs {:?}/{}", requesting, r.header.seq, src, seq));
                            }
                            let got: i128 = ((receive.total_ns() as i128) << 16) + r.header.correction as i128;
                            let want: i128 = (rx >> 16) as i128 + m.header.correction as i128;
                            if got != want || receive.nanos >= 1_000_000_000 {
                                out.fail("Delay_Resp receiveTimestamp+correction != receive time + request correction", format!("rx=0x{:x} c_req={} wire {:?} corr {}", rx, m.header.correction, receive, r.header.correction));
                            }
                            if r.header.log_interval != delay_log {
                                out.fail("Delay_Resp logMessageInterval != configured min delay request interval", format!("{} vs {}", r.header.log_interval, delay_log));
                            }
                            if rx & 0xffff_ffff != 0 {
                                nontrivial = true;
                            }
                        }
                        _ => out.fail("answer to Delay_Req is not a Delay_Resp", ""),
                    }
                }
            }
            3 => {
                // Pdelay_Req
                let src = gen_port_id(t);
                let seq = t.below(0x10000) as u16;
                let mut m = RMsg::new(T_PDELAY_REQ, src, seq, RBody::PdelayReq { origin: gen_ts(t), reserved: [0; 10] });
                m.header.domain = node.cfg.domain;
                m.header.major_sdo = (node.cfg.sdo >> 8) as u8;
                m.header.minor_sdo = node.cfg.sdo as u8;
                m.header.correction = if t.bool() { t.log_i128(48) as i64 } else { 0 };
                let rx = gen_time_bits_full(t);
                rendered.push(format!("pdelay-req seq {} corr {} rx=0x{:x}", seq, m.header.correction, rx));
                acts = node.recv_event(0, &m.encode(), time_from_bits(rx));
                let resp: Vec<(usize, &Vec<u8>, RMsg)> = acts.iter().filter_map(|a| if let OAction::SendEvent { ctx, data, .. } = a { decode(data).ok().map(|m| (*ctx, data, m)) } else { None }).collect();
                if resp.len() != 1 || acts.len() != 1 {
                    out.fail("Pdelay_Req not answered by exactly one Pdelay_Resp", format!("{} frames {} actions", resp.len(), acts.len()));
                } else {
                    let (ctx, data, r) = &resp[0];
                    check_common(&node, r, data, &mut out);
                    match r.body {
                        RBody::PdelayResp { receipt, requesting } => {
                            if requesting != src || r.header.seq != seq {
                                out.fail("Pdelay_Resp does not echo requester identity / sequenceId", format!("{:?}/{} vs {:?}/{}", requesting, r.header.seq, src, seq));
                            }
                            if receipt.total_ns() != rx >> 32 || receipt.nanos >= 1_000_000_000 {
                                out.fail("Pdelay_Resp requestReceiptTimestamp != receive time to the nanosecond", format!("rx=0x{:x} wire {:?}", rx, receipt));
                            }
                            presp_ctx.push((*ctx, seq, src));
                            // correction bookkeeping: must appear exactly once in the pair
                            PD_CORR.with(|c| c.borrow_mut().insert(*ctx, (m.header.correction, r.header.correction)));
                        }
                        _ => out.fail("answer to Pdelay_Req is not a Pdelay_Resp", ""),
                    }
                }
            }
            4 => {
                // return a Pdelay_Resp context
                if presp_ctx.is_empty() {
                    continue;
                }
                let i = t.below(presp_ctx.len() as u64) as usize;
                let (ctx, seq, src) = presp_ctx.remove(i);
                let tb = gen_time_bits_full(t);
                rendered.push(format!("pdelay-resp-tx-timestamp seq {} T=0x{:x}", seq, tb));
                let (_, acts) = node.tx_timestamp(ctx, time_from_bits(tb)).unwrap();
                let fups: Vec<(&Vec<u8>, RMsg)> = acts.iter().filter_map(|a| if let OAction::SendGeneral { data, .. } = a { decode(data).ok().map(|m| (data, m)) } else { None }).collect();
                if fups.len() != 1 || acts.len() != 1 {
                    out.fail("Pdelay_Resp transmit timestamp not answered by exactly one Pdelay_Resp_Follow_Up", format!("{} frames", fups.len()));
                } else {
                    let (data, r) = &fups[0];
                    check_common(&node, r, data, &mut out);
                    match r.body {
                        RBody::PdelayRespFup { response_origin, requesting } => {
                            if requesting != src || r.header.seq != seq {
                                out.fail("Pdelay_Resp_Follow_Up does not echo requester identity / sequenceId", format!("{:?}/{} vs {:?}/{}", requesting, r.header.seq, src, seq));
                            }
                            if response_origin.total_ns() != tb >> 32 || response_origin.nanos >= 1_000_000_000 {
                                out.fail("Pdelay_Resp_Follow_Up responseOriginTimestamp != transmit time to the nanosecond", format!("T=0x{:x} wire {:?}", tb, response_origin));
                            }
                            let (c_req, c_resp) = PD_CORR.with(|c| c.borrow_mut().remove(&ctx)).unwrap_or((0, 0));
                            // request correction exactly once in the pair; sub-ns residue of the tx time may be added to the follow-up
                            let sub = ((tb >> 16) & 0xffff) as i64;
                            let total = c_resp as i128 + r.header.correction as i128;
                            if total != c_req as i128 && total != c_req as i128 + sub as i128 {
                                out.fail("Pdelay request correction does not appear exactly once in response pair", format!("c_req {} resp {} fup {}", c_req, c_resp, r.header.correction));
                            }
                            nontrivial = true;
                        }
                        _ => out.fail("frame after Pdelay_Resp transmit timestamp is not Pdelay_Resp_Follow_Up", ""),
                    }
                }
            }
            5 => {
                acts = node.timer(0, TimerKind::Announce);
                rendered.push("announce-timer".to_string());
                let anns: Vec<(&Vec<u8>, RMsg)> = acts.iter().filter_map(|a| if let OAction::SendGeneral { data, .. } = a { decode(data).ok().map(|m| (data, m)) } else { None }).collect();
                if anns.len() != 1 || anns[0].1.header.msg_type != T_ANNOUNCE {
                    out.fail("master announce timer did not emit exactly one Announce", format!("{}", anns.len()));
                } else {
                    check_common(&node, &anns[0].1, anns[0].0, &mut out);
                    next_seq(&mut exp.announce_seq, anns[0].1.header.seq, "Announce", &mut out);
                }
            }
            _ => {
                // delay request timer: P2P ports emit Pdelay_Req in any state; E2E master emits nothing
                acts = node.timer(0, TimerKind::DelayReq);
                rendered.push("delay-req-timer".to_string());
                for a in &acts {
                    if let OAction::SendEvent { ctx, data, .. } = a {
                        match decode(data) {
                            Ok(m) if m.header.msg_type == T_PDELAY_REQ && p2p => {
                                check_common(&node, &m, data, &mut out);
                                next_seq(&mut exp.pdelay_req_seq, m.header.seq, "Pdelay_Req", &mut out);
                                other_ctx.push(*ctx);
                            }
                            Ok(m) => out.fail("master port emitted unexpected event frame on delay timer", type_name(m.header.msg_type).to_string()),
                            Err(_) => out.fail("undecodable frame", ""),
                        }
                    }
                }
            }
        }
        if !node.monitor.is_empty() {
            out.fail(format!("monitor: {}", node.monitor[0].split(':').nth(1).unwrap_or("").trim().split('(').next().unwrap_or("").trim()), node.monitor.join("; "));
        }
        if out.violation.is_some() {
            break;
        }
    }
    PD_CORR.with(|c| c.borrow_mut().clear());
    out.label(if p2p { "p2p" } else { "e2e" });
    out.render = json!({"domain": node.cfg.domain, "sdo": node.cfg.sdo, "p2p": p2p, "minor": node.cfg.ports[0].minor_version, "ops": rendered});
    if nontrivial {
        out.nontrivial = Some(hash_of(&rendered));
    }
    out
}

thread_local! {
    static PD_CORR: std::cell::RefCell<std::collections::HashMap<usize, (i64, i64)>> = std::cell::RefCell::new(Default::default());
}

fn hexs(b: &[u8]) -> String {
    b.iter().take(64).map(|x| format!("{:02x}", x)).collect()
}

/// 70 000 consecutive emissions per message type: sequence ids +1 mod 2^16, Follow_Up pairs with its Sync.
fn wrap_runs(rep: &mut Report) {
    let t0 = std::time::Instant::now();
    let mut fails: Vec<(String, String)> = vec![];
    for p2p in [false, true] {
        let mut cfg = NodeCfg::default();
        cfg.ports[0].p2p = p2p;
        let mut node = Node::new(cfg);
        node.timer(0, TimerKind::Receipt);
        let mut prev: [Option<u16>; 3] = [None; 3];
        for i in 0..70_000u32 {
            for (k, kind) in [TimerKind::Sync, TimerKind::Announce, TimerKind::DelayReq].iter().enumerate() {
                if *kind == TimerKind::DelayReq && !p2p {
                    continue;
                }
                let acts = node.timer(0, *kind);
                let mut seen = false;
                for a in &acts {
                    let (data, ctx) = match a {
                        OAction::SendEvent { data, ctx, .. } => (data, Some(*ctx)),
                        OAction::SendGeneral { data, .. } => (data, None),
                        _ => continue,
                    };
                    let Ok(m) = decode(data) else {
                        fails.push(("undecodable frame in wrap run".into(), String::new()));
                        continue;
                    };
                    seen = true;
                    if let Some(pv) = prev[k] {
                        if m.header.seq != pv.wrapping_add(1) {
                            fails.push((format!("{} sequenceId does not increase by one", type_name(m.header.msg_type)), format!("emission {} prev {} got {}", i, pv, m.header.seq)));
                        }
                    }
                    prev[k] = Some(m.header.seq);
                    if let (Some(ctx), true) = (ctx, *kind == TimerKind::Sync) {
                        let tb = ((1_700_000_000u128 * NS + i as u128) << 32) | (i as u128 * 7919 % (1 << 32));
                        let (_, acts) = node.tx_timestamp(ctx, time_from_bits(tb)).unwrap();
                        let f: Vec<RMsg> = acts.iter().filter_map(|a| if let OAction::SendGeneral { data, .. } = a { decode(data).ok() } else { None }).collect();
                        if f.len() != 1 || f[0].header.seq != m.header.seq {
                            fails.push(("Follow_Up sequenceId differs from its Sync".into(), format!("emission {}", i)));
                        }
                    } else if let Some(ctx) = ctx {
                        node.held[ctx] = None; // timestamp never reported
                    }
                }
                if !seen {
                    fails.push((format!("no emission on {:?} timer in wrap run", kind), format!("emission {}", i)));
                }
            }
            if !fails.is_empty() {
                break;
            }
            node.held.clear();
        }
        rep.evaluations += 70_000 * if p2p { 3 } else { 2 };
        rep.nontrivial.insert(hash_of(&("wrap", p2p)));
    }
    rep.parts.push(json!({"part": "wrap-runs", "cases": 2, "emissions_per_type": 70000, "wall_s": t0.elapsed().as_secs_f64()}));
    if let Some((sig, detail)) = fails.into_iter().next() {
        rep.violations.push((Violation { sig: format!("{}|wrap", sig), detail }, vec![], json!({"kind": "wrap-run"})));
        rep.viol_parts.push("wrap-runs".into());
    }
}

pub fn run(ctx: &Ctx) -> i32 {
    let mut rep = Report::new();
    wrap_runs(&mut rep);
    run_cases(ctx, &mut rep, "histories", ctx.cases(600_000, 20_000_000), case);
    // the real daemon's master port (transmit timestamps, contexts and clock conversion of statime-linux/src/main.rs)
    let workers = (ctx.threads as u64 / 2).clamp(2, 8);
    let sum = crate::daemon::run_part(ctx, &mut rep, ctx.cases(5 * workers, 80 * workers), workers);
    if let Some(why) = &sum.skipped {
        println!("note: end-to-end daemon part skipped ({}); the other parts are unaffected", why);
    }
    finish(
        Finish {
            ctx,
            level: "exploration",
            rule: "one port brought to Master (announce receipt timeout), E2E or P2P, random domain/sdoId/minor version; histories of <= 40 ops: sync timer, return of any outstanding Sync context with a transmit time over the whole 80-bit range (incl. sub-ns fractions, second/nanosecond carries, >= 2^64 ns), Delay_Req / Pdelay_Req built by the reference codec with arbitrary correction (|c| < 2^62), identity, sequence id, flags and receive time, return of Pdelay_Resp contexts, announce timer, delay timer; plus two 70 000-emission runs per type across the sequence wrap. Part daemon: the master port of the real statime daemon (two-port boundary clock in a private network namespace, its clock = the system clock) watched for 0.7-1.8 s while generated Delay_Req frames (sequence ids, correction fields, requesters) are sent to it: Follow_Up pairs with its Sync and carries its transmit time (within -20..+1 ms of the Sync's arrival, kernel receive timestamp; also with the port's egress plugged by a token bucket so that transmit timestamps come late or not at all), Delay_Resp echoes requester and id and its timestamp + correction - request correction is the time the request was sent (-1..+20 ms), every Delay_Req and every Pdelay_Req of a 100-600/s stream is answered exactly once (response and follow-up), Announce and Sync ids increase by one, identity/domain/sdoId/version/size of every frame. Non-trivial = a timestamped exchange with non-zero sub-nanosecond part; distinct by op list.",
            assumptions: vec!["frames decoded by the independent reference codec".into(), "|correctionField| >= 2^62 in requests belongs to C03".into()],
            min_nontrivial: 100,
        },
        rep,
    )
}

pub fn replay(ctx: &Ctx, path: &str) -> i32 {
    let s = std::fs::read_to_string(path).expect("read replay");
    let v: serde_json::Value = serde_json::from_str(&s).expect("parse");
    if v["part"].as_str() == Some("wrap-runs") {
        let mut rep = Report::new();
        wrap_runs(&mut rep);
        return if rep.violations.is_empty() { println!("replay passed"); 0 } else { println!("VIOLATION property=C10 replay={}", path); 1 };
    }
    if v["part"].as_str() == Some("daemon") {
        return crate::daemon::replay_part(ctx, path, 3);
    }
    replay_file(ctx, path, case)
}
