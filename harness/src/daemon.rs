//! End-to-end driver for the real `statime` daemon binary (built from /repo):
//! the daemon runs inside a private network namespace (`unshare -n`) as a
//! two-port boundary clock over two veth pairs in PTP-over-Ethernet mode; the
//! harness plays the parent (and other senders) on the peer of port 1 and listens
//! on the peer of port 2. Real time, black box: used for the parts of C15 that
//! live in statime-linux/src/main.rs (the forwarder as the daemon really drives
//! it). Nothing outside the namespace is touched.
//!
//! Parent process:  run_part() -> spawns `unshare -n <this binary> E2E-WORKER ...`
//! Worker process:  worker_main() sets up links, starts the daemon, runs cases,
//!                  prints one JSON line per case on stdout.

use crate::engine::*;
use crate::host::{announce_from, simple_announce};
use crate::refcodec::*;
use serde_json::{json, Value};
use std::collections::VecDeque;
use std::io::{BufRead, BufReader, Read};
use std::os::unix::net::UnixStream;
use std::path::PathBuf;
use std::process::{Child, Command, Stdio};
use std::time::{Duration, Instant};

const ETHERTYPE: u16 = 0x88f7;
const PTP_MCAST: [u8; 6] = [0x01, 0x1b, 0x19, 0x00, 0x00, 0x00];
pub const PARENT: PortId = PortId { clock: [0x00, 0x1b, 0x19, 0xcc, 0, 0, 0, 0x02], port: 1 };
pub const OTHER: PortId = PortId { clock: [0x00, 0x1b, 0x19, 0xcc, 0, 0, 0, 0x07], port: 1 };
/// log2 of the announce interval configured in the daemon (2^-3 s = 125 ms)
const ANN_LOG: i8 = -3;
const ANN_MS: u64 = 125;
const ROOM: usize = 960;

pub fn daemon_binary() -> PathBuf {
    std::env::var("VERIF_DAEMON_BIN").map(PathBuf::from).unwrap_or_else(|_| PathBuf::from("/verif/target/repo/debug/statime"))
}

/// can a private network namespace with veth devices be created here?
pub fn available() -> Result<(), String> {
    if !daemon_binary().exists() {
        return Err(format!("daemon binary {} not built", daemon_binary().display()));
    }
    let o = Command::new("unshare").args(["-n", "sh", "-c", "ip link add vq0 type veth peer name vq1 && ip link set vq0 up"]).output();
    match o {
        Ok(o) if o.status.success() => Ok(()),
        Ok(o) => Err(format!("unshare -n / veth not usable here: {}", String::from_utf8_lossy(&o.stderr).trim())),
        Err(e) => Err(format!("unshare not runnable: {}", e)),
    }
}

// ---------------------------------------------------------------- packet socket

pub struct PSock {
    fd: i32,
    ifindex: i32,
}

impl PSock {
    pub fn open(ifname: &str) -> Result<PSock, String> {
        unsafe {
            let proto = (ETHERTYPE.to_be()) as i32;
            let fd = libc::socket(libc::AF_PACKET, libc::SOCK_DGRAM | libc::SOCK_NONBLOCK, proto);
            if fd < 0 {
                return Err(format!("socket(AF_PACKET): {}", std::io::Error::last_os_error()));
            }
            let c = std::ffi::CString::new(ifname).unwrap();
            let idx = libc::if_nametoindex(c.as_ptr());
            if idx == 0 {
                return Err(format!("no interface {}", ifname));
            }
            let mut sll: libc::sockaddr_ll = std::mem::zeroed();
            sll.sll_family = libc::AF_PACKET as u16;
            sll.sll_protocol = ETHERTYPE.to_be();
            sll.sll_ifindex = idx as i32;
            if libc::bind(fd, &sll as *const _ as *const libc::sockaddr, std::mem::size_of::<libc::sockaddr_ll>() as u32) != 0 {
                return Err(format!("bind: {}", std::io::Error::last_os_error()));
            }
            let sz: i32 = 4 << 20;
            libc::setsockopt(fd, libc::SOL_SOCKET, libc::SO_RCVBUF, &sz as *const _ as *const libc::c_void, 4);
            Ok(PSock { fd, ifindex: idx as i32 })
        }
    }
    pub fn send(&self, data: &[u8]) -> bool {
        unsafe {
            let mut sll: libc::sockaddr_ll = std::mem::zeroed();
            sll.sll_family = libc::AF_PACKET as u16;
            sll.sll_protocol = ETHERTYPE.to_be();
            sll.sll_ifindex = self.ifindex;
            sll.sll_halen = 6;
            sll.sll_addr[..6].copy_from_slice(&PTP_MCAST);
            let n = libc::sendto(self.fd, data.as_ptr() as *const libc::c_void, data.len(), 0, &sll as *const _ as *const libc::sockaddr, std::mem::size_of::<libc::sockaddr_ll>() as u32);
            n == data.len() as isize
        }
    }
    /// next frame that arrived on the interface (frames we sent ourselves are skipped)
    pub fn recv(&self) -> Option<Vec<u8>> {
        let mut buf = vec![0u8; 4096];
        loop {
            unsafe {
                let mut sll: libc::sockaddr_ll = std::mem::zeroed();
                let mut sl = std::mem::size_of::<libc::sockaddr_ll>() as u32;
                let n = libc::recvfrom(self.fd, buf.as_mut_ptr() as *mut libc::c_void, buf.len(), 0, &mut sll as *mut _ as *mut libc::sockaddr, &mut sl);
                if n < 0 {
                    return None;
                }
                if sll.sll_pkttype == 4 {
                    continue; // PACKET_OUTGOING
                }
                return Some(buf[..n as usize].to_vec());
            }
        }
    }
}

impl Drop for PSock {
    fn drop(&mut self) {
        unsafe {
            libc::close(self.fd);
        }
    }
}

fn wait_readable(fds: &[i32], timeout: Duration) {
    let mut p: Vec<libc::pollfd> = fds.iter().map(|fd| libc::pollfd { fd: *fd, events: libc::POLLIN, revents: 0 }).collect();
    unsafe {
        libc::poll(p.as_mut_ptr(), p.len() as u64, timeout.as_millis().min(1000) as i32);
    }
}

// ---------------------------------------------------------------- worker world

fn sh(cmd: &str) -> Result<(), String> {
    let o = Command::new("sh").arg("-c").arg(cmd).output().map_err(|e| e.to_string())?;
    if o.status.success() {
        Ok(())
    } else {
        Err(format!("`{}` failed: {}", cmd, String::from_utf8_lossy(&o.stderr).trim()))
    }
}

pub struct SentTlv {
    pub at: Instant,
    pub sender: PortId,
    pub tlv: RTlv,
}

pub struct SeenAnnounce {
    pub at: Instant,
    pub msg: RMsg,
}

pub struct World {
    pub dir: PathBuf,
    daemon: Child,
    a1: PSock,
    b1: PSock,
    pub path_trace: bool,
    seq_parent: u16,
    seq_other: u16,
    next_parent: Instant,
    /// TLV lists waiting to ride on the parent's next Announces (one entry per Announce)
    pub parent_plan: VecDeque<(Vec<RTlv>, u64)>,
    pub sent: Vec<SentTlv>,
    /// Announces the daemon emitted on its port 2 (seen at b1)
    pub seen_b: Vec<SeenAnnounce>,
    pub seen_a_master_traffic: u64,
    pub own_identity: [u8; 8],
}

impl World {
    pub fn start(path_trace: bool) -> Result<World, String> {
        sh("ip link set lo up")?;
        sh("ip link add a0 type veth peer name a1 && ip link add b0 type veth peer name b1")?;
        sh("ip link set a0 address 00:1b:19:aa:00:01 && ip link set b0 address 00:1b:19:aa:00:02")?;
        sh("for i in a0 a1 b0 b1; do ip link set $i up; done")?;
        let dir = std::env::temp_dir().join(format!("vcheck-e2e-{}", std::process::id()));
        std::fs::create_dir_all(&dir).map_err(|e| e.to_string())?;
        let cfg = format!(
            "loglevel = \"{ll}\"\nsdo-id = 0\ndomain = 0\npriority1 = 128\nidentity = \"001b19aa00010000\"\nvirtual-system-clock = true\npath-trace = {}\n\n[[port]]\ninterface = \"a0\"\nnetwork-mode = \"ethernet\"\nhardware-clock = \"none\"\nannounce-interval = {l}\nsync-interval = {l}\ndelay-interval = 0\n\n[[port]]\ninterface = \"b0\"\nnetwork-mode = \"ethernet\"\nhardware-clock = \"none\"\nannounce-interval = {l}\nsync-interval = 0\ndelay-interval = 0\n\n[observability]\nobservation-path = \"{}\"\n",
            path_trace,
            dir.join("obs.sock").display(),
            l = ANN_LOG,
            ll = std::env::var("VERIF_E2E_LOGLEVEL").unwrap_or_else(|_| "warn".into())
        );
        std::fs::write(dir.join("statime.toml"), cfg).map_err(|e| e.to_string())?;
        let log = std::fs::File::create(dir.join("daemon.log")).map_err(|e| e.to_string())?;
        let daemon = Command::new(daemon_binary()).arg("-c").arg(dir.join("statime.toml")).stdin(Stdio::null()).stdout(log.try_clone().map_err(|e| e.to_string())?).stderr(log).spawn().map_err(|e| format!("spawn daemon: {}", e))?;
        let a1 = PSock::open("a1")?;
        let b1 = PSock::open("b1")?;
        let mut w = World {
            dir,
            daemon,
            a1,
            b1,
            path_trace,
            seq_parent: 100,
            seq_other: 7,
            next_parent: Instant::now(),
            parent_plan: VecDeque::new(),
            sent: vec![],
            seen_b: vec![],
            seen_a_master_traffic: 0,
            own_identity: [0x00, 0x1b, 0x19, 0xaa, 0x00, 0x01, 0x00, 0x00],
        };
        w.establish()?;
        Ok(w)
    }

    pub fn alive(&mut self) -> bool {
        matches!(self.daemon.try_wait(), Ok(None))
    }

    fn parent_announce(&mut self, tlvs: Vec<RTlv>) {
        self.seq_parent = self.seq_parent.wrapping_add(1);
        let mut ann = simple_announce(PARENT.clock, 100, 6, 0);
        ann.gm_identity = PARENT.clock;
        let mut m = announce_from(PARENT, self.seq_parent, ann, 0, 0);
        m.header.log_interval = ANN_LOG;
        m.tlvs = tlvs.clone();
        let now = Instant::now();
        if self.a1.send(&m.encode()) {
            for t in tlvs {
                self.sent.push(SentTlv { at: now, sender: PARENT, tlv: t });
            }
        }
    }

    /// an Announce of a worse master on the same segment, with TLVs that must never be forwarded
    pub fn other_announce(&mut self, tlvs: Vec<RTlv>) {
        self.seq_other = self.seq_other.wrapping_add(1);
        let mut ann = simple_announce(OTHER.clock, 120, 248, 0);
        ann.gm_identity = OTHER.clock;
        let mut m = announce_from(OTHER, self.seq_other, ann, 0, 0);
        m.header.log_interval = ANN_LOG;
        m.tlvs = tlvs.clone();
        let now = Instant::now();
        if self.a1.send(&m.encode()) {
            for t in tlvs {
                self.sent.push(SentTlv { at: now, sender: OTHER, tlv: t });
            }
        }
    }

    fn drain(&mut self) {
        while let Some(f) = self.b1.recv() {
            if let Ok(m) = decode(&f) {
                if m.header.msg_type == T_ANNOUNCE {
                    self.seen_b.push(SeenAnnounce { at: Instant::now(), msg: m });
                }
            }
        }
        while let Some(f) = self.a1.recv() {
            if let Ok(m) = decode(&f) {
                if matches!(m.header.msg_type, T_ANNOUNCE | T_SYNC | T_FOLLOW_UP) && m.header.source.clock == self.own_identity {
                    self.seen_a_master_traffic += 1;
                }
            }
        }
    }

    /// run the event loop until `deadline`: the parent keeps announcing (plan entries first, then plain
    /// Announces every announce interval), frames from the daemon are collected
    pub fn run_until(&mut self, deadline: Instant) {
        loop {
            self.drain();
            let now = Instant::now();
            if now >= self.next_parent {
                let (tlvs, gap) = self.parent_plan.pop_front().unwrap_or((vec![], ANN_MS));
                self.parent_announce(tlvs);
                self.next_parent = now + Duration::from_millis(gap);
                continue;
            }
            if now >= deadline {
                break;
            }
            let until = self.next_parent.min(deadline);
            wait_readable(&[self.a1.fd, self.b1.fd], until.saturating_duration_since(now));
        }
    }

    /// run until the plan is used up (plus `extra`)
    pub fn run_plan(&mut self, extra: Duration) {
        while !self.parent_plan.is_empty() {
            let d = Instant::now() + Duration::from_millis(20);
            self.run_until(d);
        }
        let d = Instant::now() + extra;
        self.run_until(d);
    }

    pub fn observe(&self) -> Option<statime_linux::metrics::exporter::ObservableState> {
        let mut s = UnixStream::connect(self.dir.join("obs.sock")).ok()?;
        s.set_read_timeout(Some(Duration::from_millis(500))).ok()?;
        let mut v = vec![];
        s.read_to_end(&mut v).ok()?;
        serde_json::from_slice(&v).ok()
    }

    /// (state of port 1, state of port 2) as rendered by Debug
    pub fn port_states(&self) -> Option<(String, String)> {
        let o = self.observe()?;
        let p = &o.instance.port_ds;
        if p.len() != 2 {
            return None;
        }
        Some((format!("{:?}", p[0].port_state), format!("{:?}", p[1].port_state)))
    }

    pub fn steady(&self) -> bool {
        matches!(self.port_states(), Some((a, b)) if a.starts_with("Slave") && b.starts_with("Master"))
    }

    fn establish(&mut self) -> Result<(), String> {
        let t0 = Instant::now();
        loop {
            if !self.alive() {
                let log = std::fs::read_to_string(self.dir.join("daemon.log")).unwrap_or_default();
                return Err(format!("daemon exited at start-up: {}", log.lines().rev().take(5).collect::<Vec<_>>().join(" | ")));
            }
            let d = Instant::now() + Duration::from_millis(150);
            self.run_until(d);
            if self.steady() && self.seen_b.len() >= 2 {
                self.seen_b.clear();
                self.sent.clear();
                return Ok(());
            }
            if t0.elapsed() > Duration::from_secs(15) {
                return Err(format!("daemon did not become slave on port 1 / master on port 2 within 15 s: {:?}", self.port_states()));
            }
        }
    }
}

impl Drop for World {
    fn drop(&mut self) {
        let _ = self.daemon.kill();
        let _ = self.daemon.wait();
        if std::env::var("VERIF_E2E_KEEP").is_err() {
            let _ = std::fs::remove_dir_all(&self.dir);
        }
    }
}

// ---------------------------------------------------------------- C15 case (forwarding through the real daemon)

fn is_prop(t: u16) -> bool {
    matches!(t, 0x0008 | 0x0009 | 0x4000..=0x7fff)
}

pub struct E2eOut {
    pub out: CaseOut,
    pub inconclusive: Option<String>,
}

/// One case: the parent sends 4..12 Announces at generated gaps (60..190 ms, mean one announce interval), some of
/// them carrying 1..3 TLVs (propagating and not, 0..600 value bytes); now and then a worse master on the same
/// segment sends an Announce with TLVs. After five more plain intervals every propagating TLV of the parent must
/// have been forwarded by the daemon's master port exactly once, unmodified and in order, and nothing else.
pub fn case_c15(w: &mut World, t: &mut Tape, tag: u32) -> E2eOut {
    let mut out = CaseOut::new();
    if !w.steady() {
        // let it settle again (e.g. after a disturbed case) before giving up
        let d = Instant::now() + Duration::from_millis(1500);
        w.run_until(d);
        if !w.steady() {
            return E2eOut { out, inconclusive: Some(format!("daemon not in (Slave, Master) before the case: {:?}", w.port_states())) };
        }
    }
    w.seen_b.clear();
    w.sent.clear();
    let slots = t.urange(4, 12);
    let mut counter = 0u16;
    let mut rendered = vec![];
    let mut others: Vec<(usize, Vec<RTlv>)> = vec![];
    let mut mk = |t: &mut Tape, counter: &mut u16| -> RTlv {
        *counter += 1;
        let typ = match t.weighted(&[5, 2, 2, 1]) {
            0 => 0x4000 + t.below(0x100) as u16, // experimental, propagating
            1 => 0x0009,                          // ALTERNATE_TIME_OFFSET_INDICATOR, propagating
            2 => *t.pick(&[0x0003u16, 0x2004, 0x8001]), // ORGANIZATION_EXTENSION (old), *_DO_NOT_PROPAGATE, not propagating
            _ => 0x7fff,
        };
        let len = match t.weighted(&[4, 3, 1]) {
            0 => 8 + 2 * t.below(8) as usize,
            1 => 8 + 2 * t.below(150) as usize,
            _ => 8 + 2 * t.below(300) as usize,
        };
        let mut v = vec![0u8; len];
        v[..4].copy_from_slice(&tag.to_be_bytes());
        v[4..6].copy_from_slice(&counter.to_be_bytes());
        for (i, b) in v.iter_mut().enumerate().skip(6) {
            *b = (i as u8).wrapping_mul(31).wrapping_add(*counter as u8);
        }
        RTlv { typ, value: v }
    };
    for s in 0..slots as usize {
        let n = t.weighted(&[5, 3, 1, 1]);
        let mut tl = vec![];
        let mut total = 0;
        for _ in 0..n {
            let x = mk(t, &mut counter);
            // the daemon's Ethernet receive buffer is 1024 bytes: keep the whole Announce within it
            if total + x.wire_size() <= ROOM {
                total += x.wire_size();
                tl.push(x);
            }
        }
        let gap = t.urange(60, 190);
        rendered.push(format!("parent announce +{}ms tlvs {:?}", gap, tl.iter().map(|x| format!("{:04x}/{}", x.typ, x.value.len())).collect::<Vec<_>>()));
        w.parent_plan.push_back((tl, gap));
        if t.chance(1, 6) {
            let tl = vec![mk(t, &mut counter)];
            rendered.push(format!("other master announce (slot {}) tlv {:04x}/{}", s, tl[0].typ, tl[0].value.len()));
            others.push((s, tl));
        }
    }
    // run the plan slot by slot so that the other master's Announces fall between the parent's
    let total = w.parent_plan.len();
    loop {
        let done = total - w.parent_plan.len();
        while let Some(pos) = others.iter().position(|(s, _)| *s < done) {
            let (_, tl) = others.remove(pos);
            w.other_announce(tl);
        }
        if w.parent_plan.is_empty() {
            break;
        }
        let d = Instant::now() + Duration::from_millis(10);
        w.run_until(d);
    }
    for (_, tl) in others.drain(..) {
        w.other_announce(tl);
    }
    let d = Instant::now() + Duration::from_millis(5 * ANN_MS + 60);
    w.run_until(d);
    if !w.alive() {
        out.fail("daemon exited", "");
        return E2eOut { out, inconclusive: None };
    }
    if !w.steady() {
        return E2eOut { out, inconclusive: Some(format!("daemon left (Slave, Master) during the case: {:?}", w.port_states())) };
    }
    // expected: the parent's propagating TLVs that fit an Announce, in order of sending
    let path_cost = if w.path_trace { 4 + 8 } else { 0 };
    let want: Vec<&RTlv> = w.sent.iter().filter(|s| s.sender == PARENT && is_prop(s.tlv.typ) && s.tlv.wire_size() <= ROOM - path_cost).map(|s| &s.tlv).collect();
    let mut got: Vec<&RTlv> = vec![];
    for a in &w.seen_b {
        if a.msg.header.source.clock != w.own_identity {
            continue;
        }
        let mut it = a.msg.tlvs.iter();
        if w.path_trace {
            match it.next() {
                Some(first) if first.typ == 0x0008 => {
                    let mut exp: Vec<u8> = vec![];
                    exp.extend(w.own_identity);
                    if first.value != exp {
                        out.fail("daemon: PATH_TRACE TLV of the emitted Announce is not the parent's path plus the own identity", format!("{:02x?}", first.value));
                    }
                }
                _ => out.fail("daemon: emitted Announce lacks the PATH_TRACE TLV although path trace is on", format!("{} tlvs", a.msg.tlvs.len())),
            }
        }
        for x in it {
            got.push(x);
        }
    }
    let d = |v: &Vec<&RTlv>| v.iter().map(|x| format!("{:04x}/{}#{}", x.typ, x.value.len(), if x.value.len() >= 6 { ((x.value[4] as u16) << 8) | x.value[5] as u16 } else { 0 })).collect::<Vec<_>>();
    if got != want {
        // classify
        let mut gi = 0;
        for x in &want {
            if gi < got.len() && got[gi] == *x {
                gi += 1;
            }
        }
        let sig = if gi == got.len() && got.len() < want.len() {
            "daemon: a propagating TLV received from the parent was never forwarded by the master port"
        } else {
            "daemon: TLVs forwarded by the master port are not the parent's propagating TLVs, once each and in order"
        };
        out.fail(sig, format!("forwarded {:?} ; expected {:?} ; announces seen {} ; ops {:?}", d(&got), d(&want), w.seen_b.len(), rendered));
    }
    out.render = json!({"path_trace": w.path_trace, "ops": rendered, "announces_seen_on_port2": w.seen_b.len()});
    if !want.is_empty() {
        out.nontrivial = Some(hash_of(&format!("{:?}", rendered)));
        out.label("daemon:tlvs-to-forward");
    }
    if w.sent.iter().any(|s| s.sender == OTHER) {
        out.label("daemon:other-master-tlvs");
    }
    E2eOut { out, inconclusive: None }
}

// ---------------------------------------------------------------- worker / parent plumbing

/// `vcheck E2E-WORKER <prop> <seed> <first> <count> <stride> [tape.json]`
pub fn worker_main(args: &[String]) -> i32 {
    let prop = args.get(0).cloned().unwrap_or_default();
    let seed: u64 = args.get(1).and_then(|s| s.parse().ok()).unwrap_or(0);
    let first: u64 = args.get(2).and_then(|s| s.parse().ok()).unwrap_or(0);
    let count: u64 = args.get(3).and_then(|s| s.parse().ok()).unwrap_or(1);
    let stride: u64 = args.get(4).and_then(|s| s.parse().ok()).unwrap_or(1);
    let tape_file = args.get(5).cloned();
    let path_trace = (first % 2) == 1;
    let mut w = match World::start(path_trace) {
        Ok(w) => w,
        Err(e) => {
            println!("{}", json!({"fatal": e}));
            return 2;
        }
    };
    let fixed: Option<Vec<u64>> = tape_file.map(|p| {
        let s = std::fs::read_to_string(p).expect("read replay");
        let v: Value = serde_json::from_str(&s).expect("parse replay");
        v["tape"].as_array().expect("tape").iter().map(|x| x.as_u64().unwrap()).collect()
    });
    for k in 0..count {
        let idx = first + k * stride;
        let mut tape = match &fixed {
            Some(v) => Tape::replay(v.clone()),
            None => Tape::fresh(seed ^ hash_str("daemon"), idx),
        };
        let r = match prop.as_str() {
            "C15" => case_c15(&mut w, &mut tape, idx as u32),
            _ => {
                println!("{}", json!({"fatal": format!("no end-to-end case for {}", prop)}));
                return 2;
            }
        };
        let line = json!({
            "index": idx,
            "tape": tape.recorded(),
            "inconclusive": r.inconclusive,
            "violation": r.out.violation.as_ref().map(|v| json!({"sig": v.sig, "detail": v.detail})),
            "nontrivial": r.out.nontrivial,
            "labels": r.out.labels,
            "render": r.out.render,
        });
        println!("{}", line);
        if !w.alive() {
            println!("{}", json!({"fatal": "daemon exited"}));
            return 2;
        }
    }
    0
}

pub struct PartSummary {
    pub cases: u64,
    pub inconclusive: u64,
    pub skipped: Option<String>,
}

/// run `n` end-to-end cases over `workers` daemons, absorb the results into `rep` under part name "daemon"
pub fn run_part(ctx: &Ctx, rep: &mut Report, n: u64, workers: u64) -> PartSummary {
    let t0 = Instant::now();
    if let Err(e) = available() {
        rep.parts.push(json!({"part": "daemon", "cases": 0, "skipped": e}));
        return PartSummary { cases: 0, inconclusive: 0, skipped: Some(e) };
    }
    let exe = std::env::current_exe().expect("current exe");
    let workers = workers.max(1).min(n.max(1));
    let per = (n + workers - 1) / workers;
    let mut children = vec![];
    for wi in 0..workers {
        let c = Command::new("unshare")
            .arg("-n")
            .arg(&exe)
            .args(["E2E-WORKER", &ctx.prop, &ctx.seed.to_string(), &wi.to_string(), &per.to_string(), &workers.to_string()])
            .stdin(Stdio::null())
            .stdout(Stdio::piped())
            .stderr(Stdio::null())
            .spawn();
        match c {
            Ok(c) => children.push(c),
            Err(e) => {
                rep.parts.push(json!({"part": "daemon", "cases": 0, "skipped": format!("spawn: {}", e)}));
                return PartSummary { cases: 0, inconclusive: 0, skipped: Some(e.to_string()) };
            }
        }
    }
    let mut cases = 0u64;
    let mut inconclusive = 0u64;
    let mut fatal: Vec<String> = vec![];
    let mut sample_inconclusive: Option<String> = None;
    for mut c in children {
        let so = c.stdout.take().unwrap();
        for line in BufReader::new(so).lines().map_while(Result::ok) {
            let Ok(v) = serde_json::from_str::<Value>(&line) else { continue };
            if let Some(f) = v["fatal"].as_str() {
                fatal.push(f.to_string());
                continue;
            }
            cases += 1;
            if let Some(r) = v["inconclusive"].as_str() {
                inconclusive += 1;
                sample_inconclusive.get_or_insert(r.to_string());
                continue;
            }
            let mut out = CaseOut::new();
            if let Some(viol) = v["violation"].as_object() {
                out.fail(viol["sig"].as_str().unwrap_or("").to_string(), viol["detail"].as_str().unwrap_or("").to_string());
            }
            out.nontrivial = v["nontrivial"].as_u64();
            if let Some(ls) = v["labels"].as_array() {
                for l in ls {
                    if let Some(s) = l.as_str() {
                        out.label(s.to_string());
                    }
                }
            }
            out.render = v["render"].clone();
            let tape: Vec<u64> = v["tape"].as_array().map(|a| a.iter().filter_map(|x| x.as_u64()).collect()).unwrap_or_default();
            let sig = out.violation.as_ref().map(|x| x.sig.clone());
            let dup = sig.as_ref().map(|s| rep.violations.iter().any(|(x, _, _)| &x.sig == s)).unwrap_or(false);
            if dup {
                out.violation = None;
            }
            let had = rep.violations.len();
            rep.absorb(out, &tape);
            if rep.violations.len() > had {
                rep.viol_parts.push("daemon".into());
            }
        }
        let _ = c.wait();
    }
    rep.parts.push(json!({"part": "daemon", "cases": cases, "inconclusive": inconclusive, "inconclusive_sample": sample_inconclusive, "workers": workers, "worker_errors": fatal,
        "wall_s": t0.elapsed().as_secs_f64(), "what": "the real statime daemon (built from /repo) as a two-port boundary clock in a private network namespace over veth pairs, PTP over Ethernet, announce interval 125 ms, virtual system clock; real time"}));
    PartSummary { cases, inconclusive, skipped: None }
}

/// replay of a saved end-to-end case: the same tape is run `tries` times (the phase relative to the daemon's own
/// timers is not under the harness's control); a violation in any run counts
pub fn replay_part(ctx: &Ctx, path: &str, tries: u64) -> i32 {
    if let Err(e) = available() {
        println!("INFRA: end-to-end replay not possible here: {}", e);
        return 2;
    }
    let exe = std::env::current_exe().expect("current exe");
    // same daemon configuration as in the failing run (workers with an odd first index run with path trace on)
    let pt = std::fs::read_to_string(path).ok().and_then(|s| serde_json::from_str::<Value>(&s).ok()).map(|v| v["case"]["path_trace"].as_bool().unwrap_or(false)).unwrap_or(false);
    let first = if pt { "1" } else { "0" };
    let o = Command::new("unshare").arg("-n").arg(&exe).args(["E2E-WORKER", &ctx.prop, &ctx.seed.to_string(), first, &tries.to_string(), "2", path]).stdin(Stdio::null()).stderr(Stdio::null()).output();
    let Ok(o) = o else {
        println!("INFRA: could not run the worker");
        return 2;
    };
    let mut ran = 0;
    for line in String::from_utf8_lossy(&o.stdout).lines() {
        let Ok(v) = serde_json::from_str::<Value>(line) else { continue };
        if let Some(f) = v["fatal"].as_str() {
            println!("INFRA: {}", f);
            return 2;
        }
        if v["inconclusive"].is_string() {
            continue;
        }
        ran += 1;
        if let Some(viol) = v["violation"].as_object() {
            println!("case: {}", v["render"]);
            println!("VIOLATION property={} replay={}", ctx.prop, path);
            println!("  signature: {}", viol["sig"].as_str().unwrap_or(""));
            println!("  detail: {}", viol["detail"].as_str().unwrap_or(""));
            return 1;
        }
    }
    if ran == 0 {
        println!("INFRA: no conclusive run");
        return 2;
    }
    println!("replay passed ({} runs)", ran);
    0
}
