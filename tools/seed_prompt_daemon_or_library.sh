#!/bin/bash
ID=$1
cat <<P
You are helping test a verification tool by producing realistic *bugs* ("seeded changes") in a Rust code base. Work ONLY inside the scratch git worktree /tmp/seed3-$ID (a checkout of the open-source project pendulum-project/statime, a Rust implementation of IEEE 1588 PTP: crates statime/ (library) and statime-linux/ (the Linux daemon \`statime\` and the \`statime-metrics-exporter\`)). Never touch /repo or /verif and do not look into them. The machine is offline: use \`cargo ... --offline\`, and set CARGO_TARGET_DIR=/tmp/seed3-$ID/target for every cargo command. Other jobs share this machine: use \`-j 4\` for cargo builds.

Here is a semantic property that the code base is supposed to satisfy:

---
$(cat /tmp/prop-$ID.txt)
---

Your task: produce THREE different, independent source changes (call them m6, m7 and m8) such that each one:
 0. is made preferably in the DAEMON sources, i.e. under statime-linux/src/ (main.rs — the port tasks, timer handling, action handling, BMCA loop, observable-state assembly —, tlvforwarder.rs, observer.rs, clock/, socket.rs, config/), or, where the daemon sources offer no plausible site, in the statime library crate in code the running daemon exercises (not in the metrics exporter) — in every case the demonstration must show the misbehaviour on the RUNNING DAEMON, not through a unit test,
 1. still compiles (\`cargo build --workspace --offline\`),
 2. still passes the complete existing test suite, unedited (\`cargo test --workspace --no-fail-fast --offline\`; 76 tests pass on the unchanged tree),
 3. BREAKS the property above as seen on the running daemon (i.e. the daemon as a whole then violates it on the wire / on its observation socket), in a way that a realistic programming slip or a plausible "refactoring"/"optimisation" could introduce, and
 4. needs something specific to manifest — a particular ordering or timing of events, a multi-step sequence, a rarely visited state, an unusual configuration, or two cooperating code sites that each look fine alone — NOT something that makes the daemon obviously dead for every use. Prefer subtle over blatant; the three should touch different mechanisms.

For each change, also provide a demonstration that FAILS with the change applied and PASSES on the unchanged code. Because the daemon's main.rs is a binary, the demonstration may be a script (bash and/or python3, standard library only) that runs the built daemon binary (/tmp/seed3-$ID/target/debug/statime) in a private network namespace — this machine allows it as root: e.g. \`unshare -n bash -c 'ip link set lo up; ip link add a0 type veth peer name a1; ip link set a0 address 00:1b:19:aa:00:01; ip link set a0 up; ip link set a1 up; ...'\`; with \`network-mode = "ethernet"\` in the port configuration no IP set-up is needed and PTP frames can be sent/received on the veth peer with an AF_PACKET/SOCK_DGRAM socket for ethertype 0x88f7 (python: socket.socket(socket.AF_PACKET, socket.SOCK_DGRAM, socket.htons(0x88f7)); multicast destination 01:1b:19:00:00:00); use \`virtual-system-clock = true\`, \`hardware-clock = "none"\`, an explicit \`identity = "001b19aa00010000"\`, short intervals (e.g. announce-interval = -3) and an \`[observability] observation-path\` if you want to read the daemon's state (connect to the Unix socket, read JSON until EOF). The statime-linux/docs and the sample configs in the repository describe the configuration keys. A Rust test is of course fine too where it can reach the changed code. The demonstration must exit 0 / pass on the unchanged tree and exit non-zero / fail with the change, reliably (run it at least three times each way).

Deliverables, written to /tmp/seed3-$ID-out/ :
  m6.diff, m7.diff, m8.diff      – \`git diff\` of ONLY the source change, each relative to the clean worktree HEAD, applicable with \`git apply\` on a clean checkout
  m6_demo/, m7_demo/, m8_demo/   – the demonstration (script(s) or a patch adding a test) with a file RUN.sh that builds what it needs (cargo build of the daemon with CARGO_TARGET_DIR=/tmp/seed3-$ID/target, -j 4, offline) from the CURRENT state of the worktree and runs the demonstration, exiting 0 when the property holds and non-zero when it is violated
  m6.md, m7.md, m8.md            – short notes: what was changed, why it breaks the property, what exactly is needed for it to manifest, and the observed output with and without the change
When you are done, leave the worktree clean (\`git checkout -- . && git clean -fd -e target\`) and reply with a brief summary (what each mutation is, and confirmation that you ran: build OK, 76 existing tests pass with change, demo fails with change, demo passes without). Do not write anything outside /tmp/seed3-$ID and /tmp/seed3-$ID-out.
P
