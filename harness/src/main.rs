use vharness::*;

use engine::Ctx;

struct StderrLog;
impl log::Log for StderrLog {
    fn enabled(&self, _m: &log::Metadata) -> bool {
        true
    }
    fn log(&self, r: &log::Record) {
        eprintln!("[{}] {}", r.level(), r.args());
    }
    fn flush(&self) {}
}
static LOGGER: StderrLog = StderrLog;

fn usage() -> ! {
    eprintln!("usage: vcheck <C01..C20> [--tier quick|thorough] [--replay <file>] [--threads N]");
    std::process::exit(2)
}

fn main() {
    let args: Vec<String> = std::env::args().collect();
    if args.len() < 2 {
        usage();
    }
    let prop = args[1].clone();
    if prop == "E2E-WORKER" {
        engine::install_panic_hook();
        std::process::exit(daemon::worker_main(&args[2..]));
    }
    let mut tier = std::env::var("VERIF_TIER").unwrap_or_else(|_| "quick".into());
    let mut replay: Option<String> = None;
    let mut threads = std::thread::available_parallelism().map(|n| n.get()).unwrap_or(4).min(16);
    let mut i = 2;
    while i < args.len() {
        match args[i].as_str() {
            "--tier" => {
                tier = args.get(i + 1).cloned().unwrap_or_else(|| usage());
                i += 1;
            }
            "--replay" => {
                replay = Some(args.get(i + 1).cloned().unwrap_or_else(|| usage()));
                i += 1;
            }
            "--threads" => {
                threads = args.get(i + 1).and_then(|s| s.parse().ok()).unwrap_or_else(|| usage());
                i += 1;
            }
            _ => usage(),
        }
        i += 1;
    }
    if tier != "quick" && tier != "thorough" {
        usage();
    }
    let seed = std::env::var("VERIF_SEED").ok().and_then(|s| s.parse::<i64>().ok()).unwrap_or(0) as u64;
    let build = std::env::var("VCHECK_BUILD").unwrap_or_else(|_| if cfg!(debug_assertions) { "checked".into() } else { "unchecked".into() });
    let ctx = Ctx { prop: prop.clone(), tier, seed, threads, build };
    if std::env::var("VERIF_LOG").is_ok() {
        let _ = log::set_logger(&LOGGER);
        log::set_max_level(log::LevelFilter::Trace);
    }
    engine::install_panic_hook();
    engine::start_watchdog();
    let code = match (prop.as_str(), &replay) {
        ("VALID-PAYLOAD", _) => {
            // development aid: the observable state the C20 harness serves, as JSON on stdout
            use std::io::Write;
            std::io::stdout().write_all(&vharness::c20::valid_payload()).unwrap();
            0
        }
        ("CORPUS", _) => {
            // seed corpora for the libFuzzer targets, written under /verif/target/fuzz-corpus
            let base = std::path::PathBuf::from(std::env::var("VERIF_FUZZ_CORPUS").unwrap_or_else(|_| "/verif/target/fuzz-corpus".into()));
            std::fs::create_dir_all(base.join("codec")).unwrap();
            std::fs::create_dir_all(base.join("host_ops")).unwrap();
            for i in 0..400u64 {
                let mut t = engine::Tape::fresh(ctx.seed ^ 0xc0de, i);
                let m = refcodec::gen_msg(&mut t);
                let mut b = vec![1u8, 2, 3];
                b.extend(m.encode());
                std::fs::write(base.join("codec").join(format!("m{}", i)), &b).unwrap();
                let mut t = engine::Tape::fresh(ctx.seed ^ 0xc03, i);
                let mut out = engine::CaseOut::new();
                c03::run_history(&mut t, 60, &mut out);
                let bytes: Vec<u8> = t.recorded().iter().flat_map(|v| [(*v & 0xff) as u8, ((*v >> 8) & 0xff) as u8]).collect();
                std::fs::write(base.join("host_ops").join(format!("h{}", i)), &bytes).unwrap();
            }
            println!("corpora written to {}", base.display());
            0
        }
        ("C04", None) => c04::run(&ctx),
        ("C04", Some(p)) if !p.ends_with(".json") => {
            // raw libFuzzer artifact of target `codec`: 3 tail bytes + message
            let data = std::fs::read(p).expect("read artifact");
            let (tail, msg) = if data.len() > 3 { data.split_at(3) } else { (&[][..], &data[..]) };
            match c04::check_bytes(msg, tail).violation {
                Some((sig, d)) => {
                    println!("VIOLATION property=C04 replay={}\n  signature: {}\n  detail: {}", p, sig, d);
                    1
                }
                None => {
                    println!("replay passed");
                    0
                }
            }
        }
        ("C03", Some(p)) if !p.ends_with(".json") => {
            // raw libFuzzer artifact of target `host_ops`: 2 bytes per choice
            let data = std::fs::read(p).expect("read artifact");
            let mut t = engine::Tape::from_bytes(&data);
            let mut out = engine::CaseOut::new();
            c03::run_history(&mut t, 80, &mut out);
            println!("case: {}", serde_json::to_string(&out.render).unwrap_or_default());
            match out.violation {
                Some(v) => {
                    println!("VIOLATION property=C03 replay={}\n  signature: {}\n  detail: {}", p, v.sig, v.detail);
                    1
                }
                None => {
                    println!("replay passed");
                    0
                }
            }
        }
        ("C04", Some(p)) => c04::replay(&ctx, p),
        ("C18", None) => c18::run(&ctx),
        ("C18", Some(p)) => c18::replay(&ctx, p),
        ("C10", None) => c10::run(&ctx),
        ("C10", Some(p)) => c10::replay(&ctx, p),
        ("C09", None) => c09::run(&ctx),
        ("C09", Some(p)) => c09::replay(&ctx, p),
        ("C14", None) => c14::run(&ctx),
        ("C14", Some(p)) => c14::replay(&ctx, p),
        ("C03", None) => c03::run(&ctx),
        ("C03", Some(p)) => c03::replay(&ctx, p),
        ("C08", None) => c08::run(&ctx),
        ("C08", Some(p)) => c08::replay(&ctx, p),
        ("C07", None) => c07::run(&ctx),
        ("C07", Some(p)) => c07::replay(&ctx, p),
        ("C05", None) => c05::run(&ctx),
        ("C05", Some(p)) => c05::replay(&ctx, p),
        ("C06", None) => c06::run(&ctx),
        ("C06", Some(p)) => c06::replay(&ctx, p),
        ("C11", None) => c11::run(&ctx),
        ("C11", Some(p)) => c11::replay(&ctx, p),
        ("C13", None) => c13::run(&ctx),
        ("C13", Some(p)) => c13::replay(&ctx, p),
        ("C15", None) => c15::run(&ctx),
        ("C15", Some(p)) => c15::replay(&ctx, p),
        ("C12", None) => c12::run(&ctx),
        ("C12", Some(p)) => c12::replay(&ctx, p),
        ("C17", None) => c17::run(&ctx),
        ("C17", Some(p)) => c17::replay(&ctx, p),
        ("C20", None) => c20::run(&ctx),
        ("C20", Some(p)) => c20::replay(&ctx, p),
        ("C19", None) => c19::run(&ctx),
        ("C19", Some(p)) => c19::replay(&ctx, p),
        ("C01", None) => c01::run(&ctx),
        ("C01", Some(p)) => c01::replay(&ctx, p),
        ("C02", None) => c02::run(&ctx),
        ("C02", Some(p)) => c02::replay(&ctx, p),
        ("C16", None) => c16::run(&ctx),
        ("C16", Some(p)) => c16::replay(&ctx, p),
        _ => {
            eprintln!("unknown property {}", prop);
            2
        }
    };
    std::process::exit(code);
}
