//! Host-call histories: a concrete op alphabet, an online generator that
//! consults the node's observable state to produce well-formed protocol
//! traffic (so that deep states are reached) with optional boundary-lattice
//! fields and malformed frames, and an interpreter. Used by C03, C07, C08,
//! C12, C17.

use crate::engine::Tape;
use crate::host::*;
use crate::refcodec::*;
use std::collections::HashMap;

#[derive(Clone, Debug, PartialEq)]
pub enum COp {
    RecvEvent { port: usize, data: Vec<u8>, ts_bits: u128, what: String },
    RecvGeneral { port: usize, data: Vec<u8>, what: String },
    Timer { port: usize, kind: TimerKind },
    /// return the k-th oldest still-held transmit context
    TxTs { which: usize, ts_bits: u128 },
    Bmca { order: Vec<usize> },
    SetQuality { class: u8, accuracy: u8, variance: u16 },
    SetSlaveOnly(bool),
}

impl COp {
    pub fn brief(&self) -> String {
        match self {
            COp::RecvEvent { port, data, ts_bits, what } => format!("p{} recv-event {} ({}B) ts=0x{:x}", port + 1, what, data.len(), ts_bits),
            COp::RecvGeneral { port, data, what } => format!("p{} recv-general {} ({}B)", port + 1, what, data.len()),
            COp::Timer { port, kind } => format!("p{} timer {:?}", port + 1, kind),
            COp::TxTs { which, ts_bits } => format!("tx-timestamp #{} ts=0x{:x}", which, ts_bits),
            COp::Bmca { order } => format!("bmca order {:?}", order),
            COp::SetQuality { class, accuracy, variance } => format!("set_clock_quality class={} acc=0x{:x} var={}", class, accuracy, variance),
            COp::SetSlaveOnly(b) => format!("set_slave_only({})", b),
        }
    }
    pub fn json(&self) -> serde_json::Value {
        match self {
            COp::RecvEvent { data, .. } | COp::RecvGeneral { data, .. } => serde_json::json!({"op": self.brief(), "hex": data.iter().take(96).map(|b| format!("{:02x}", b)).collect::<String>()}),
            _ => serde_json::json!(self.brief()),
        }
    }
}

/// Apply a concrete op. Returns (port the actions belong to, actions) pairs.
pub fn apply(node: &mut Node, op: &COp) -> Vec<(usize, Vec<OAction>)> {
    match op {
        COp::RecvEvent { port, data, ts_bits, .. } => vec![(*port, node.recv_event(*port, data, time_from_bits(*ts_bits)))],
        COp::RecvGeneral { port, data, .. } => vec![(*port, node.recv_general(*port, data))],
        COp::Timer { port, kind } => vec![(*port, node.timer(*port, *kind))],
        COp::TxTs { which, ts_bits } => {
            let pend = node.pending_contexts();
            if pend.is_empty() {
                return vec![];
            }
            let ctx = pend[*which % pend.len()];
            match node.tx_timestamp(ctx, time_from_bits(*ts_bits)) {
                Some((p, a)) => vec![(p, a)],
                None => vec![],
            }
        }
        COp::Bmca { order } => node.bmca_ordered(order).into_iter().enumerate().collect(),
        COp::SetQuality { class, accuracy, variance } => {
            node.set_clock_quality(*class, *accuracy, *variance);
            vec![]
        }
        COp::SetSlaveOnly(b) => {
            node.set_slave_only(*b);
            vec![]
        }
    }
}

#[derive(Clone, Copy, Debug, PartialEq, Eq, Hash)]
pub enum MKind {
    Better,
    Best,
    Worse,
    OwnOtherPort,
    Unacceptable,
}

#[derive(Clone, Debug)]
pub struct Master {
    pub id: PortId,
    pub ann: RAnnounce,
    pub kind: MKind,
}

#[derive(Clone, Copy, Debug)]
pub struct Profile {
    /// boundary-lattice numeric fields (corrections +-2^63, stepsRemoved 65535, huge timestamps, ...)
    pub extreme: bool,
    /// malformed / mutated / raw frames and TLV edge layouts
    pub malformed: bool,
    /// TLVs on announces (propagating types, path trace)
    pub tlvs: bool,
    /// run-time setting changes
    pub settings: bool,
    /// timers fire even when not armed (true: any host call order)
    pub free_timers: bool,
}

pub struct World {
    pub node: Node,
    pub masters: Vec<Master>,
    pub ann_seq: HashMap<(usize, usize), u16>,
    pub sync_seq: HashMap<(usize, usize), u16>,
    pub last_sync: Vec<Option<(PortId, u16, bool)>>,
    pub delay_reqs: Vec<Vec<u16>>,
    pub pdelay_reqs: Vec<Vec<u16>>,
    pub base_s: u128,
    pub tick: u128,
    pub ops: Vec<COp>,
}

const NS: u128 = 1_000_000_000;

pub fn gen_node_cfg(t: &mut Tape, max_ports: usize, filters: &[FilterKind]) -> NodeCfg {
    let mut cfg = NodeCfg::default();
    let nports = 1 + t.below(max_ports as u64) as usize;
    cfg.identity = [0, 0, 0, 0, 0, 0, 0, 0x10];
    cfg.priority1 = *t.pick(&[128u8, 127, 129]);
    cfg.class = *t.pick(&[248u8, 248, 6, 127, 128, 255]);
    cfg.slave_only = t.chance(1, 6);
    cfg.path_trace = t.chance(1, 3);
    cfg.domain = if t.chance(1, 4) { 1 + t.below(3) as u8 } else { 0 };
    cfg.sdo = if t.chance(1, 6) { 0x100 } else { 0 };
    cfg.filter = filters[t.below(filters.len() as u64) as usize].clone();
    cfg.prov = *t.pick(&[ProvKind::Daemon, ProvKind::Literal, ProvKind::None]);
    cfg.rng_seed = t.below(1 << 20);
    cfg.ports.clear();
    let announce_log = t.range(-2, 1) as i8;
    for _ in 0..nports {
        let mut pc = PortCfg::default();
        pc.p2p = t.chance(1, 3);
        pc.delay_log = t.range(-3, 2) as i8;
        pc.announce_log = announce_log;
        pc.sync_log = t.range(-3, 1) as i8;
        pc.receipt_timeout = *t.pick(&[3u8, 2, 4, 10]);
        pc.master_only = !cfg.slave_only && t.chance(1, 6);
        pc.asymmetry_bits = match t.weighted(&[3, 1]) {
            0 => 0,
            _ => t.log_i128(52),
        };
        pc.minor_version = t.below(2) as u8;
        pc.aml = if t.chance(1, 5) { Some(vec![[0, 0, 0, 0, 0, 0, 0, 1], [0, 0, 0, 0, 0, 0, 0, 2], [0, 0, 0, 0, 0, 0, 0, 3], cfg.identity]) } else { None };
        cfg.ports.push(pc);
    }
    cfg
}

pub fn standard_masters(own: [u8; 8]) -> Vec<Master> {
    let mk = |idb: u8, port: u16, p1: u8, class: u8, steps: u16, gm: u8| {
        let mut a = simple_announce([0, 0, 0, 0, 0, 0, 0, gm], p1, class, steps);
        a.gm_identity = [0, 0, 0, 0, 0, 0, 0, gm];
        (PortId { clock: [0, 0, 0, 0, 0, 0, 0, idb], port }, a)
    };
    let (b, ba) = mk(2, 1, 100, 6, 0, 2);
    let (bb, bba) = mk(1, 1, 50, 6, 1, 0x01);
    let (w, wa) = mk(3, 1, 250, 248, 2, 3);
    let (u, ua) = mk(0x66, 1, 10, 6, 0, 0x66);
    let mut own_ann = simple_announce(own, 128, 248, 0);
    own_ann.gm_identity = own;
    vec![
        Master { id: b, ann: ba, kind: MKind::Better },
        Master { id: bb, ann: bba, kind: MKind::Best },
        Master { id: w, ann: wa, kind: MKind::Worse },
        Master { id: PortId { clock: own, port: 0 }, ann: own_ann, kind: MKind::OwnOtherPort },
        Master { id: u, ann: ua, kind: MKind::Unacceptable },
    ]
}

impl World {
    pub fn new(cfg: NodeCfg, base_s: u128) -> World {
        let n = cfg.ports.len();
        let masters = standard_masters(cfg.identity);
        World { node: Node::new(cfg), masters, ann_seq: HashMap::new(), sync_seq: HashMap::new(), last_sync: vec![None; n], delay_reqs: vec![vec![]; n], pdelay_reqs: vec![vec![]; n], base_s, tick: 0, ops: vec![] }
    }

    fn hdr(&self, m: &mut RMsg) {
        in_domain(&self.node, m);
    }

    pub fn next_ts(&mut self, t: &mut Tape, extreme: bool) -> u128 {
        self.tick += 1 + t.below(50_000_000) as u128;
        if extreme && t.chance(1, 3) {
            return match t.weighted(&[2, 2, 2, 2, 1]) {
                0 => t.below(3) as u128,
                1 => ((t.below(1 << 31) as u128) << 32) | t.below(1 << 32) as u128,
                2 => (((1u128 << 63) - 1 - t.below(3) as u128) << 32) | t.below(1 << 32) as u128,
                3 => ((t.below(1u64 << 63) as u128) << 32) | t.below(1 << 32) as u128,
                _ => ((NS * t.below(4_000_000_000) as u128) << 32) | *t.pick(&[0u128, 1, (1 << 32) - 1]),
            };
        }
        let frac = if t.bool() { t.below(1 << 32) as u128 } else { 0 };
        ((self.base_s * NS + self.tick) << 32) | frac
    }

    fn corr(&self, t: &mut Tape, extreme: bool) -> i64 {
        if extreme {
            gen_correction(t)
        } else {
            match t.weighted(&[3, 2]) {
                0 => 0,
                _ => t.log_i128(24) as i64,
            }
        }
    }

    fn wire_ts(&mut self, t: &mut Tape, extreme: bool) -> RTs {
        if extreme && t.chance(1, 3) {
            return gen_ts(t);
        }
        self.tick += 1 + t.below(1_000_000) as u128;
        RTs::from_ns(self.base_s * NS + self.tick)
    }

    /// Announce from master `mi` to port `p`
    pub fn announce(&mut self, t: &mut Tape, mi: usize, p: usize, prof: &Profile) -> COp {
        let m = self.masters[mi].clone();
        let mut src = m.id;
        if m.kind == MKind::OwnOtherPort {
            // another port of this instance: lower or higher port number than the receiver
            src.port = if t.bool() { 0 } else { *t.pick(&[1u16, 2, 3, 9]) };
        }
        if !self.ann_seq.contains_key(&(mi, p)) {
            // first sequence id of this master on this port: just below one of the 16-bit boundaries, or anywhere
            let first = match t.weighted(&[3, 2, 2, 1]) {
                0 => 0,
                1 => 0x7ffd + t.below(3) as u16,
                2 => 0xfffd + t.below(3) as u16,
                _ => t.below(0x10000) as u16,
            };
            self.ann_seq.insert((mi, p), first);
        }
        let e = self.ann_seq.get_mut(&(mi, p)).unwrap();
        let seq = match t.weighted(&[20, 2, 2, 1]) {
            0 => {
                *e = e.wrapping_add(1);
                *e
            }
            1 => *e,                // duplicate
            2 => e.wrapping_sub(3), // stale
            _ => {
                // a jump (restarted or forged sender): far behind, far ahead, or across the signed boundary
                *e = match t.below(4) {
                    0 => e.wrapping_add(0x7fff),
                    1 => e.wrapping_add(0x8000),
                    2 => e.wrapping_sub(0x7fff),
                    _ => t.below(0x10000) as u16,
                };
                *e
            }
        };
        let mut ann = m.ann;
        if prof.extreme && t.chance(1, 4) {
            ann.steps_removed = *t.pick(&[0u16, 1, 254, 255, 256, 65534, 65535]);
        }
        if prof.extreme && t.chance(1, 8) {
            ann.utc_offset = *t.pick(&[i16::MAX, i16::MIN, -1]);
            ann.gm_accuracy = t.below(256) as u8;
            ann.time_source = t.below(256) as u8;
        }
        let mut msg = announce_from(src, seq, ann, 0, 0);
        self.hdr(&mut msg);
        msg.header.flags[1] = t.below(128) as u8;
        msg.header.log_interval = self.node.cfg.ports[p].announce_log;
        if prof.tlvs && t.chance(1, 2) {
            msg.tlvs = self.gen_announce_tlvs(t, prof);
        }
        COp::RecvGeneral { port: p, data: msg.encode(), what: format!("Announce[{:?} seq {} steps {} tlvs {}]", m.kind, seq, ann.steps_removed, msg.tlvs.len()) }
    }

    pub fn gen_announce_tlvs(&mut self, t: &mut Tape, prof: &Profile) -> Vec<RTlv> {
        let mut v = vec![];
        let n = t.weighted(&[4, 3, 2, 1]) + 1;
        let mut total = 0usize;
        for _ in 0..n {
            let typ = match t.weighted(&[3, 2, 3, 2, 1]) {
                0 => 0x0008u16,
                1 => 0x0009,
                2 => 0x4000 + t.below(0x4000) as u16,
                3 => *t.pick(&[0x0001u16, 0x0003, 0x8000, 0x8001, 0x2004]),
                _ => t.below(0x10000) as u16,
            };
            let len: usize = if typ == 0x0008 {
                // path trace: list of identities
                8 * match t.weighted(&[3, 2, 1, 1]) {
                    0 => t.below(4) as usize,
                    1 => t.below(20) as usize,
                    2 => *t.pick(&[117usize, 118, 119, 120, 126, 127]),
                    _ => {
                        if prof.extreme {
                            *t.pick(&[128usize, 129, 130, 200])
                        } else {
                            127
                        }
                    }
                }
            } else {
                match t.weighted(&[3, 3, 2, 2]) {
                    0 => 0,
                    1 => 2 * t.below(20) as usize,
                    2 => 2 * t.below(200) as usize,
                    _ => {
                        // around the announce TLV room (960) and the path-trace adjusted room
                        let room = 960usize;
                        let target = room - *t.pick(&[0usize, 2, 4, 6, 8, 12, 16, 20]);
                        let l = target.saturating_sub(4).saturating_sub(if t.bool() { 12 } else { 0 });
                        if prof.extreme && t.chance(1, 4) {
                            l + 2 * t.below(60) as usize
                        } else {
                            l
                        }
                    }
                }
            };
            if total + 4 + len > 1980 {
                break;
            }
            total += 4 + len;
            let mut value = vec![0u8; len];
            for (i, b) in value.iter_mut().enumerate() {
                *b = (i as u8).wrapping_mul(31).wrapping_add(typ as u8);
            }
            if typ == 0x0008 && len >= 8 && t.chance(1, 6) {
                // own identity inside the path (loop)
                let k = t.below((len / 8) as u64) as usize;
                value[8 * k..8 * k + 8].copy_from_slice(&self.node.cfg.identity);
            }
            v.push(RTlv { typ, value });
        }
        v
    }

    fn sync_source(&mut self, t: &mut Tape, p: usize) -> (usize, PortId) {
        // prefer the current parent
        let parent = self.node.ds().parent;
        let _ = p;
        if t.chance(5, 6) {
            if let Some(i) = self.masters.iter().position(|m| m.id == parent) {
                return (i, parent);
            }
        }
        let i = t.below(self.masters.len() as u64) as usize;
        let mut id = self.masters[i].id;
        if t.chance(1, 4) {
            id.port = id.port.wrapping_add(1);
        }
        (i, id)
    }

    pub fn sync(&mut self, t: &mut Tape, p: usize, prof: &Profile) -> COp {
        let (mi, src) = self.sync_source(t, p);
        if !self.sync_seq.contains_key(&(mi, p)) {
            let first = *t.pick(&[100u16, 0x7ffd, 0xfffd, 0xfffe]);
            self.sync_seq.insert((mi, p), first);
        }
        let e = self.sync_seq.get_mut(&(mi, p)).unwrap();
        *e = e.wrapping_add(1);
        let seq = *e;
        let two = !t.chance(1, 4);
        let origin = self.wire_ts(t, prof.extreme);
        let mut m = RMsg::new(T_SYNC, src, seq, RBody::Sync { origin });
        self.hdr(&mut m);
        m.header.set_flag(F_TWO_STEP, two);
        m.header.correction = self.corr(t, prof.extreme);
        self.last_sync[p] = Some((src, seq, two));
        let ts = self.next_ts(t, prof.extreme);
        COp::RecvEvent { port: p, data: m.encode(), ts_bits: ts, what: format!("Sync[seq {} two_step {} corr {}]", seq, two, m.header.correction) }
    }

    pub fn follow_up(&mut self, t: &mut Tape, p: usize, prof: &Profile) -> COp {
        let (src, seq) = match self.last_sync[p] {
            Some((s, q, _)) if !t.chance(1, 8) => (s, q),
            Some((s, q, _)) => (s, q.wrapping_add(*t.pick(&[1u16, 0xffff]))),
            None => (self.masters[0].id, 7),
        };
        let ts = self.wire_ts(t, prof.extreme);
        let mut m = RMsg::new(T_FOLLOW_UP, src, seq, RBody::FollowUp { precise_origin: ts });
        self.hdr(&mut m);
        m.header.correction = self.corr(t, prof.extreme);
        COp::RecvGeneral { port: p, data: m.encode(), what: format!("Follow_Up[seq {} corr {}]", seq, m.header.correction) }
    }

    pub fn delay_resp(&mut self, t: &mut Tape, p: usize, prof: &Profile) -> COp {
        let parent = self.node.ds().parent;
        let src = if t.chance(7, 8) { parent } else { self.masters[2].id };
        let seq = match self.delay_reqs[p].last() {
            Some(s) if !t.chance(1, 8) => *s,
            Some(s) => s.wrapping_sub(1),
            None => t.below(4) as u16,
        };
        let me = self.node.port_id(p);
        let requesting = if t.chance(7, 8) { me } else { PortId { clock: me.clock, port: me.port.wrapping_add(1) } };
        let ts = self.wire_ts(t, prof.extreme);
        let mut m = RMsg::new(T_DELAY_RESP, src, seq, RBody::DelayResp { receive: ts, requesting });
        self.hdr(&mut m);
        m.header.correction = self.corr(t, prof.extreme);
        COp::RecvGeneral { port: p, data: m.encode(), what: format!("Delay_Resp[seq {} corr {}]", seq, m.header.correction) }
    }

    pub fn delay_req(&mut self, t: &mut Tape, p: usize, prof: &Profile) -> COp {
        let src = gen_port_id(t);
        let seq = t.below(0x10000) as u16;
        let origin = self.wire_ts(t, prof.extreme);
        let mut m = RMsg::new(T_DELAY_REQ, src, seq, RBody::DelayReq { origin });
        self.hdr(&mut m);
        m.header.correction = self.corr(t, prof.extreme);
        let ts = self.next_ts(t, prof.extreme);
        COp::RecvEvent { port: p, data: m.encode(), ts_bits: ts, what: format!("Delay_Req[corr {}]", m.header.correction) }
    }

    pub fn pdelay_req(&mut self, t: &mut Tape, p: usize, prof: &Profile) -> COp {
        let src = gen_port_id(t);
        let seq = t.below(0x10000) as u16;
        let origin = self.wire_ts(t, prof.extreme);
        let mut m = RMsg::new(T_PDELAY_REQ, src, seq, RBody::PdelayReq { origin, reserved: [0; 10] });
        self.hdr(&mut m);
        m.header.correction = self.corr(t, prof.extreme);
        let ts = self.next_ts(t, prof.extreme);
        COp::RecvEvent { port: p, data: m.encode(), ts_bits: ts, what: format!("Pdelay_Req[corr {}]", m.header.correction) }
    }

    pub fn pdelay_resp(&mut self, t: &mut Tape, p: usize, prof: &Profile, fup: bool) -> COp {
        let who = t.weighted(&[5, 1]);
        let src = PortId { clock: [0, 0, 0, 0, 0, 0, 0, 0x21 + who as u8], port: 1 };
        let seq = match self.pdelay_reqs[p].last() {
            Some(s) if !t.chance(1, 8) => *s,
            Some(s) => s.wrapping_sub(1),
            None => 0,
        };
        let me = self.node.port_id(p);
        let requesting = if t.chance(9, 10) { me } else { PortId { clock: me.clock, port: 77 } };
        let wts = self.wire_ts(t, prof.extreme);
        let corr = self.corr(t, prof.extreme);
        if fup {
            let mut m = RMsg::new(T_PDELAY_RESP_FUP, src, seq, RBody::PdelayRespFup { response_origin: wts, requesting });
            self.hdr(&mut m);
            m.header.correction = corr;
            COp::RecvGeneral { port: p, data: m.encode(), what: format!("Pdelay_Resp_Follow_Up[r{} seq {}]", who, seq) }
        } else {
            let mut m = RMsg::new(T_PDELAY_RESP, src, seq, RBody::PdelayResp { receipt: wts, requesting });
            self.hdr(&mut m);
            m.header.correction = corr;
            m.header.set_flag(F_TWO_STEP, !t.chance(1, 4));
            let ts = self.next_ts(t, prof.extreme);
            COp::RecvEvent { port: p, data: m.encode(), ts_bits: ts, what: format!("Pdelay_Resp[r{} seq {}]", who, seq) }
        }
    }

    pub fn malformed(&mut self, t: &mut Tape, p: usize) -> COp {
        let mut data = match t.weighted(&[3, 2, 1]) {
            0 => {
                let mut m = gen_msg(t);
                if t.chance(2, 3) {
                    self.hdr(&mut m);
                    m.header.version = 2;
                }
                m.encode()
            }
            1 => {
                // a structurally valid announce with mutated bytes
                let mi = t.below(self.masters.len() as u64) as usize;
                let prof = Profile { extreme: true, malformed: true, tlvs: true, settings: false, free_timers: true };
                match self.announce(t, mi, p, &prof) {
                    COp::RecvGeneral { data, .. } => data,
                    _ => vec![],
                }
            }
            _ => {
                let n = t.urange(0, 120) as usize;
                let mut b = t.bytes(n);
                if b.len() > 1 {
                    b[1] = (b[1] & 0xf0) | 2;
                }
                b
            }
        };
        match t.weighted(&[3, 2, 2, 2, 1, 2]) {
            0 => {}
            1 => {
                let cut = t.below(data.len() as u64 + 1) as usize;
                data.truncate(cut);
            }
            2 => {
                for _ in 0..t.urange(1, 4) {
                    if !data.is_empty() {
                        let i = t.below(data.len() as u64) as usize;
                        data[i] = t.below(256) as u8;
                    }
                }
            }
            3 => {
                if data.len() >= 4 {
                    let l = (((data[2] as i64) << 8) | data[3] as i64) + *t.pick(&[-1i64, 1, -4, 4, 100, -34]);
                    let l = l.clamp(0, 65535);
                    data[2] = (l >> 8) as u8;
                    data[3] = l as u8;
                }
            }
            4 => {
                let n = t.urange(1, 900) as usize;
                data.extend(std::iter::repeat(0u8).take(n));
            }
            _ => {
                // zero-length TLV at the end, length adjusted
                if data.len() >= 34 && data.len() + 4 <= 2048 {
                    data.extend([0x40, 0x01, 0, 0]);
                    let l = data.len();
                    data[2] = (l >> 8) as u8;
                    data[3] = l as u8;
                }
            }
        }
        data.truncate(2048);
        let what = format!("malformed/{}", type_name(data.first().map(|b| b & 0xf).unwrap_or(0xf)));
        if t.bool() {
            data.truncate(1024); // the daemon's event buffer is MAX_DATA_LEN bytes
            let ts = self.next_ts(t, true);
            COp::RecvEvent { port: p, data, ts_bits: ts, what }
        } else {
            COp::RecvGeneral { port: p, data, what }
        }
    }

    /// Draw the next op given the node's current state.
    pub fn gen_op(&mut self, t: &mut Tape, prof: &Profile) -> COp {
        let n = self.node.nports();
        let p = t.below(n as u64) as usize;
        let st = self.node.state(p);
        let p2p = self.node.cfg.ports[p].p2p;
        // weights: announce, sync, followup, delay_resp, delay_req, pdelay_req, pdelay_resp, pdelay_fup, timer, txts, bmca, settings, malformed
        let mut w = [8u64, 3, 3, 2, 2, 1, 1, 1, 8, 4, 5, 0, 0];
        if st == PS::Slave {
            w[1] = 8;
            w[2] = 8;
            w[3] = 6;
        }
        if st == PS::Master {
            w[4] = 6;
        }
        if p2p {
            w[5] = 3;
            w[6] = 6;
            w[7] = 6;
        }
        if prof.settings {
            w[11] = 1;
        }
        if prof.malformed {
            w[12] = 4;
        }
        match t.weighted(&w) {
            0 => {
                let mi = t.weighted(&[4, 3, 2, 1, 1]);
                self.announce(t, mi, p, prof)
            }
            1 => self.sync(t, p, prof),
            2 => self.follow_up(t, p, prof),
            3 => self.delay_resp(t, p, prof),
            4 => self.delay_req(t, p, prof),
            5 => self.pdelay_req(t, p, prof),
            6 => self.pdelay_resp(t, p, prof, false),
            7 => self.pdelay_resp(t, p, prof, true),
            8 => {
                let armed: Vec<TimerKind> = ALL_TIMERS.iter().copied().filter(|k| self.node.timers[p][*k as usize].is_some()).collect();
                let kind = if prof.free_timers || armed.is_empty() {
                    if !armed.is_empty() && t.chance(2, 3) {
                        *t.pick(&armed)
                    } else {
                        *t.pick(&ALL_TIMERS)
                    }
                } else {
                    *t.pick(&armed)
                };
                COp::Timer { port: p, kind }
            }
            9 => {
                let ts = self.next_ts(t, prof.extreme);
                COp::TxTs { which: if t.chance(3, 4) { 0 } else { t.below(4) as usize }, ts_bits: ts }
            }
            10 => {
                let mut order: Vec<usize> = (0..n).collect();
                for i in (1..n).rev() {
                    let j = t.below(i as u64 + 1) as usize;
                    order.swap(i, j);
                }
                COp::Bmca { order }
            }
            11 => {
                if t.bool() {
                    COp::SetSlaveOnly(t.bool())
                } else {
                    COp::SetQuality { class: *t.pick(&[248u8, 6, 7, 127, 128, 255, 13]), accuracy: *t.pick(&[0xfeu8, 0x20, 0x31]), variance: *t.pick(&[0xffffu16, 0x4e5d, 0]) }
                }
            }
            _ => self.malformed(t, p),
        }
    }

    /// Apply an op, learn request sequence ids from emitted frames.
    pub fn step(&mut self, op: &COp) -> Vec<(usize, Vec<OAction>)> {
        let res = apply(&mut self.node, op);
        for (p, acts) in &res {
            for a in acts {
                if let OAction::SendEvent { data, .. } = a {
                    if data.len() >= 34 {
                        let seq = ((data[30] as u16) << 8) | data[31] as u16;
                        match data[0] & 0xf {
                            T_DELAY_REQ => self.delay_reqs[*p].push(seq),
                            T_PDELAY_REQ => self.pdelay_reqs[*p].push(seq),
                            _ => {}
                        }
                    }
                }
            }
        }
        self.ops.push(op.clone());
        res
    }
}
