//! Independent best master clock algorithm: IEEE 1588-2019 9.3.3 (state
//! decision, Figure 33) and 9.3.4 (data set comparison, Figures 34/35), coded
//! from the standard over plain structs.

use crate::refcodec::{PortId, RAnnounce};

#[derive(Debug, Clone, Copy, PartialEq, Eq)]
pub enum Cmp {
    ABetter,
    ABetterByTopology,
    BBetter,
    BBetterByTopology,
    Error1,
    Error2,
}

impl Cmp {
    pub fn a_wins(self) -> bool {
        matches!(self, Cmp::ABetter | Cmp::ABetterByTopology)
    }
    pub fn b_wins(self) -> bool {
        matches!(self, Cmp::BBetter | Cmp::BBetterByTopology)
    }
    pub fn tie(self) -> bool {
        matches!(self, Cmp::Error1 | Cmp::Error2)
    }
}

/// The quantities of Table 12 for one data set.
#[derive(Debug, Clone, Copy, PartialEq, Eq)]
pub struct DsView {
    pub p1: u8,
    pub class: u8,
    pub accuracy: u8,
    pub variance: u16,
    pub p2: u8,
    pub gm: [u8; 8],
    pub steps: u16,
    pub sender: [u8; 8],
    pub receiver: PortId,
}

impl DsView {
    pub fn from_announce(a: &RAnnounce, sender: PortId, receiver: PortId) -> Self {
        DsView { p1: a.gm_priority1, class: a.gm_class, accuracy: a.gm_accuracy, variance: a.gm_variance, p2: a.gm_priority2, gm: a.gm_identity, steps: a.steps_removed, sender: sender.clock, receiver }
    }
    /// D0: the defaultDS of the local clock (9.3.4, Table 12 first column)
    pub fn d0(own: [u8; 8], p1: u8, class: u8, accuracy: u8, variance: u16, p2: u8) -> Self {
        DsView { p1, class, accuracy, variance, p2, gm: own, steps: 0, sender: own, receiver: PortId { clock: own, port: 0 } }
    }
}

/// Figure 34 + Figure 35
pub fn compare(a: &DsView, b: &DsView) -> Cmp {
    if a.gm != b.gm {
        // Figure 34: lower value is better at each level
        let ka = (a.p1, a.class, a.accuracy, a.variance, a.p2, a.gm);
        let kb = (b.p1, b.class, b.accuracy, b.variance, b.p2, b.gm);
        return if ka < kb { Cmp::ABetter } else { Cmp::BBetter };
    }
    // Figure 35
    let (sa, sb) = (a.steps as i32, b.steps as i32);
    if sa > sb + 1 {
        return Cmp::BBetter;
    }
    if sa + 1 < sb {
        return Cmp::ABetter;
    }
    if sa > sb {
        // compare identities of receiver of A and sender of A
        return match a.receiver.clock.cmp(&a.sender) {
            std::cmp::Ordering::Less => Cmp::BBetter,
            std::cmp::Ordering::Greater => Cmp::BBetterByTopology,
            std::cmp::Ordering::Equal => Cmp::Error1,
        };
    }
    if sa < sb {
        return match b.receiver.clock.cmp(&b.sender) {
            std::cmp::Ordering::Less => Cmp::ABetter,
            std::cmp::Ordering::Greater => Cmp::ABetterByTopology,
            std::cmp::Ordering::Equal => Cmp::Error1,
        };
    }
    match a.sender.cmp(&b.sender) {
        std::cmp::Ordering::Less => Cmp::ABetterByTopology,
        std::cmp::Ordering::Greater => Cmp::BBetterByTopology,
        std::cmp::Ordering::Equal => match a.receiver.port.cmp(&b.receiver.port) {
            std::cmp::Ordering::Less => Cmp::ABetterByTopology,
            std::cmp::Ordering::Greater => Cmp::BBetterByTopology,
            std::cmp::Ordering::Equal => Cmp::Error2,
        },
    }
}

#[derive(Debug, Clone, Copy, PartialEq, Eq, Hash, PartialOrd, Ord)]
pub enum Code {
    /// listening port without qualified master stays listening (1588-2008 rule kept by statime)
    Stay,
    M1,
    M2,
    M3,
    P1,
    P2,
    S1,
}

/// One qualified candidate: the most recent Announce of a qualified foreign master on a port.
#[derive(Debug, Clone, Copy, PartialEq, Eq)]
pub struct Cand {
    pub sender: PortId,
    pub ann: RAnnounce,
}

/// best of a set by repeated comparison; returns (index, whether a genuine tie existed at the top)
pub fn best_of(views: &[DsView]) -> Option<(usize, bool)> {
    if views.is_empty() {
        return None;
    }
    let mut best = 0;
    let mut tie = false;
    for i in 1..views.len() {
        let c = compare(&views[i], &views[best]);
        if c.a_wins() {
            best = i;
            tie = false;
        } else if c.tie() {
            tie = true;
        }
    }
    Some((best, tie))
}

pub struct PortIn {
    pub id: PortId,
    pub listening: bool,
    /// excluded from Ebest: master-only or faulty ports
    pub excluded_from_ebest: bool,
    pub cands: Vec<Cand>,
}

pub struct Decision {
    pub codes: Vec<Code>,
    /// (port index, candidate) of Ebest
    pub ebest: Option<(usize, Cand)>,
    pub erbest: Vec<Option<Cand>>,
    pub tie: bool,
}

/// Figure 33 for every port of a clock.
pub fn decide(d0: &DsView, ports: &[PortIn]) -> Decision {
    let mut tie = false;
    let mut erbest: Vec<Option<Cand>> = vec![];
    for p in ports {
        let views: Vec<DsView> = p.cands.iter().map(|c| DsView::from_announce(&c.ann, c.sender, p.id)).collect();
        match best_of(&views) {
            Some((i, t)) => {
                tie |= t;
                erbest.push(Some(p.cands[i]));
            }
            None => erbest.push(None),
        }
    }
    let mut pool: Vec<(usize, Cand, DsView)> = vec![];
    for (i, p) in ports.iter().enumerate() {
        if p.excluded_from_ebest {
            continue;
        }
        if let Some(c) = erbest[i] {
            pool.push((i, c, DsView::from_announce(&c.ann, c.sender, p.id)));
        }
    }
    let ebest = best_of(&pool.iter().map(|x| x.2).collect::<Vec<_>>()).map(|(i, t)| {
        tie |= t;
        (pool[i].0, pool[i].1)
    });
    let mut codes = vec![];
    for (i, p) in ports.iter().enumerate() {
        let er = erbest[i];
        if er.is_none() && p.listening {
            codes.push(Code::Stay);
            continue;
        }
        if (1..=127).contains(&d0.class) {
            // D0 better or better by topology than Erbest -> M1 else P1
            let code = match er {
                None => Code::M1,
                Some(c) => {
                    let v = DsView::from_announce(&c.ann, c.sender, p.id);
                    let cmp = compare(d0, &v);
                    tie |= cmp.tie();
                    if cmp.b_wins() { Code::P1 } else { Code::M1 }
                }
            };
            codes.push(code);
            continue;
        }
        let code = match ebest {
            None => Code::M2,
            Some((bi, bc)) => {
                let bv = DsView::from_announce(&bc.ann, bc.sender, ports[bi].id);
                let cmp = compare(d0, &bv);
                tie |= cmp.tie();
                if !cmp.b_wins() {
                    Code::M2
                } else if bi == i {
                    Code::S1
                } else {
                    match er {
                        None => Code::M3,
                        Some(c) => {
                            let ev = DsView::from_announce(&c.ann, c.sender, p.id);
                            if compare(&bv, &ev) == Cmp::ABetterByTopology { Code::P2 } else { Code::M3 }
                        }
                    }
                }
            }
        };
        codes.push(code);
    }
    Decision { codes, ebest, erbest, tie }
}
