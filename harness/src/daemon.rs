//! End-to-end driver for the real `statime` daemon binary (built from /repo):
//! the daemon runs inside a private network namespace (`unshare -n`) as a
//! two-port boundary clock over two veth pairs in PTP-over-Ethernet mode; the
//! harness plays the parent (and other senders) on the peer of port 1 and listens
//! on the peer of port 2. Real time, black box: used for the parts of C15 that
//! live in statime-linux/src/main.rs (the forwarder as the daemon really drives
//! it). Nothing outside the namespace is touched.
//!
//! Parent process:  run_part() -> spawns `unshare -n <this binary> E2E-WORKER ...`
//! Worker process:  worker_main() sets up links, starts the daemon, runs cases,
//!                  prints one JSON line per case on stdout.

use crate::engine::*;
use crate::host::{announce_from, simple_announce};
use crate::refcodec::*;
use serde_json::{json, Value};
use std::collections::{BTreeSet, VecDeque};
use std::io::{BufRead, BufReader, Read};
use std::os::unix::net::UnixStream;
use std::path::PathBuf;
use std::process::{Child, Command, Stdio};
use std::time::{Duration, Instant};

const ETHERTYPE: u16 = 0x88f7;
const PTP_MCAST: [u8; 6] = [0x01, 0x1b, 0x19, 0x00, 0x00, 0x00];
pub const PARENT: PortId = PortId { clock: [0x00, 0x1b, 0x19, 0xcc, 0, 0, 0, 0x02], port: 1 };
pub const OTHER: PortId = PortId { clock: [0x00, 0x1b, 0x19, 0xcc, 0, 0, 0, 0x07], port: 1 };
/// log2 of the announce interval configured in the daemon (2^-3 s = 125 ms)
const ANN_LOG: i8 = -3;
const ANN_MS: u64 = 125;
const ROOM: usize = 960;

pub fn daemon_binary() -> PathBuf {
    std::env::var("VERIF_DAEMON_BIN").map(PathBuf::from).unwrap_or_else(|_| PathBuf::from("/verif/target/repo/debug/statime"))
}

/// can a private network namespace with veth devices be created here?
pub fn available() -> Result<(), String> {
    if !daemon_binary().exists() {
        return Err(format!("daemon binary {} not built", daemon_binary().display()));
    }
    let o = Command::new("unshare").args(["-n", "sh", "-c", "ip link add vq0 type veth peer name vq1 && ip link set vq0 up"]).output();
    match o {
        Ok(o) if o.status.success() => Ok(()),
        Ok(o) => Err(format!("unshare -n / veth not usable here: {}", String::from_utf8_lossy(&o.stderr).trim())),
        Err(e) => Err(format!("unshare not runnable: {}", e)),
    }
}

/// system time in ns (the sandbox kernel's TAI offset is 0, so this is also what the daemon's clock reads)
pub fn now_ns() -> u128 {
    std::time::SystemTime::now().duration_since(std::time::UNIX_EPOCH).unwrap_or_default().as_nanos()
}

// ---------------------------------------------------------------- packet socket

pub struct PSock {
    fd: i32,
    ifindex: i32,
    /// PTP over UDP/IPv4 (the harness builds and parses the IPv4 and UDP headers itself) instead of PTP over Ethernet
    udp: bool,
    ip_id: std::cell::Cell<u16>,
    /// sdoId (12 bits) and domain number written into every frame sent (the daemon's configured values)
    pub sdo: u16,
    pub domain: u8,
}

const IP_MCAST_MAC: [u8; 6] = [0x01, 0x00, 0x5e, 0x00, 0x01, 0x81]; // 224.0.1.129
const SRC_IP: [u8; 4] = [10, 9, 0, 77];

fn ip_checksum(h: &[u8]) -> u16 {
    let mut sum = 0u32;
    for c in h.chunks(2) {
        sum += ((c[0] as u32) << 8) | *c.get(1).unwrap_or(&0) as u32;
    }
    while sum >> 16 != 0 {
        sum = (sum & 0xffff) + (sum >> 16);
    }
    !(sum as u16)
}

impl PSock {
    pub fn open(ifname: &str, udp: bool) -> Result<PSock, String> {
        unsafe {
            let ethertype: u16 = if udp { 0x0800 } else { ETHERTYPE };
            let proto = (ethertype.to_be()) as i32;
            let fd = libc::socket(libc::AF_PACKET, libc::SOCK_DGRAM | libc::SOCK_NONBLOCK, proto);
            if fd < 0 {
                return Err(format!("socket(AF_PACKET): {}", std::io::Error::last_os_error()));
            }
            let c = std::ffi::CString::new(ifname).unwrap();
            let idx = libc::if_nametoindex(c.as_ptr());
            if idx == 0 {
                return Err(format!("no interface {}", ifname));
            }
            let mut sll: libc::sockaddr_ll = std::mem::zeroed();
            sll.sll_family = libc::AF_PACKET as u16;
            sll.sll_protocol = ethertype.to_be();
            sll.sll_ifindex = idx as i32;
            if libc::bind(fd, &sll as *const _ as *const libc::sockaddr, std::mem::size_of::<libc::sockaddr_ll>() as u32) != 0 {
                return Err(format!("bind: {}", std::io::Error::last_os_error()));
            }
            let sz: i32 = 16 << 20;
            libc::setsockopt(fd, libc::SOL_SOCKET, libc::SO_RCVBUF, &sz as *const _ as *const libc::c_void, 4);
            // beyond rmem_max (we are root in the worker)
            libc::setsockopt(fd, libc::SOL_SOCKET, libc::SO_RCVBUFFORCE, &sz as *const _ as *const libc::c_void, 4);
            let one: i32 = 1;
            libc::setsockopt(fd, libc::SOL_SOCKET, libc::SO_TIMESTAMPNS, &one as *const _ as *const libc::c_void, 4);
            // software transmit timestamps (read back from the error queue by `send_ts`), software receive timestamps
            let flags: u32 = libc::SOF_TIMESTAMPING_TX_SOFTWARE | libc::SOF_TIMESTAMPING_RX_SOFTWARE | libc::SOF_TIMESTAMPING_SOFTWARE | libc::SOF_TIMESTAMPING_OPT_TSONLY;
            libc::setsockopt(fd, libc::SOL_SOCKET, libc::SO_TIMESTAMPING, &flags as *const _ as *const libc::c_void, 4);
            Ok(PSock { fd, ifindex: idx as i32, udp, ip_id: std::cell::Cell::new(1), sdo: 0, domain: 0 })
        }
    }
    pub fn send(&self, ptp: &[u8]) -> bool {
        self.send_bytes(ptp, true)
    }

    /// `patch`: write the instance's sdoId and domain into the header (false: the bytes go out exactly as given)
    pub fn send_bytes(&self, ptp: &[u8], patch: bool) -> bool {
        // the instance's sdoId and domain (majorSdoId: high nibble of octet 0, domain: octet 4, minorSdoId: octet 5)
        let mut patched = ptp.to_vec();
        if patch && patched.len() >= 6 {
            patched[0] = (patched[0] & 0x0f) | (((self.sdo >> 8) as u8) << 4);
            patched[4] = self.domain;
            patched[5] = self.sdo as u8;
        }
        let ptp: &[u8] = &patched;
        let mut frame: Vec<u8>;
        let data: &[u8] = if self.udp {
            // event messages (types 0..3) go to port 319, general messages to 320
            let port: u16 = if ptp.first().map(|b| b & 0xf < 4).unwrap_or(false) { 319 } else { 320 };
            let total = 20 + 8 + ptp.len();
            let id = self.ip_id.get();
            self.ip_id.set(id.wrapping_add(1));
            frame = vec![0x45, 0, (total >> 8) as u8, total as u8, (id >> 8) as u8, id as u8, 0x40, 0, 1, 17, 0, 0];
            frame.extend(SRC_IP);
            frame.extend([224, 0, 1, 129]);
            let c = ip_checksum(&frame);
            frame[10] = (c >> 8) as u8;
            frame[11] = c as u8;
            let ulen = 8 + ptp.len();
            frame.extend([(port >> 8) as u8, port as u8, (port >> 8) as u8, port as u8, (ulen >> 8) as u8, ulen as u8, 0, 0]);
            frame.extend_from_slice(ptp);
            &frame
        } else {
            ptp
        };
        unsafe {
            let mut sll: libc::sockaddr_ll = std::mem::zeroed();
            sll.sll_family = libc::AF_PACKET as u16;
            sll.sll_protocol = (if self.udp { 0x0800u16 } else { ETHERTYPE }).to_be();
            sll.sll_ifindex = self.ifindex;
            sll.sll_halen = 6;
            sll.sll_addr[..6].copy_from_slice(if self.udp { &IP_MCAST_MAC } else { &PTP_MCAST });
            let n = libc::sendto(self.fd, data.as_ptr() as *const libc::c_void, data.len(), 0, &sll as *const _ as *const libc::sockaddr, std::mem::size_of::<libc::sockaddr_ll>() as u32);
            n == data.len() as isize
        }
    }
    /// send and return the kernel's software transmit timestamp (system time, ns) of the frame, if it arrives in time
    pub fn send_ts(&self, ptp: &[u8]) -> Option<u128> {
        // drop stale entries of the error queue
        while self.read_errqueue().is_some() {}
        if !self.send(ptp) {
            return None;
        }
        let t0 = Instant::now();
        while t0.elapsed() < Duration::from_millis(3) {
            if let Some(ts) = self.read_errqueue() {
                return Some(ts);
            }
            std::thread::sleep(Duration::from_micros(20));
        }
        None
    }

    fn read_errqueue(&self) -> Option<u128> {
        unsafe {
            let mut buf = [0u8; 256];
            let mut iov = libc::iovec { iov_base: buf.as_mut_ptr() as *mut libc::c_void, iov_len: buf.len() };
            let mut ctrl = [0u64; 32];
            let mut mh: libc::msghdr = std::mem::zeroed();
            mh.msg_iov = &mut iov;
            mh.msg_iovlen = 1;
            mh.msg_control = ctrl.as_mut_ptr() as *mut libc::c_void;
            mh.msg_controllen = std::mem::size_of_val(&ctrl) as _;
            let n = libc::recvmsg(self.fd, &mut mh, libc::MSG_ERRQUEUE | libc::MSG_DONTWAIT);
            if n < 0 {
                return None;
            }
            let mut c = libc::CMSG_FIRSTHDR(&mh);
            let mut out = None;
            while !c.is_null() {
                if (*c).cmsg_level == libc::SOL_SOCKET && (*c).cmsg_type == libc::SCM_TIMESTAMPING {
                    let ts: libc::timespec = std::ptr::read_unaligned(libc::CMSG_DATA(c) as *const libc::timespec);
                    out = Some(ts.tv_sec as u128 * 1_000_000_000 + ts.tv_nsec as u128);
                }
                c = libc::CMSG_NXTHDR(&mh, c);
            }
            out.or(Some(0)).filter(|x| *x != 0)
        }
    }

    /// next frame that arrived on the interface (frames we sent ourselves are skipped)
    pub fn recv(&self) -> Option<Vec<u8>> {
        self.recv_ts().map(|x| x.0)
    }

    /// frames the kernel dropped at this socket since the last call (receive queue full): the harness then has not
    /// seen everything that was on the wire
    pub fn dropped(&self) -> u32 {
        unsafe {
            let mut st: [u32; 2] = [0; 2]; // struct tpacket_stats { tp_packets, tp_drops }
            let mut len: libc::socklen_t = 8;
            if libc::getsockopt(self.fd, libc::SOL_PACKET, libc::PACKET_STATISTICS, st.as_mut_ptr() as *mut libc::c_void, &mut len) == 0 {
                st[1]
            } else {
                0
            }
        }
    }

    /// like `recv`, with the kernel's receive timestamp (system time, ns) of the frame
    pub fn recv_ts(&self) -> Option<(Vec<u8>, u128)> {
        let mut buf = vec![0u8; 4096];
        loop {
            unsafe {
                let mut sll: libc::sockaddr_ll = std::mem::zeroed();
                let mut iov = libc::iovec { iov_base: buf.as_mut_ptr() as *mut libc::c_void, iov_len: buf.len() };
                let mut ctrl = [0u64; 16];
                let mut mh: libc::msghdr = std::mem::zeroed();
                mh.msg_name = &mut sll as *mut _ as *mut libc::c_void;
                mh.msg_namelen = std::mem::size_of::<libc::sockaddr_ll>() as u32;
                mh.msg_iov = &mut iov;
                mh.msg_iovlen = 1;
                mh.msg_control = ctrl.as_mut_ptr() as *mut libc::c_void;
                mh.msg_controllen = std::mem::size_of_val(&ctrl) as _;
                let n = libc::recvmsg(self.fd, &mut mh, 0);
                if n < 0 {
                    return None;
                }
                let mut at = now_ns();
                let mut c = libc::CMSG_FIRSTHDR(&mh);
                while !c.is_null() {
                    if (*c).cmsg_level == libc::SOL_SOCKET && ((*c).cmsg_type == libc::SCM_TIMESTAMPNS || (*c).cmsg_type == libc::SCM_TIMESTAMPING) {
                        // SCM_TIMESTAMPING carries three timespecs, the first is the software one
                        let ts: libc::timespec = std::ptr::read_unaligned(libc::CMSG_DATA(c) as *const libc::timespec);
                        if ts.tv_sec != 0 {
                            at = ts.tv_sec as u128 * 1_000_000_000 + ts.tv_nsec as u128;
                        }
                    }
                    c = libc::CMSG_NXTHDR(&mh, c);
                }
                if sll.sll_pkttype == 4 {
                    continue; // PACKET_OUTGOING
                }
                let f = &buf[..n as usize];
                if !self.udp {
                    return Some((f.to_vec(), at));
                }
                // IPv4 / UDP to port 319 or 320
                if f.len() < 28 || f[0] >> 4 != 4 || f[9] != 17 {
                    continue;
                }
                let ihl = ((f[0] & 0xf) as usize) * 4;
                if f.len() < ihl + 8 {
                    continue;
                }
                let dport = ((f[ihl + 2] as u16) << 8) | f[ihl + 3] as u16;
                if dport != 319 && dport != 320 {
                    continue;
                }
                let ulen = (((f[ihl + 4] as usize) << 8) | f[ihl + 5] as usize).min(f.len() - ihl);
                if ulen < 8 {
                    continue;
                }
                return Some((f[ihl + 8..ihl + ulen].to_vec(), at));
            }
        }
    }
}

impl Drop for PSock {
    fn drop(&mut self) {
        unsafe {
            libc::close(self.fd);
        }
    }
}

/// connect to a Unix stream socket without ever blocking (a listener that no longer accepts lets a blocking
/// connect hang for ever once its backlog is full); None if the connection is not established at once
fn connect_unix_nonblocking(path: &std::path::Path) -> Option<UnixStream> {
    use std::os::fd::FromRawFd;
    use std::os::unix::ffi::OsStrExt;
    unsafe {
        let fd = libc::socket(libc::AF_UNIX, libc::SOCK_STREAM | libc::SOCK_NONBLOCK | libc::SOCK_CLOEXEC, 0);
        if fd < 0 {
            return None;
        }
        let mut addr: libc::sockaddr_un = std::mem::zeroed();
        addr.sun_family = libc::AF_UNIX as u16;
        let b = path.as_os_str().as_bytes();
        if b.len() >= addr.sun_path.len() {
            libc::close(fd);
            return None;
        }
        for (i, c) in b.iter().enumerate() {
            addr.sun_path[i] = *c as libc::c_char;
        }
        let r = libc::connect(fd, &addr as *const _ as *const libc::sockaddr, std::mem::size_of::<libc::sockaddr_un>() as u32);
        if r != 0 {
            libc::close(fd);
            return None;
        }
        // back to blocking mode (reads are bounded by the read time-out)
        let fl = libc::fcntl(fd, libc::F_GETFL);
        libc::fcntl(fd, libc::F_SETFL, fl & !libc::O_NONBLOCK);
        Some(UnixStream::from_raw_fd(fd))
    }
}

/// read a daemon's observation socket (never blocks for more than the read time-out)
pub fn observe_at(path: &std::path::Path) -> Option<statime_linux::metrics::exporter::ObservableState> {
    let mut s = connect_unix_nonblocking(path)?;
    s.set_read_timeout(Some(Duration::from_millis(200))).ok()?;
    let mut v = vec![];
    s.read_to_end(&mut v).ok()?;
    serde_json::from_slice(&v).ok()
}

fn wait_readable(fds: &[i32], timeout: Duration) {
    let mut p: Vec<libc::pollfd> = fds.iter().map(|fd| libc::pollfd { fd: *fd, events: libc::POLLIN, revents: 0 }).collect();
    unsafe {
        libc::poll(p.as_mut_ptr(), p.len() as u64, timeout.as_millis().min(1000) as i32);
    }
}

// ---------------------------------------------------------------- worker world

pub fn sh(cmd: &str) -> Result<(), String> {
    let o = Command::new("sh").arg("-c").arg(cmd).output().map_err(|e| e.to_string())?;
    if o.status.success() {
        Ok(())
    } else {
        Err(format!("`{}` failed: {}", cmd, String::from_utf8_lossy(&o.stderr).trim()))
    }
}

pub struct SentTlv {
    pub at: Instant,
    pub sender: PortId,
    pub tlv: RTlv,
}

pub struct SeenAnnounce {
    pub at: Instant,
    pub msg: RMsg,
}

/// configuration of one worker's daemon
#[derive(Clone, Copy, Debug)]
pub struct Variant {
    pub path_trace: bool,
    pub udp: bool,
    /// the parent lives on port 2's segment (the daemon's slave port is then port 2, its master port port 1)
    pub swap: bool,
    /// both ports use the peer-to-peer delay mechanism
    pub p2p: bool,
    /// the instance's sdoId and domain number (default 0/0; every third worker runs 0x1a5 / 7)
    pub sdo: u16,
    pub domain: u8,
    /// bit 2 of the worker index (decides `swap`, for C12 `p2p`)
    pub alt: bool,
    /// both ports have an acceptable master list naming the parent, the other master and responder R1 only (C14, odd
    /// workers)
    pub aml: bool,
    /// announce receipt timeout of 8 instead of 3 intervals (C14: a port that has left Faulty then stays Listening
    /// for about a second)
    pub long_timeout: bool,
    /// the port that is not on the parent's segment announces once per second instead of eight times (C06, workers
    /// 4..7): the BMCA must still run at the pace of the faster port
    pub slow_other_port: bool,
    /// configured delay-asymmetry of both ports in ns (C09: 0, -2 ms, +1.5 ms, +12.345678 ms by worker index mod 4)
    pub asym_ns: i64,
    /// configured priority1 of the daemon (C05: 128, 127, 129, 128 by worker index mod 4)
    pub own_p1: u8,
    /// configured priority2 of the daemon (C05: 128, 128, 127, 129 by worker index mod 4)
    pub own_p2: u8,
    /// C08, workers 4..7: the instance is configured slave-only (4, 6); the port on the second segment (5, 6) or on
    /// the first (7) is configured master-only
    pub slave_only: bool,
    pub master_only: Option<char>,
    /// C05, workers 6 and 7: the port on the first segment has an empty acceptable master list (it follows nobody)
    pub empty_aml_a: bool,
    /// C05: the world is ready as soon as the daemon answers on its observation socket and has run for 1.5 s, in
    /// whatever states (the case itself judges them)
    pub lenient_establish: bool,
    /// configured log sync interval of both ports (C12, odd workers: -4, i.e. twice the announce rate; else that of
    /// the announce interval)
    pub sync_log: i8,
    /// configured minorVersionPTP of both ports (C10, odd workers: 0; else the default 1)
    pub minor_version: u8,
}

impl Variant {
    pub fn from_index(first: u64, prop: &str) -> Variant {
        let alt = (first / 4) % 2 == 1;
        let other_domain = first % 3 == 1;
        Variant { path_trace: first % 2 == 1, udp: (first / 2) % 2 == 1, swap: alt && prop != "C12" && prop != "C06" && prop != "C09" && prop != "C08", p2p: (alt && (prop == "C12" || prop == "C09")) || prop == "C14", sdo: if other_domain { 0x1a5 } else { 0 }, domain: if other_domain { 7 } else { 0 }, alt, aml: (prop == "C14" || prop == "C07") && first % 2 == 1, long_timeout: prop == "C14", slow_other_port: prop == "C06" && alt, asym_ns: if prop == "C09" { [0i64, -2_000_000, 1_500_000, 12_345_678][(first % 4) as usize] } else { 0 }, own_p1: if prop == "C05" { [128u8, 127, 129, 128][(first % 4) as usize] } else { 128 }, own_p2: if prop == "C05" { [128u8, 128, 127, 129][(first % 4) as usize] } else { 128 }, slave_only: prop == "C08" && alt && first % 2 == 0, master_only: if prop == "C08" && alt { [None, Some('b'), Some('b'), Some('a')][(first % 4) as usize] } else if prop == "C07" && alt { Some('b') } else { None }, empty_aml_a: prop == "C05" && first % 8 >= 6, lenient_establish: prop == "C05", sync_log: if prop == "C12" && first % 2 == 1 { ANN_LOG - 1 } else { ANN_LOG }, minor_version: if prop == "C10" && first % 2 == 1 { 0 } else { 1 } }
    }
    pub fn index(&self) -> u64 {
        self.path_trace as u64 + 2 * self.udp as u64 + 4 * self.alt as u64
    }
    pub fn from_render(v: &Value, prop: &str) -> Variant {
        let alt = v["variant_alt"].as_bool().unwrap_or(false);
        let mut var = Variant { path_trace: v["path_trace"].as_bool().unwrap_or(false), udp: v["transport"].as_str() == Some("udp-ipv4"), swap: alt && prop != "C12" && prop != "C06" && prop != "C09" && prop != "C08", p2p: (alt && (prop == "C12" || prop == "C09")) || prop == "C14", sdo: 0, domain: 0, alt, aml: false, long_timeout: prop == "C14", slow_other_port: prop == "C06" && alt, asym_ns: 0, own_p1: 128, own_p2: 128, slave_only: false, master_only: None, empty_aml_a: false, lenient_establish: prop == "C05", sync_log: ANN_LOG, minor_version: 1 };
        // sdoId / domain are a function of the worker index
        let again = Variant::from_index(var.index(), prop);
        var.sdo = again.sdo;
        var.domain = again.domain;
        var.aml = again.aml;
        var.asym_ns = again.asym_ns;
        var.own_p1 = again.own_p1;
        var.own_p2 = again.own_p2;
        var.slave_only = again.slave_only;
        var.empty_aml_a = again.empty_aml_a;
        var.sync_log = again.sync_log;
        var.minor_version = again.minor_version;
        var.master_only = again.master_only;
        var
    }
}

/// what the harness does with one Pdelay_Req of the daemon
#[derive(Clone, Copy, Debug, PartialEq)]
pub enum PdAnswer {
    /// responder R1 answers (two-step or one-step) with this turnaround time (t3 - t2, ns; may be negative to emulate
    /// a longer link)
    Clean { two_step: bool, turnaround_ns: i64 },
    /// responder R1 and a second responder R2 both answer
    TwoResponders,
    /// nobody answers
    Silent,
}

pub struct World {
    pub dir: PathBuf,
    pub variant: Variant,
    /// index (0/1) of the daemon port on the parent's segment, i.e. the one that becomes slave
    pub slave_idx: usize,
    /// the harness also plays the master's part of the timing exchange (two-step Sync, Delay_Resp), emulating
    /// a symmetric link of `link_delay_ns`
    pub emulate_master: bool,
    pub link_delay_ns: u64,
    /// the emulated grandmaster's clock = system time + offset + drift x (system time - epoch)
    pub gm_offset_ns: i128,
    pub gm_drift_ppm: f64,
    pub gm_epoch_ns: u128,
    /// the emulated master's exchanges: Syncs sent (sequence id, kernel transmit time in system ns, origin timestamp
    /// put into the Follow_Up) and Delay_Reqs answered (sequence id, kernel receive time, receive timestamp replied)
    pub syncs_sent: Vec<(u16, u128, u128)>,
    pub dreqs_answered: Vec<(u16, u128, u128)>,
    sync_seq: u16,
    pub delay_resps_sent: u64,
    /// how the harness answers the Pdelay_Req frames of the daemon's port on the parent's segment (P2P variant)
    pub pd_plan: VecDeque<PdAnswer>,
    pub pd_default: Option<PdAnswer>,
    /// (request id, expected 2 x peer delay in ns from the harness's own timestamps, what was done)
    pub pd_log: Vec<(u16, Option<i128>, PdAnswer)>,
    /// poll the observation socket this often from the event loop and apply `obs_invariants` (problems collected)
    pub poll_obs_ms: Option<u64>,
    next_poll: Instant,
    pub obs_polls: u64,
    pub obs_problems: Vec<String>,
    pub obs_misses: u32,
    /// the parent's Announces are `versioned_ann`s (enables the cross-data-set version test of `obs_invariants`)
    pub versioned: bool,
    daemon: Child,
    a1: PSock,
    b1: PSock,
    pub path_trace: bool,
    pub udp: bool,
    seq_parent: u16,
    seq_other: u16,
    pub next_parent: Instant,
    /// TLV lists waiting to ride on the parent's next Announces (one entry per Announce)
    pub parent_plan: VecDeque<(Vec<RTlv>, u64)>,
    pub sent: Vec<SentTlv>,
    /// Announces the daemon emitted on its port 2 (seen at b1)
    pub seen_b: Vec<SeenAnnounce>,
    pub seen_a_master_traffic: u64,
    pub own_identity: [u8; 8],
    /// what the parent announces (contents and flag octet 1)
    pub parent_ann: RAnnounce,
    pub parent_flags1: u8,
    /// PATH_TRACE TLV the parent attaches to its Announces (its own upstream path), if any
    pub parent_path: Option<Vec<[u8; 8]>>,
    /// system time (ns) at which the parent's latest Announce was handed to the kernel
    pub last_parent_tx_ns: u128,
    /// the path the daemon holds: the last one the parent actually sent (Announces without the TLV leave it alone)
    pub effective_path: Vec<[u8; 8]>,
    /// Delay_Resp frames the daemon's port 2 emitted (sequence ids), and everything else it sent there, by type
    pub seen_b_delay_resp: Vec<u16>,
    pub seen_b_by_type: [u64; 16],
    /// Delay_Req frames the daemon's port 1 (slave) emitted
    pub seen_a_delay_req: Vec<u16>,
    /// arrival times of frames the daemon sent: (port 'a'/'b', message type, when)
    pub log: Vec<(char, u8, Instant)>,
    /// when set: every frame the daemon sends on the master side, with the system time (ns) at which it was read
    pub keep_frames: bool,
    pub frames_b: Vec<(u128, RMsg)>,
    /// C07: frames (bytes, patch) to put between the emulated master's Sync and its Follow_Up ({SEQ} = bytes 30..32 are
    /// overwritten with the Sync's sequence id), and ahead of its next Delay_Resp (sequence id of the request likewise)
    pub noise_before_fup: Vec<(Vec<u8>, bool)>,
    pub noise_before_dresp: Vec<(Vec<u8>, bool)>,
    /// clock identities seen as source of frames on the daemon's master-side segment other than the configured one
    /// (nothing else sends there except the harness, whose own frames are not captured)
    pub unexpected_sources: BTreeSet<[u8; 8]>,
    /// grandmaster identities named by the Announces the daemon itself sent on the parent's segment (when, which)
    pub a_announces: Vec<(Instant, [u8; 8])>,
}

impl World {
    /// network devices of the worker's private namespace (once per worker)
    pub fn setup_links() -> Result<(), String> {
        sh("ip link set lo up")?;
        sh("ip link add a0 type veth peer name a1 && ip link add b0 type veth peer name b1")?;
        sh("ip link set a0 address 00:1b:19:aa:00:01 && ip link set b0 address 00:1b:19:aa:00:02")?;
        sh("for i in a0 a1 b0 b1; do ip link set $i up; done")?;
        // addresses for the UDP transport: only the daemon's side has any (the harness forges its source address)
        sh("ip addr add 10.9.0.1/24 dev a0 && ip addr add 10.9.1.1/24 dev b0")?;
        let _ = sh("sysctl -q -w net.ipv4.conf.all.rp_filter=0 net.ipv4.conf.a0.rp_filter=0 net.ipv4.conf.b0.rp_filter=0");
        Ok(())
    }

    pub fn start(variant: Variant) -> Result<World, String> {
        let (path_trace, udp) = (variant.path_trace, variant.udp);
        static GEN: std::sync::atomic::AtomicU64 = std::sync::atomic::AtomicU64::new(0);
        let dir = std::env::temp_dir().join(format!("vcheck-e2e-{}-{}", std::process::id(), GEN.fetch_add(1, std::sync::atomic::Ordering::Relaxed)));
        std::fs::create_dir_all(&dir).map_err(|e| e.to_string())?;
        let cfg = format!(
            "loglevel = \"{ll}\"\nsdo-id = {sdo}\ndomain = {dom}\npriority1 = {p1}\npriority2 = {p2}\nidentity = \"001b19aa0001beef\"\nvirtual-system-clock = true\npath-trace = {}\n{inst}\n[[port]]\ninterface = \"a0\"\nnetwork-mode = \"{nm}\"\nhardware-clock = \"none\"\nannounce-interval = {l}\nsync-interval = {sl}\ndelay-interval = -2\ndelay-mechanism = \"{dm}\"\n{aml}{xa}\n[[port]]\ninterface = \"b0\"\nnetwork-mode = \"{nm}\"\nhardware-clock = \"none\"\nannounce-interval = {lb}\nsync-interval = {sl}\ndelay-interval = -2\ndelay-mechanism = \"{dm}\"\n{aml}{xb}\n[observability]\nobservation-path = \"{}\"\n",
            path_trace,
            dir.join("obs.sock").display(),
            l = ANN_LOG,
            ll = std::env::var("VERIF_E2E_LOGLEVEL").unwrap_or_else(|_| "info".into()),
            nm = if udp { "ipv4" } else { "ethernet" },
            dm = if variant.p2p { "P2P" } else { "E2E" },
            sdo = variant.sdo,
            dom = variant.domain,
            p1 = variant.own_p1,
            p2 = variant.own_p2,
            sl = variant.sync_log,
            inst = if variant.slave_only { "slave-only = true\n" } else { "" },
            xa = format!("{}{}{}", if variant.minor_version != 1 { format!("minor-ptp-version = {}\n", variant.minor_version) } else { String::new() }, if variant.master_only == Some(if variant.swap { 'b' } else { 'a' }) { "master-only = true\n" } else { "" }, if variant.empty_aml_a && !variant.swap { "acceptable-master-list = []\n" } else { "" }),
            xb = format!("{}{}{}", if variant.minor_version != 1 { format!("minor-ptp-version = {}\n", variant.minor_version) } else { String::new() }, if variant.master_only == Some(if variant.swap { 'a' } else { 'b' }) { "master-only = true\n" } else { "" }, if variant.empty_aml_a && variant.swap { "acceptable-master-list = []\n" } else { "" }),
            lb = if variant.slow_other_port { 0 } else { ANN_LOG },
            aml = format!("{}{}{}", if variant.asym_ns != 0 { format!("delay-asymmetry = {}\n", variant.asym_ns) } else { String::new() }, if variant.aml { "acceptable-master-list = [\"001b19cc00000002\", \"001b19cc00000007\", \"001b19cc00000021\"]\n" } else { "" }, if variant.long_timeout { "announce-receipt-timeout = 8\n" } else { "" })
        );
        std::fs::write(dir.join("statime.toml"), cfg).map_err(|e| e.to_string())?;
        let log = std::fs::File::create(dir.join("daemon.log")).map_err(|e| e.to_string())?;
        let mut dcmd = Command::new(daemon_binary());
        unsafe {
            use std::os::unix::process::CommandExt;
            dcmd.pre_exec(|| {
                libc::prctl(libc::PR_SET_PDEATHSIG, libc::SIGKILL);
                Ok(())
            });
        }
        let daemon = dcmd.arg("-c").arg(dir.join("statime.toml")).stdin(Stdio::null()).stdout(log.try_clone().map_err(|e| e.to_string())?).stderr(log).spawn().map_err(|e| format!("spawn daemon: {}", e))?;
        // "a" is the parent's segment, "b" the other one
        let (ifa, ifb) = if variant.swap { ("b1", "a1") } else { ("a1", "b1") };
        let mut a1 = PSock::open(ifa, udp)?;
        let mut b1 = PSock::open(ifb, udp)?;
        a1.sdo = variant.sdo;
        a1.domain = variant.domain;
        b1.sdo = variant.sdo;
        b1.domain = variant.domain;
        let mut w = World {
            dir,
            variant,
            slave_idx: if variant.swap { 1 } else { 0 },
            emulate_master: false,
            link_delay_ns: 100_000,
            gm_offset_ns: 0,
            gm_drift_ppm: 0.0,
            gm_epoch_ns: now_ns(),
            syncs_sent: vec![],
            dreqs_answered: vec![],
            sync_seq: 0,
            delay_resps_sent: 0,
            pd_plan: VecDeque::new(),
            pd_default: None,
            pd_log: vec![],
            poll_obs_ms: None,
            next_poll: Instant::now(),
            obs_polls: 0,
            obs_problems: vec![],
            obs_misses: 0,
            versioned: false,
            daemon,
            a1,
            b1,
            path_trace,
            udp,
            seq_parent: 100,
            seq_other: 7,
            next_parent: Instant::now(),
            parent_plan: VecDeque::new(),
            sent: vec![],
            seen_b: vec![],
            seen_a_master_traffic: 0,
            // deliberately not what the daemon would derive from the MAC address of its first interface
            own_identity: [0x00, 0x1b, 0x19, 0xaa, 0x00, 0x01, 0xbe, 0xef],
            parent_ann: default_parent_ann(),
            parent_flags1: 0,
            parent_path: None,
            last_parent_tx_ns: 0,
            effective_path: vec![],
            seen_b_delay_resp: vec![],
            seen_b_by_type: [0; 16],
            seen_a_delay_req: vec![],
            log: vec![],
            keep_frames: false,
            frames_b: vec![], noise_before_fup: vec![], noise_before_dresp: vec![],
            unexpected_sources: BTreeSet::new(),
            a_announces: vec![],
        };
        w.establish()?;
        Ok(w)
    }

    pub fn alive(&mut self) -> bool {
        matches!(self.daemon.try_wait(), Ok(None))
    }

    pub fn parent_announce(&mut self, tlvs: Vec<RTlv>) {
        self.seq_parent = self.seq_parent.wrapping_add(1);
        let mut m = announce_from(PARENT, self.seq_parent, self.parent_ann, 0, 0);
        m.header.log_interval = ANN_LOG;
        m.header.flags[1] = self.parent_flags1;
        m.tlvs = tlvs.clone();
        if let Some(p) = &self.parent_path {
            m.tlvs.insert(0, RTlv { typ: 0x0008, value: p.iter().flat_map(|c| c.iter().copied()).collect() });
        }
        let now = Instant::now();
        self.last_parent_tx_ns = now_ns();
        if self.a1.send(&m.encode()) {
            for t in tlvs {
                self.sent.push(SentTlv { at: now, sender: PARENT, tlv: t });
            }
        }
    }

    /// an Announce of a worse master on the same segment, with TLVs that must never be forwarded
    pub fn other_announce(&mut self, tlvs: Vec<RTlv>) {
        self.seq_other = self.seq_other.wrapping_add(1);
        let mut ann = simple_announce(OTHER.clock, 120, 248, 0);
        ann.gm_identity = OTHER.clock;
        let mut m = announce_from(OTHER, self.seq_other, ann, 0, 0);
        m.header.log_interval = ANN_LOG;
        m.tlvs = tlvs.clone();
        let now = Instant::now();
        if self.a1.send(&m.encode()) {
            for t in tlvs {
                self.sent.push(SentTlv { at: now, sender: OTHER, tlv: t });
            }
        }
    }

    fn drain(&mut self) {
        while let Some((f, at)) = self.b1.recv_ts() {
            if let Ok(m) = decode(&f) {
                if m.header.source.clock == self.own_identity {
                    if self.keep_frames {
                        self.frames_b.push((at, m.clone()));
                    }
                    self.log.push(('b', m.header.msg_type, Instant::now()));
                    self.seen_b_by_type[(m.header.msg_type & 0xf) as usize] += 1;
                    if m.header.msg_type == T_DELAY_RESP {
                        self.seen_b_delay_resp.push(m.header.seq);
                    }
                }
                if m.header.source.clock != self.own_identity {
                    self.unexpected_sources.insert(m.header.source.clock);
                }
                if m.header.msg_type == T_ANNOUNCE {
                    self.seen_b.push(SeenAnnounce { at: Instant::now(), msg: m });
                }
            }
        }
        while let Some((f, at_a)) = self.a1.recv_ts() {
            if let Ok(m) = decode(&f) {
                if m.header.source.clock == self.own_identity {
                    self.log.push(('a', m.header.msg_type, Instant::now()));
                    if let Some(a) = m.announce() {
                        self.a_announces.push((Instant::now(), a.gm_identity));
                    }
                }
                if matches!(m.header.msg_type, T_ANNOUNCE | T_SYNC | T_FOLLOW_UP) && m.header.source.clock == self.own_identity {
                    self.seen_a_master_traffic += 1;
                }
                if m.header.msg_type == T_PDELAY_REQ && m.header.source.clock == self.own_identity {
                    if let Some(ans) = self.pd_plan.pop_front().or(self.pd_default) {
                        let r1 = PortId { clock: [0x00, 0x1b, 0x19, 0xcc, 0, 0, 0, 0x21], port: 1 };
                        let r2 = PortId { clock: [0x00, 0x1b, 0x19, 0xcc, 0, 0, 0, 0x22], port: 1 };
                        let mut expect = None;
                        let mut answer = |w: &mut World, who: PortId, two_step: bool, turnaround: i64| -> Option<u128> {
                            let t2 = at_a; // kernel receive time of the request = requestReceiptTimestamp
                            if two_step {
                                let mut r = RMsg::new(T_PDELAY_RESP, who, m.header.seq, RBody::PdelayResp { receipt: RTs::from_ns(t2), requesting: m.header.source });
                                r.header.set_flag(F_TWO_STEP, true);
                                let sent = w.a1.send_ts(&r.encode());
                                let t3 = (t2 as i128 + turnaround as i128).max(0) as u128;
                                let f = RMsg::new(T_PDELAY_RESP_FUP, who, m.header.seq, RBody::PdelayRespFup { response_origin: RTs::from_ns(t3), requesting: m.header.source });
                                w.a1.send(&f.encode());
                                sent
                            } else {
                                let mut r = RMsg::new(T_PDELAY_RESP, who, m.header.seq, RBody::PdelayResp { receipt: RTs::default(), requesting: m.header.source });
                                r.header.correction = turnaround << 16;
                                w.a1.send_ts(&r.encode())
                            }
                        };
                        match ans {
                            PdAnswer::Clean { two_step, turnaround_ns } => {
                                if let Some(sent) = answer(self, r1, two_step, turnaround_ns) {
                                    // 2 x delay as the daemon must compute it: (t4 - t1) - (t3 - t2), with t1 ~ the kernel
                                    // arrival of the request here and t4 ~ the kernel departure of the response
                                    expect = Some(sent as i128 - at_a as i128 - turnaround_ns as i128);
                                }
                            }
                            PdAnswer::TwoResponders => {
                                answer(self, r1, true, 1000);
                                answer(self, r2, true, 1000);
                            }
                            PdAnswer::Silent => {}
                        }
                        self.pd_log.push((m.header.seq, expect, ans));
                    }
                }
                if m.header.msg_type == T_DELAY_REQ && m.header.source.clock == self.own_identity {
                    self.seen_a_delay_req.push(m.header.seq);
                    if self.emulate_master {
                        // as if it had arrived one link delay from now
                        let t4 = self.gm_clock(at_a) + self.link_delay_ns as u128;
                        if self.dreqs_answered.len() < 100_000 {
                            self.dreqs_answered.push((m.header.seq, at_a, t4));
                        }
                        if let Some((mut b, patch)) = self.noise_before_dresp.pop() {
                            if b.len() >= 32 {
                                b[30..32].copy_from_slice(&m.header.seq.to_be_bytes());
                            }
                            self.a1.send_bytes(&b, patch);
                        }
                        let r = RMsg::new(T_DELAY_RESP, PARENT, m.header.seq, RBody::DelayResp { receive: RTs::from_ns(t4), requesting: m.header.source });
                        self.a1.send(&r.encode());
                        self.delay_resps_sent += 1;
                    }
                }
            }
        }
    }

    /// run the event loop until `deadline`: the parent keeps announcing (plan entries first, then plain
    /// Announces every announce interval), frames from the daemon are collected
    /// one poll of the observation socket with the consistency invariants
    pub fn poll_observation(&mut self) {
        self.obs_polls += 1;
        match self.observe() {
            None => {
                if self.alive() {
                    self.obs_problems.push("observation socket did not deliver a parsable state".into());
                }
                // a socket that no longer answers costs a read time-out per poll: stop polling after three misses
                self.obs_misses += 1;
                if self.obs_misses >= 3 {
                    self.poll_obs_ms = None;
                }
            }
            Some(st) => {
                if let Some(p) = obs_invariants(&st, self.own_identity, self.versioned) {
                    if self.obs_problems.len() < 8 {
                        self.obs_problems.push(p);
                    }
                }
            }
        }
    }

    pub fn run_until(&mut self, deadline: Instant) {
        loop {
            self.drain();
            let now = Instant::now();
            if let Some(ms) = self.poll_obs_ms {
                if now >= self.next_poll {
                    self.next_poll = now + Duration::from_millis(ms);
                    self.poll_observation();
                }
            }
            if now >= self.next_parent {
                let (tlvs, gap) = self.parent_plan.pop_front().unwrap_or((vec![], ANN_MS));
                self.parent_announce(tlvs);
                if self.emulate_master {
                    self.emulate_sync();
                }
                self.next_parent = now + Duration::from_millis(gap);
                continue;
            }
            if now >= deadline {
                break;
            }
            let until = self.next_parent.min(deadline);
            wait_readable(&[self.a1.fd, self.b1.fd], until.saturating_duration_since(now));
        }
    }

    /// run until the plan is used up (plus `extra`)
    pub fn run_plan(&mut self, extra: Duration) {
        while !self.parent_plan.is_empty() {
            let d = Instant::now() + Duration::from_millis(20);
            self.run_until(d);
        }
        let d = Instant::now() + extra;
        self.run_until(d);
    }

    /// frames lost at the harness's own sockets since the last call
    pub fn capture_drops(&self) -> u32 {
        self.a1.dropped() + self.b1.dropped()
    }

    pub fn send_a(&self, m: &RMsg) -> bool {
        self.a1.send(&m.encode())
    }
    pub fn send_b(&self, m: &RMsg) -> bool {
        self.b1.send(&m.encode())
    }

    pub fn observe(&self) -> Option<statime_linux::metrics::exporter::ObservableState> {
        observe_at(&self.dir.join("obs.sock"))
    }

    /// (state of the port on the parent's segment, state of the other port) as rendered by Debug
    pub fn port_states(&self) -> Option<(String, String)> {
        let o = self.observe()?;
        let p = &o.instance.port_ds;
        if p.len() != 2 {
            return None;
        }
        Some((format!("{:?}", p[self.slave_idx].port_state), format!("{:?}", p[1 - self.slave_idx].port_state)))
    }

    /// mean-delay values (ns) of the filter-state lines the daemon logged after byte offset `mark` of its log
    pub fn logged_delays_since(&self, mark: u64) -> Vec<f64> {
        use std::io::{Seek, SeekFrom};
        let mut v = vec![];
        let Ok(mut f) = std::fs::File::open(self.dir.join("daemon.log")) else { return v };
        if f.seek(SeekFrom::Start(mark)).is_err() {
            return v;
        }
        let mut s = String::new();
        let mut bytes = vec![];
        if f.read_to_end(&mut bytes).is_err() {
            return v;
        }
        s.push_str(&String::from_utf8_lossy(&bytes));
        for line in s.lines() {
            let Some(p) = line.find("Estimated offset") else { continue };
            let Some(q) = line[p..].find(", delay ") else { continue };
            let rest = &line[p + q + 8..];
            let num: String = rest.chars().take_while(|c| c.is_ascii_digit() || *c == '.' || *c == '-' || *c == 'e' || *c == 'E' || *c == '+').collect();
            // the value is followed by "+-<uncertainty>": cut at the first '+' that is not part of an exponent
            let num = match num.find("+-") {
                Some(k) => num[..k].to_string(),
                None => num.trim_end_matches('+').to_string(),
            };
            if let Ok(x) = num.parse::<f64>() {
                v.push(x);
            }
        }
        v
    }

    /// (event time ns, raw sync offset ns, raw delay offset ns) of the measurements the daemon logged after `mark`
    pub fn logged_measurements_since(&self, mark: u64) -> Vec<(f64, Option<f64>, Option<f64>)> {
        use std::io::{Seek, SeekFrom};
        let mut v = vec![];
        let Ok(mut f) = std::fs::File::open(self.dir.join("daemon.log")) else { return v };
        if f.seek(SeekFrom::Start(mark)).is_err() {
            return v;
        }
        let mut bytes = vec![];
        if f.read_to_end(&mut bytes).is_err() {
            return v;
        }
        let num_after = |line: &str, key: &str| -> Option<f64> {
            let p = line.find(key)?;
            let rest = &line[p + key.len()..];
            let n: String = rest.chars().take_while(|c| c.is_ascii_digit() || *c == '.' || *c == '-').collect();
            n.parse::<f64>().ok()
        };
        for line in String::from_utf8_lossy(&bytes).lines() {
            if !line.contains("Measurement: Measurement {") {
                continue;
            }
            let Some(ev) = num_after(line, "event_time: Time { inner: ") else { continue };
            let rso = num_after(line, "raw_sync_offset: Some(Duration { inner: ");
            let rdo = num_after(line, "raw_delay_offset: Some(Duration { inner: ");
            v.push((ev, rso, rdo));
        }
        v
    }

    /// does the daemon's log contain `needle` after byte offset `mark`?
    pub fn log_contains_since(&self, mark: u64, needle: &str) -> bool {
        use std::io::{Seek, SeekFrom};
        let Ok(mut f) = std::fs::File::open(self.dir.join("daemon.log")) else { return false };
        if f.seek(SeekFrom::Start(mark)).is_err() {
            return false;
        }
        let mut bytes = vec![];
        if f.read_to_end(&mut bytes).is_err() {
            return false;
        }
        String::from_utf8_lossy(&bytes).contains(needle)
    }

    /// peer-delay values (ns) of the measurements the daemon logged after byte offset `mark` of its log
    pub fn logged_peer_delays_since(&self, mark: u64) -> Vec<f64> {
        use std::io::{Seek, SeekFrom};
        let mut v = vec![];
        let Ok(mut f) = std::fs::File::open(self.dir.join("daemon.log")) else { return v };
        if f.seek(SeekFrom::Start(mark)).is_err() {
            return v;
        }
        let mut bytes = vec![];
        if f.read_to_end(&mut bytes).is_err() {
            return v;
        }
        for line in String::from_utf8_lossy(&bytes).lines() {
            let Some(p) = line.find("peer_delay: Some(Duration { inner: ") else { continue };
            let rest = &line[p + "peer_delay: Some(Duration { inner: ".len()..];
            let num: String = rest.chars().take_while(|c| c.is_ascii_digit() || *c == '.' || *c == '-').collect();
            if let Ok(x) = num.parse::<f64>() {
                v.push(x);
            }
        }
        v
    }

    /// port identity of the daemon's port on the parent's segment
    pub fn slave_port_id(&self) -> PortId {
        PortId { clock: self.own_identity, port: self.slave_idx as u16 + 1 }
    }

    /// reading of the emulated grandmaster's clock at system time `sys_ns`
    pub fn gm_clock(&self, sys_ns: u128) -> u128 {
        let el = sys_ns as i128 - self.gm_epoch_ns as i128;
        (sys_ns as i128 + self.gm_offset_ns + (el as f64 * self.gm_drift_ppm / 1e6) as i128).max(0) as u128
    }

    fn emulate_sync(&mut self) {
        self.sync_seq = self.sync_seq.wrapping_add(1);
        let mut m = RMsg::new(T_SYNC, PARENT, self.sync_seq, RBody::Sync { origin: RTs::default() });
        m.header.set_flag(F_TWO_STEP, true);
        m.header.log_interval = ANN_LOG;
        // as if it had left one link delay ago
        let sent_at = self.a1.send_ts(&m.encode()).unwrap_or_else(now_ns);
        let t1 = self.gm_clock(sent_at).saturating_sub(self.link_delay_ns as u128);
        if self.syncs_sent.len() < 100_000 {
            self.syncs_sent.push((self.sync_seq, sent_at, t1));
        }
        if let Some((mut b, patch)) = self.noise_before_fup.pop() {
            if b.len() >= 32 {
                b[30..32].copy_from_slice(&self.sync_seq.to_be_bytes());
            }
            self.a1.send_bytes(&b, patch);
        }
        let mut f = RMsg::new(T_FOLLOW_UP, PARENT, self.sync_seq, RBody::FollowUp { precise_origin: RTs::from_ns(t1) });
        f.header.log_interval = ANN_LOG;
        self.a1.send(&f.encode());
    }

    /// the states the ports have while only the usual parent announces: (Slave, Master) - unless configured otherwise
    pub fn steady_states(&self) -> (&'static str, &'static str) {
        (if self.variant.master_only == Some('a') || self.variant.empty_aml_a { "Master" } else { "Slave" }, if self.variant.slave_only { "Listening" } else { "Master" })
    }
    pub fn steady(&self) -> bool {
        let (wa, wb) = self.steady_states();
        matches!(self.port_states(), Some((a, b)) if a.starts_with(wa) && b.starts_with(wb))
    }

    fn establish(&mut self) -> Result<(), String> {
        let t0 = Instant::now();
        loop {
            if !self.alive() {
                let log = std::fs::read_to_string(self.dir.join("daemon.log")).unwrap_or_default();
                return Err(format!("daemon exited at start-up: {}", log.lines().rev().take(5).collect::<Vec<_>>().join(" | ")));
            }
            let d = Instant::now() + Duration::from_millis(150);
            self.run_until(d);
            if (self.steady() && (self.seen_b.len() >= 2 || self.steady_states().1 != "Master")) || (self.variant.lenient_establish && t0.elapsed() > Duration::from_millis(1500) && self.port_states().is_some()) {
                self.seen_b.clear();
                self.sent.clear();
                return Ok(());
            }
            if t0.elapsed() > Duration::from_secs(15) {
                return Err(format!("daemon did not become {:?} on the two segments within 15 s: {:?}", self.steady_states(), self.port_states()));
            }
        }
    }
}

impl Drop for World {
    fn drop(&mut self) {
        let _ = self.daemon.kill();
        let _ = self.daemon.wait();
        if std::env::var("VERIF_E2E_KEEP").is_err() {
            let _ = std::fs::remove_dir_all(&self.dir);
        }
    }
}

/// What every published observation must satisfy, whatever the daemon is doing: at most one slave port; a slave
/// port exists exactly when the parent is a foreign port and exactly when stepsRemoved > 0; and if the parent is
/// the harness's versioned parent (all fields of one Announce derived from one number k), all data sets show the
/// same k.
pub fn obs_invariants(st: &statime_linux::metrics::exporter::ObservableState, own: [u8; 8], versioned: bool) -> Option<String> {
    let i = &st.instance;
    let slaves = i.port_ds.iter().filter(|p| format!("{:?}", p.port_state).starts_with("Slave")).count();
    let foreign = i.parent_ds.parent_port_identity.clock_identity.0 != own;
    let steps = i.current_ds.steps_removed;
    if slaves > 1 || (slaves == 1) != foreign || foreign != (steps > 0) {
        return Some(format!("observation mixes two instants: {} slave port(s), parent {} the instance itself, stepsRemoved {} ; port states {:?}", slaves, if foreign { "is not" } else { "is" }, steps, i.port_ds.iter().map(|p| format!("{:?}", p.port_state)).collect::<Vec<_>>()));
    }
    if !versioned {
        return None;
    }
    let p = &i.parent_ds;
    let tp = &i.time_properties_ds;
    // version evidence outside parentDS: utc offset k (valid) with stepsRemoved k+1 and the time source of version k
    let ck = match tp.current_utc_offset {
        Some(u) if (1..=120).contains(&u) && steps == u as u16 + 1 && tp.time_source.to_primitive() == 0x10 * (1 + (u as u8) % 6) => Some(u as u8),
        _ => None,
    };
    let pk = if p.grandmaster_identity.0[..4] == [0x00, 0x1b, 0x19, 0xd7] { Some(p.grandmaster_identity.0[7]) } else { None };
    if p.parent_port_identity.clock_identity.0 == PARENT.clock && pk != ck && (pk.is_some() || ck.is_some()) {
        return Some(format!("observation mixes two updates: parentDS shows version {:?} of the parent's Announce, currentDS/timePropertiesDS version {:?}", pk, ck));
    }
    if p.parent_port_identity.clock_identity.0 == PARENT.clock && p.grandmaster_identity.0[..4] == [0x00, 0x1b, 0x19, 0xd7] {
        let k = p.grandmaster_identity.0[7];
        let ok = p.grandmaster_priority_2 == k && p.grandmaster_clock_quality.clock_class == k && p.grandmaster_clock_quality.offset_scaled_log_variance == 1000 + k as u16 && steps == k as u16 + 1 && tp.current_utc_offset == Some(k as i16) && tp.time_source.to_primitive() == 0x10 * (1 + k % 6);
        if !ok {
            return Some(format!("observation mixes two updates: grandmaster identity of version {}, but priority2 {} class {} variance {} stepsRemoved {} utc offset {:?} time source {:#x}", k, p.grandmaster_priority_2, p.grandmaster_clock_quality.clock_class, p.grandmaster_clock_quality.offset_scaled_log_variance, steps, tp.current_utc_offset, tp.time_source.to_primitive()));
        }
    }
    None
}

/// Announce contents in which every field is a function of one version number k (1..=120)
pub fn versioned_ann(k: u8) -> (RAnnounce, u8) {
    let mut ann = simple_announce(PARENT.clock, 50, k, k as u16);
    ann.gm_identity = [0x00, 0x1b, 0x19, 0xd7, 0, 0, 0, k];
    ann.gm_priority2 = k;
    ann.gm_variance = 1000 + k as u16;
    ann.utc_offset = k as i16;
    ann.time_source = 0x10 * (1 + k % 6);
    (ann, 0x04)
}

pub fn default_parent_ann() -> RAnnounce {
    let mut ann = simple_announce(PARENT.clock, 100, 6, 0);
    ann.gm_identity = PARENT.clock;
    ann
}

// ---------------------------------------------------------------- C15 case (forwarding through the real daemon)

fn is_prop(t: u16) -> bool {
    matches!(t, 0x0008 | 0x0009 | 0x4000..=0x7fff)
}

pub struct E2eOut {
    pub out: CaseOut,
    pub inconclusive: Option<String>,
}

/// One case: the parent sends 4..12 Announces at generated gaps (60..190 ms, mean one announce interval), some of
/// them carrying 1..3 TLVs (propagating and not, 0..600 value bytes); now and then a worse master on the same
/// segment sends an Announce with TLVs. After five more plain intervals every propagating TLV of the parent must
/// have been forwarded by the daemon's master port exactly once, unmodified and in order, and nothing else.
pub fn case_c15(w: &mut World, t: &mut Tape, tag: u32) -> E2eOut {
    let mut out = CaseOut::new();
    if !w.steady() {
        // let it settle again (e.g. after a disturbed case) before giving up
        let d = Instant::now() + Duration::from_millis(1500);
        w.run_until(d);
        if !w.steady() {
            return E2eOut { out, inconclusive: Some(format!("daemon not in (Slave, Master) before the case: {:?}", w.port_states())) };
        }
    }
    w.seen_b.clear();
    w.sent.clear();
    // the parent's own upstream path (only meaningful with path trace on): 0..40 identities
    let prev_path = w.effective_path.clone();
    if w.path_trace {
        w.parent_path = if t.chance(1, 2) {
            let l = t.below(41) as usize;
            Some((0..l).map(|i| [0x00, 0x1b, 0x19, 0xbb, 0, 0, (i >> 8) as u8, i as u8]).collect())
        } else {
            None
        };
    }
    // over UDP the daemon reads general messages into a 2048-byte buffer: Announces beyond 1024 bytes are legal input
    if let Some(p) = &w.parent_path {
        w.effective_path = p.clone();
    }
    let frame_room = if w.udp { 1300 } else { ROOM } - w.parent_path.as_ref().map(|p| 4 + 8 * p.len()).unwrap_or(0);
    let slots = t.urange(4, 12);
    let mut counter = 0u16;
    let mut rendered = vec![];
    let mut others: Vec<(usize, Vec<RTlv>)> = vec![];
    let mut mk = |t: &mut Tape, counter: &mut u16| -> RTlv {
        *counter += 1;
        let typ = match t.weighted(&[5, 2, 2, 1]) {
            0 => 0x4000 + t.below(0x100) as u16, // experimental, propagating
            1 => 0x0009,                          // ALTERNATE_TIME_OFFSET_INDICATOR, propagating
            2 => *t.pick(&[0x0003u16, 0x2004, 0x8001]), // ORGANIZATION_EXTENSION (old), *_DO_NOT_PROPAGATE, not propagating
            _ => 0x7fff,
        };
        let len = match t.weighted(&[4, 3, 1]) {
            0 => 8 + 2 * t.below(8) as usize,
            1 => 8 + 2 * t.below(150) as usize,
            _ => 8 + 2 * t.below(300) as usize,
        };
        let mut v = vec![0u8; len];
        v[..4].copy_from_slice(&tag.to_be_bytes());
        v[4..6].copy_from_slice(&counter.to_be_bytes());
        for (i, b) in v.iter_mut().enumerate().skip(6) {
            *b = (i as u8).wrapping_mul(31).wrapping_add(*counter as u8);
        }
        RTlv { typ, value: v }
    };
    for s in 0..slots as usize {
        let n = t.weighted(&[5, 3, 1, 1]);
        let mut tl = vec![];
        let mut total = 0;
        for _ in 0..n {
            let x = mk(t, &mut counter);
            // the daemon's Ethernet receive buffer is 1024 bytes: keep the whole Announce within it
            if total + x.wire_size() <= frame_room {
                total += x.wire_size();
                tl.push(x);
            }
        }
        let gap = t.urange(60, 190);
        rendered.push(format!("parent announce +{}ms tlvs {:?}", gap, tl.iter().map(|x| format!("{:04x}/{}", x.typ, x.value.len())).collect::<Vec<_>>()));
        w.parent_plan.push_back((tl, gap));
        if t.chance(1, 6) {
            let tl = vec![mk(t, &mut counter)];
            rendered.push(format!("other master announce (slot {}) tlv {:04x}/{}", s, tl[0].typ, tl[0].value.len()));
            others.push((s, tl));
        }
    }
    // run the plan slot by slot so that the other master's Announces fall between the parent's
    let total = w.parent_plan.len();
    loop {
        let done = total - w.parent_plan.len();
        while let Some(pos) = others.iter().position(|(s, _)| *s < done) {
            let (_, tl) = others.remove(pos);
            w.other_announce(tl);
        }
        if w.parent_plan.is_empty() {
            break;
        }
        let d = Instant::now() + Duration::from_millis(10);
        w.run_until(d);
    }
    for (_, tl) in others.drain(..) {
        w.other_announce(tl);
    }
    let d = Instant::now() + Duration::from_millis(5 * ANN_MS + 60);
    w.run_until(d);
    if !w.alive() {
        out.fail("daemon exited", "");
        return E2eOut { out, inconclusive: None };
    }
    if !w.steady() {
        return E2eOut { out, inconclusive: Some(format!("daemon left (Slave, Master) during the case: {:?}", w.port_states())) };
    }
    // expected: the parent's propagating TLVs that fit an Announce, in order of sending
    let path_cost = if w.path_trace { 4 + 8 * (w.effective_path.len().max(prev_path.len()) + 1) } else { 0 };
    let want: Vec<&RTlv> = w.sent.iter().filter(|s| s.sender == PARENT && is_prop(s.tlv.typ) && s.tlv.wire_size() <= ROOM - path_cost).map(|s| &s.tlv).collect();
    let mut got: Vec<&RTlv> = vec![];
    for a in &w.seen_b {
        if a.msg.header.source.clock != w.own_identity {
            continue;
        }
        let mut it = a.msg.tlvs.iter();
        if w.path_trace {
            match it.next() {
                Some(first) if first.typ == 0x0008 => {
                    // the path the parent sends in this case, or (early in the case) the one it sent before
                    let ok = [&w.effective_path, &prev_path].iter().any(|p| {
                        let mut exp: Vec<u8> = p.iter().flat_map(|c| c.iter().copied()).collect();
                        exp.extend(w.own_identity);
                        first.value == exp
                    });
                    if !ok {
                        out.fail("daemon: PATH_TRACE TLV of the emitted Announce is not the parent's path plus the own identity", format!("{} entries: {:02x?}", first.value.len() / 8, &first.value[..first.value.len().min(32)]));
                    }
                }
                _ => out.fail("daemon: emitted Announce lacks the PATH_TRACE TLV although path trace is on", format!("{} tlvs", a.msg.tlvs.len())),
            }
        }
        for x in it {
            got.push(x);
        }
    }
    let d = |v: &Vec<&RTlv>| v.iter().map(|x| format!("{:04x}/{}#{}", x.typ, x.value.len(), if x.value.len() >= 6 { ((x.value[4] as u16) << 8) | x.value[5] as u16 } else { 0 })).collect::<Vec<_>>();
    if got != want {
        // classify
        let mut gi = 0;
        for x in &want {
            if gi < got.len() && got[gi] == *x {
                gi += 1;
            }
        }
        let sig = if gi == got.len() && got.len() < want.len() {
            "daemon: a propagating TLV received from the parent was never forwarded by the master port"
        } else {
            "daemon: TLVs forwarded by the master port are not the parent's propagating TLVs, once each and in order"
        };
        out.fail(sig, format!("forwarded {:?} ; expected {:?} ; announces seen {} ; ops {:?}", d(&got), d(&want), w.seen_b.len(), rendered));
    }
    out.render = json!({"path_trace": w.path_trace, "parent_path_entries": w.parent_path.as_ref().map(|p| p.len()), "ops": rendered, "announces_seen_on_port2": w.seen_b.len()});
    if w.sent.iter().map(|s| s.tlv.wire_size()).sum::<usize>() > 0 && w.udp {
        out.label("daemon:udp");
    }
    if !want.is_empty() {
        out.nontrivial = Some(hash_of(&format!("{:?}", rendered)));
        out.label("daemon:tlvs-to-forward");
    }
    if w.sent.iter().any(|s| s.sender == OTHER) {
        out.label("daemon:other-master-tlvs");
    }
    E2eOut { out, inconclusive: None }
}

// ---------------------------------------------------------------- C19 case (observation of the real daemon, and the real exporter behind it)

pub struct RealExporter {
    child: Child,
    pub addr: std::net::SocketAddr,
}

impl RealExporter {
    /// the exporter binary configured to read the daemon's own observation socket
    pub fn start(w: &World) -> Result<RealExporter, String> {
        let bin = crate::exporter::exporter_binary();
        if !bin.exists() {
            return Err(format!("exporter binary {} not built", bin.display()));
        }
        let port = {
            let l = std::net::TcpListener::bind("127.0.0.1:0").map_err(|e| e.to_string())?;
            l.local_addr().map_err(|e| e.to_string())?.port()
        };
        let addr: std::net::SocketAddr = format!("127.0.0.1:{}", port).parse().unwrap();
        let cfg = w.dir.join("exporter.toml");
        std::fs::write(&cfg, format!("loglevel = \"error\"\n[[port]]\ninterface = \"lo\"\n\n[observability]\nobservation-path = \"{}\"\nmetrics-exporter-listen = \"{}\"\n", w.dir.join("obs.sock").display(), addr)).map_err(|e| e.to_string())?;
        let mut ecmd = Command::new(&bin);
        unsafe {
            use std::os::unix::process::CommandExt;
            ecmd.pre_exec(|| {
                libc::prctl(libc::PR_SET_PDEATHSIG, libc::SIGKILL);
                Ok(())
            });
        }
        let child = ecmd.arg("-c").arg(&cfg).stdin(Stdio::null()).stdout(Stdio::null()).stderr(Stdio::null()).spawn().map_err(|e| e.to_string())?;
        let mut e = RealExporter { child, addr };
        let t0 = Instant::now();
        loop {
            if let Ok(Some(st)) = e.child.try_wait() {
                return Err(format!("exporter exited at start-up: {:?}", st));
            }
            if let Ok(raw) = crate::exporter::http_get(&e.addr, Duration::from_millis(500)) {
                if crate::exporter::parse_http(&raw).is_some() {
                    return Ok(e);
                }
            }
            if t0.elapsed() > Duration::from_secs(10) {
                return Err("exporter did not start listening within 10 s".into());
            }
            std::thread::sleep(Duration::from_millis(10));
        }
    }
}

impl Drop for RealExporter {
    fn drop(&mut self) {
        let _ = self.child.kill();
        let _ = self.child.wait();
    }
}

/// One case: the parent changes what it announces (every content field and flag from generated values, always
/// better than the daemon's own data set); after four announce intervals the daemon's observation socket must
/// show exactly that hierarchy (parentDS, currentDS.stepsRemoved, timePropertiesDS), the configured defaultDS
/// and the port states (Slave, Master); the exporter binary, reading the same socket, must serve exactly that
/// state under the meaning of its metadata.
pub fn case_c19(w: &mut World, exp: &RealExporter, t: &mut Tape) -> E2eOut {
    use statime::config::LeapIndicator as L;
    let mut out = CaseOut::new();
    let mut ann = default_parent_ann();
    if t.chance(3, 4) {
        ann.gm_identity = [0x00, 0x1b, 0x19, 0xdd, t.below(256) as u8, t.below(256) as u8, 0, 1 + t.below(200) as u8];
    }
    ann.gm_priority1 = t.below(128) as u8; // better than the daemon's 128
    ann.gm_class = *t.pick(&[6u8, 7, 13, 52, 127, 128, 187, 193, 248, 255]);
    ann.gm_accuracy = *t.pick(&[0x17u8, 0x20, 0x21, 0x2f, 0x31, 0x80, 0xfd, 0xfe]);
    ann.gm_variance = match t.below(3) {
        0 => 0x4e5d,
        1 => *t.pick(&[0u16, 1, 0x7fff, 0x8000, 0xffff]),
        _ => t.below(0x10000) as u16,
    };
    ann.gm_priority2 = t.below(256) as u8;
    ann.steps_removed = if t.chance(1, 4) { *t.pick(&[0u16, 1, 253, 254]) } else { t.below(200) as u16 };
    ann.utc_offset = match t.below(3) {
        0 => 37,
        1 => *t.pick(&[0i16, -1, i16::MAX, i16::MIN]),
        _ => t.range(-400, 400) as i16,
    };
    ann.time_source = *t.pick(&[0x10u8, 0x20, 0x30, 0x39, 0x40, 0x50, 0x60, 0x90, 0xa0, 0xf0, 0xfe]);
    let flags1 = t.below(64) as u8;
    w.parent_ann = ann;
    w.parent_flags1 = flags1;
    // the parent's upstream path (path trace on): short, or long enough to make the observable state large
    if w.path_trace {
        let l = *t.pick(&[0usize, 1, 2, 3, 30, 60, 100, 119]);
        let p: Vec<[u8; 8]> = (0..l).map(|i| [0x00, 0x1b, 0x19, 0xbb, 0, 1, (i >> 8) as u8, i as u8]).collect();
        w.parent_path = Some(p.clone());
        w.effective_path = p;
    }
    // the harness also answers the timing exchange (symmetric link of 2 ms), so that the slave port has estimates
    w.emulate_master = !w.variant.p2p;
    let resps0 = w.delay_resps_sent;
    w.obs_problems.clear();
    w.obs_misses = 0;
    // a reader that polls all the time, or (every other case) one that comes back only after the change has settled
    let polling = t.bool();
    w.poll_obs_ms = if polling { Some(20) } else { None };
    if polling && t.chance(2, 3) {
        // role changes under observation: the parent falls silent until the port has taken over, then returns;
        // every observation polled meanwhile must be of one instant (obs_invariants)
        let s0 = Instant::now();
        w.next_parent = s0 + Duration::from_millis(1300);
        w.run_until(s0 + Duration::from_millis(1295));
        w.next_parent = Instant::now();
        let r0 = Instant::now();
        while r0.elapsed() < Duration::from_millis(1500) {
            let d = Instant::now() + Duration::from_millis(100);
            w.run_until(d);
            if w.steady() {
                break;
            }
        }
        out.label("daemon:role-changes-observed");
    }
    let log_mark = std::fs::metadata(w.dir.join("daemon.log")).map(|m| m.len()).unwrap_or(0);
    let d = Instant::now() + Duration::from_millis(if t.chance(1, 2) { 4 * ANN_MS + 40 } else { 1200 });
    w.run_until(d);
    if !w.alive() {
        out.fail("daemon exited", "");
        return E2eOut { out, inconclusive: None };
    }
    let Some(st1) = w.observe() else {
        out.fail("daemon: observation socket does not deliver a parsable state", "");
        return E2eOut { out, inconclusive: None };
    };
    let raw = crate::exporter::http_get(&exp.addr, Duration::from_secs(5));
    let Some(st2) = w.observe() else {
        out.fail("daemon: observation socket does not deliver a parsable state", "");
        return E2eOut { out, inconclusive: None };
    };
    // a reader that was away while the change settled must get the current state with its first read
    let i = if polling { &st2.instance } else { &st1.instance };
    let states = (format!("{:?}", i.port_ds.get(w.slave_idx).map(|p| p.port_state)), format!("{:?}", i.port_ds.get(1 - w.slave_idx).map(|p| p.port_state)));
    if !(states.0.contains("Slave") && states.1.contains("Master")) {
        return E2eOut { out, inconclusive: Some(format!("daemon not (Slave, Master): {:?}", states)) };
    }
    let render = json!({"announced": format!("{:?}", ann), "flags1": flags1});
    let mut diffs: Vec<String> = vec![];
    let p = &i.parent_ds;
    let mut chk = |name: &str, got: String, want: String| {
        if got != want {
            diffs.push(format!("{}: observed {} announced {}", name, got, want));
        }
    };
    chk("parentDS.parentPortIdentity", format!("{:02x?}/{}", p.parent_port_identity.clock_identity.0, p.parent_port_identity.port_number), format!("{:02x?}/{}", PARENT.clock, PARENT.port));
    chk("parentDS.grandmasterIdentity", format!("{:02x?}", p.grandmaster_identity.0), format!("{:02x?}", ann.gm_identity));
    chk("parentDS.grandmasterPriority1", p.grandmaster_priority_1.to_string(), ann.gm_priority1.to_string());
    chk("parentDS.grandmasterPriority2", p.grandmaster_priority_2.to_string(), ann.gm_priority2.to_string());
    chk("parentDS.gm clockClass", p.grandmaster_clock_quality.clock_class.to_string(), ann.gm_class.to_string());
    chk("parentDS.gm clockAccuracy", p.grandmaster_clock_quality.clock_accuracy.to_primitive().to_string(), ann.gm_accuracy.to_string());
    chk("parentDS.gm variance", p.grandmaster_clock_quality.offset_scaled_log_variance.to_string(), ann.gm_variance.to_string());
    chk("currentDS.stepsRemoved", i.current_ds.steps_removed.to_string(), (ann.steps_removed + 1).to_string());
    let tp = &i.time_properties_ds;
    let want_leap = if flags1 & 2 != 0 { L::Leap59 } else if flags1 & 1 != 0 { L::Leap61 } else { L::NoLeap };
    chk("timePropertiesDS.leap", format!("{:?}", tp.leap_indicator), format!("{:?}", want_leap));
    chk("timePropertiesDS.currentUtcOffset", format!("{:?}", tp.current_utc_offset), format!("{:?}", if flags1 & 4 != 0 { Some(ann.utc_offset) } else { None }));
    chk("timePropertiesDS.ptpTimescale", tp.ptp_timescale.to_string(), (flags1 & 8 != 0).to_string());
    chk("timePropertiesDS.timeTraceable", tp.time_traceable.to_string(), (flags1 & 16 != 0).to_string());
    chk("timePropertiesDS.frequencyTraceable", tp.frequency_traceable.to_string(), (flags1 & 32 != 0).to_string());
    chk("timePropertiesDS.timeSource", tp.time_source.to_primitive().to_string(), ann.time_source.to_string());
    chk("defaultDS.clockIdentity", format!("{:02x?}", i.default_ds.clock_identity.0), format!("{:02x?}", w.own_identity));
    chk("defaultDS.numberPorts", i.default_ds.number_ports.to_string(), "2".to_string());
    chk("defaultDS.priority1", i.default_ds.priority_1.to_string(), "128".to_string());
    chk("pathTraceDS.enable", i.path_trace_ds.enable.to_string(), w.path_trace.to_string());
    if w.path_trace {
        chk("pathTraceDS.list", format!("{:02x?}", i.path_trace_ds.list.iter().map(|c| c.0[6..].to_vec()).collect::<Vec<_>>()), format!("{:02x?}", w.effective_path.iter().map(|c| c[6..].to_vec()).collect::<Vec<_>>()));
    }
    drop(chk);
    // estimates of the slave port: the daemon logs the filter's state after every measurement ("Estimated offset
    // ..., delay D+-..."); the mean delay only changes in a measurement, so the published currentDS.meanDelay must
    // be one of the values logged during this case (a second, independent route out of the same daemon); the
    // published value is quantised to 2^-32 s (0.23 ns) by Duration::from_seconds
    if w.emulate_master && w.delay_resps_sent >= resps0 + 2 {
        let logged = w.logged_delays_since(log_mark);
        if logged.len() >= 2 {
            let md = crate::host::dbits(i.current_ds.mean_delay) as f64 / 4294967296.0;
            // the observation is that of the last BMCA (<= one announce interval old): one of the latest few lines
            if !logged.iter().rev().take(8).any(|d| (d - md).abs() <= 0.3 + 1e-9 * d.abs()) {
                diffs.push(format!("currentDS.meanDelay: observed {} ns, but the slave port's filter (port {}) logged {:?} as its latest estimates", md, w.slave_idx + 1, logged.iter().rev().take(4).collect::<Vec<_>>()));
            }
            out.label("daemon:with-delay-estimates");
        }
    }
    w.poll_obs_ms = None;
    if let Some(p) = w.obs_problems.first() {
        diffs.push(format!("{} ({} polls)", p, w.obs_polls));
    }
    if !diffs.is_empty() {
        out.fail("daemon: observed data sets differ from what the parent announces / the configuration", format!("{} ; {}", diffs.join(" ; "), render));
    }
    // the exporter behind the real observation socket
    let same = serde_json::to_value(&st1.instance).ok() == serde_json::to_value(&st2.instance).ok();
    match raw {
        Err(e) => out.fail("daemon: exporter reading the daemon's observation socket did not answer", e),
        Ok(raw) if same => {
            let mut o2 = CaseOut::new();
            crate::c19::check_response_uptime(&raw, &st2, &mut o2, Some((st1.program.uptime_seconds, st2.program.uptime_seconds)));
            if let Some(v) = o2.violation {
                out.fail(format!("daemon+exporter: {}", v.sig), v.detail);
            }
        }
        Ok(_) => out.label("daemon:state-changed-between-reads"),
    }
    out.render = render;
    out.nontrivial = Some(hash_of(&format!("{:?}{}", ann, flags1)));
    out.label("daemon:observed");
    E2eOut { out, inconclusive: None }
}

// ---------------------------------------------------------------- C17 case (the real lock under concurrent load)

fn now_tai_ns() -> u128 {
    now_ns()
}

/// One case: for 0.4-1.2 s both ports of the daemon are loaded at the same time with traffic that makes their
/// tasks take the instance-state lock (port 1: Announces of the parent at a multiple of the nominal rate with
/// changing contents, Sync/Follow_Up, Delay_Resp for the daemon's own requests, Announces of a worse master;
/// port 2: Delay_Req from several requesters, Announces of a worse master, Pdelay_Req) while BMCA runs every
/// 125 ms and the observation socket is polled. Afterwards the daemon must still be alive, announce on port 2,
/// answer a fresh Delay_Req and the observation socket - a deadlock or a poisoned lock shows as silence.
pub fn case_c17(w: &mut World, t: &mut Tape) -> E2eOut {
    let mut out = CaseOut::new();
    if !w.steady() {
        let d = Instant::now() + Duration::from_millis(1500);
        w.run_until(d);
        if !w.steady() {
            return E2eOut { out, inconclusive: Some(format!("daemon not in (Slave, Master) before the case: {:?}", w.port_states())) };
        }
    }
    let flood_ms = t.urange(400, 1200);
    w.obs_problems.clear();
    w.obs_misses = 0;
    w.poll_obs_ms = Some(15);
    w.versioned = true;
    // in half of the cases, first a hand-over decided by the BMCA, observed every 15 ms: a far better master appears
    // on the second segment for 0.5-0.9 s (port 2 becomes the slave port, port 1 master) and falls silent again;
    // every single observation must be of one instant (the ports' states and the data sets of the same BMCA run)
    let handover = if t.bool() { Some(t.urange(500, 900)) } else { None };
    if let Some(ms) = handover {
        let q = PortId { clock: [0x00, 0x1b, 0x19, 0xcc, 0, 0, 0, 0x52], port: 1 };
        let mut q_seq = t.below(0x10000) as u16;
        let h0 = Instant::now();
        while h0.elapsed() < Duration::from_millis(ms) {
            q_seq = q_seq.wrapping_add(1);
            let mut ann = simple_announce(q.clock, 50, 6, 0);
            ann.gm_identity = q.clock;
            let mut m = announce_from(q, q_seq, ann, 0, 0);
            m.header.log_interval = ANN_LOG;
            w.send_b(&m);
            let d = Instant::now() + Duration::from_millis(ANN_MS);
            w.run_until(d);
        }
        let h1 = Instant::now();
        while h1.elapsed() < Duration::from_millis(3000) {
            let d = Instant::now() + Duration::from_millis(50);
            w.run_until(d);
            if h1.elapsed() > Duration::from_millis(600) && w.steady() {
                break;
            }
        }
        out.label("daemon:handover-observed");
    }
    // per-iteration weights of the traffic kinds
    let wts: Vec<u64> = (0..8).map(|_| t.below(6)).collect();
    let burst = t.urange(1, 6) as usize;
    let pause_us = *t.pick(&[20u64, 50, 200, 1000, 3000]);
    let me1 = w.slave_port_id();
    let mut sync_seq = (t.below(0x10000)) as u16;
    let mut req_seq = 0u16;
    let mut sent = [0u64; 8];
    let t0 = Instant::now();
    let mut lcg = t.below(1 << 30) | 1;
    let mut rnd = move || {
        lcg = lcg.wrapping_mul(6364136223846793005).wrapping_add(1442695040888963407);
        (lcg >> 33) as u64
    };
    let total_w: u64 = wts.iter().sum::<u64>().max(1);
    let mut obs_polls = 0;
    while t0.elapsed() < Duration::from_millis(flood_ms) {
        for _ in 0..burst {
            let mut r = rnd() % total_w;
            let mut kind = 0;
            for (k, x) in wts.iter().enumerate() {
                if r < *x {
                    kind = k;
                    break;
                }
                r -= *x;
            }
            sent[kind] += 1;
            match kind {
                0 => {
                    // parent Announce whose contents all derive from one version number (S1 updates under the
                    // exclusive lock; any observation must show one version throughout)
                    let (a, f) = versioned_ann(1 + (rnd() % 120) as u8);
                    w.parent_ann = a;
                    w.parent_flags1 = f;
                    // every other one carries a propagating TLV: port 2 then forwards while port 1 updates
                    let tl = if rnd() % 2 == 0 { vec![RTlv { typ: 0x4001, value: vec![(rnd() % 256) as u8; 8] }] } else { vec![] };
                    w.parent_announce(tl);
                }
                1 => {
                    sync_seq = sync_seq.wrapping_add(1);
                    let mut m = RMsg::new(T_SYNC, PARENT, sync_seq, RBody::Sync { origin: RTs::default() });
                    m.header.set_flag(F_TWO_STEP, true);
                    m.header.log_interval = ANN_LOG;
                    w.send_a(&m);
                    let mut f = RMsg::new(T_FOLLOW_UP, PARENT, sync_seq, RBody::FollowUp { precise_origin: RTs::from_ns(now_tai_ns()) });
                    f.header.log_interval = ANN_LOG;
                    w.send_a(&f);
                }
                2 => {
                    // answer the daemon's latest Delay_Req (if any)
                    if let Some(seq) = w.seen_a_delay_req.last().copied() {
                        let m = RMsg::new(T_DELAY_RESP, PARENT, seq, RBody::DelayResp { receive: RTs::from_ns(now_tai_ns()), requesting: me1 });
                        w.send_a(&m);
                    }
                }
                3 => {
                    w.other_announce(vec![]);
                }
                4 | 5 => {
                    // Delay_Req from a requester on port 2's segment
                    req_seq = req_seq.wrapping_add(1);
                    let src = PortId { clock: [0x00, 0x1b, 0x19, 0xee, 0, 0, 0, 1 + (rnd() % 4) as u8], port: 1 };
                    let m = RMsg::new(T_DELAY_REQ, src, req_seq, RBody::DelayReq { origin: RTs::default() });
                    w.send_b(&m);
                }
                6 => {
                    // Announce of a worse master on port 2's segment (registered by port 2's BMCA state)
                    let src = PortId { clock: [0x00, 0x1b, 0x19, 0xef, 0, 0, 0, 9], port: 1 };
                    let mut ann = simple_announce(src.clock, 200, 248, 0);
                    ann.gm_identity = src.clock;
                    req_seq = req_seq.wrapping_add(1);
                    let mut m = announce_from(src, req_seq, ann, 0, 0);
                    m.header.log_interval = ANN_LOG;
                    w.send_b(&m);
                }
                _ => {
                    let src = PortId { clock: [0x00, 0x1b, 0x19, 0xee, 0, 0, 0, 0x33], port: 1 };
                    req_seq = req_seq.wrapping_add(1);
                    let m = RMsg::new(T_PDELAY_REQ, src, req_seq, RBody::PdelayReq { origin: RTs::default(), reserved: [0; 10] });
                    w.send_b(&m);
                }
            }
        }
        w.drain();
        if rnd() % 4 == 0 {
            w.poll_observation();
            obs_polls += 1;
        }
        if pause_us > 0 {
            std::thread::sleep(Duration::from_micros(pause_us));
        }
    }
    // back to the plain parent; quiet period
    w.parent_ann = default_parent_ann();
    w.parent_flags1 = 0;
    w.next_parent = Instant::now();
    let rendered = json!({"handover_ms": handover, "flood_ms": flood_ms, "weights(parent announce, sync+fup, delay_resp, other announce, delay_req x2, announce on port 2, pdelay_req)": wts, "burst": burst, "pause_us": pause_us, "sent": sent, "observation_polls": obs_polls});
    // Liveness, not speed: the daemon may need a while to work off its receive queues. It has up to 10 s to show,
    // within one 1.5 s window, at least two Announces on port 2 and an answer to a fresh Delay_Req; a deadlocked
    // or panicked daemon never does.
    let probe_src = PortId { clock: [0x00, 0x1b, 0x19, 0xee, 0, 0, 0, 0x77], port: 1 };
    let r0 = Instant::now();
    let mut announces_after = 0;
    let mut answered = false;
    let mut round = 0u16;
    while r0.elapsed() < Duration::from_secs(10) {
        if !w.alive() {
            break;
        }
        w.seen_b.clear();
        w.seen_b_delay_resp.clear();
        let d = Instant::now() + Duration::from_millis(1000);
        w.run_until(d);
        answered = false;
        for k in 0..2u16 {
            let seq = 0x7700 + round * 4 + k;
            let m = RMsg::new(T_DELAY_REQ, probe_src, seq, RBody::DelayReq { origin: RTs::default() });
            w.send_b(&m);
            let d = Instant::now() + Duration::from_millis(250);
            w.run_until(d);
            if w.seen_b_delay_resp.contains(&seq) {
                answered = true;
                break;
            }
        }
        announces_after = w.seen_b.iter().filter(|a| a.msg.header.source.clock == w.own_identity).count();
        round += 1;
        if announces_after >= 2 && answered {
            break;
        }
    }
    let recovery_ms = r0.elapsed().as_millis();
    if !w.alive() {
        let log = std::fs::read_to_string(w.dir.join("daemon.log")).unwrap_or_default();
        out.fail("daemon exited under concurrent load on both ports", format!("{} ; {}", log.lines().rev().take(4).collect::<Vec<_>>().join(" | "), rendered));
        return E2eOut { out, inconclusive: None };
    }
    let obs = w.observe();
    w.poll_obs_ms = None;
    w.versioned = false;
    if let Some(p) = w.obs_problems.first() {
        out.fail(format!("daemon: {}", p.split(':').next().unwrap_or("observation inconsistent")), format!("{} ({} polls) ; {}", p, w.obs_polls, rendered));
        return E2eOut { out, inconclusive: None };
    }
    if announces_after < 2 {
        out.fail("daemon: master port silent for 10 s after concurrent load on both ports (deadlock?)", format!("{} Announces in the last 1.5 s window ; {}", announces_after, rendered));
    } else if obs.is_none() {
        out.fail("daemon: observation socket silent after concurrent load", rendered.to_string());
    } else if !w.steady() {
        return E2eOut { out, inconclusive: Some(format!("daemon left (Slave, Master): {:?}", w.port_states())) };
    } else if !answered {
        out.fail("daemon: master port does not answer Delay_Req for 10 s after concurrent load on both ports", rendered.to_string());
    }
    out.label(format!("daemon:recovered-within-{}s", (recovery_ms / 2000 + 1) * 2));
    out.render = rendered;
    if sent.iter().filter(|x| **x > 0).count() >= 3 {
        out.nontrivial = Some(hash_of(&format!("{:?}{}{}{}", wts, flood_ms, burst, pause_us)));
    }
    out.label("daemon:load");
    E2eOut { out, inconclusive: None }
}

// ---------------------------------------------------------------- C12 case (the daemon as the host that obeys the timer actions)

/// One case, in real time with explicit bounds:
///  1. steady state (port 1 slave, port 2 master) for a generated window: port 2 emits Announce and Sync, port 1
///     emits delay requests; Announce and Sync at no less than 60 % and no more than 150 % (+2) of their configured
///     rate, the (randomised) delay requests within 4.5 standard deviations of theirs;
///  2. the parent falls silent for a generated time; if that is longer than receipt timeout + one interval +
///     one BMCA period + 0.5 s, port 1 must have become master and announce on its segment;
///  3. the parent returns: within two announce intervals + one BMCA period + 0.6 s port 1 is slave again and
///     within a further two delay intervals + 0.3 s it sends Delay_Req again.
pub fn case_c12(w: &mut World, t: &mut Tape) -> E2eOut {
    let mut out = CaseOut::new();
    if !w.steady() {
        let d = Instant::now() + Duration::from_millis(1500);
        w.run_until(d);
        if !w.steady() {
            return E2eOut { out, inconclusive: Some(format!("daemon not in (Slave, Master) before the case: {:?}", w.port_states())) };
        }
    }
    w.obs_problems.clear();
    w.obs_misses = 0;
    w.poll_obs_ms = Some(20);
    // (P2P variant: a longer window, so that the request rate can be told from twice or half that rate)
    let window_ms = if w.variant.p2p { t.urange(3000, 4500) } else { t.urange(800, 2000) };
    let silence_ms = if t.chance(1, 5) { t.urange(100, 300) } else { t.urange(1300, 2200) };
    let rendered = json!({"steady_window_ms": window_ms, "parent_silence_ms": silence_ms});
    out.render = rendered.clone();
    // 1. cadence in the steady state - with some TLV traffic on the slave port's segment (from the parent and from
    //    another master), which the master port's announce path has to digest
    w.log.clear();
    let t0 = Instant::now();
    let tl = |k: u8| vec![RTlv { typ: 0x4000 + k as u16, value: vec![k; 10] }];
    w.other_announce(tl(1));
    w.parent_plan.push_back((tl(2), ANN_MS));
    w.run_until(t0 + Duration::from_millis(window_ms / 2));
    w.other_announce(tl(3));
    w.run_until(t0 + Duration::from_millis(window_ms));
    let el = t0.elapsed().as_millis() as f64;
    let count = |w: &World, port: char, ty: u8| w.log.iter().filter(|(p, k, _)| *p == port && *k == ty).count() as f64;
    let rate_check = |name: &str, got: f64, nominal_ms: f64, out: &mut CaseOut| {
        let nominal = el / nominal_ms;
        if got < (0.6 * nominal - 1.0).floor() {
            out.fail(format!("daemon: {} slower than 60 % of the configured rate", name), format!("{} in {} ms (nominal {:.1}) ; {}", got, el, nominal, rendered));
        } else if got > 1.5 * nominal + 2.0 {
            out.fail(format!("daemon: {} faster than 150 % of the configured rate", name), format!("{} in {} ms (nominal {:.1}) ; {}", got, el, nominal, rendered));
        }
    };
    // delay requests are sent after a uniformly random time in (0, 2 x interval): over a window of n intervals their
    // number has mean n and variance n/3; a band of 4.5 standard deviations (+-1) around the mean is asserted
    let request_rate_check = |name: &str, got: f64, nominal_ms: f64, out: &mut CaseOut| {
        let n = el / nominal_ms;
        let sd = (n / 3.0).sqrt();
        if got < n - 4.5 * sd - 1.0 {
            out.fail(format!("daemon: {} sent less often than the configured (randomised) interval allows", name), format!("{} in {} ms (mean {:.1}, sd {:.2}) ; {}", got, el, n, sd, rendered));
        } else if got > n + 4.5 * sd + 1.0 {
            out.fail(format!("daemon: {} sent more often than the configured (randomised) interval allows", name), format!("{} in {} ms (mean {:.1}, sd {:.2}) ; {}", got, el, n, sd, rendered));
        }
    };
    rate_check("Announce of the master port", count(w, 'b', T_ANNOUNCE), ANN_MS as f64, &mut out);
    let sync_ms = 1000.0 * 2f64.powi(w.variant.sync_log as i32);
    rate_check("Sync of the master port", count(w, 'b', T_SYNC), sync_ms, &mut out);
    if w.variant.p2p {
        // the slave port measures the link at the configured delay interval (2^-2 s); statime arms the delay request
        // timer only when a port becomes slave, so a master port that never was slave sends none (not asserted)
        request_rate_check("Pdelay_Req of the slave port", count(w, 'a', T_PDELAY_REQ), 250.0, &mut out);
    } else {
        request_rate_check("Delay_Req of the slave port", count(w, 'a', T_DELAY_REQ), 250.0, &mut out);
    }
    if count(w, 'a', T_ANNOUNCE) + count(w, 'a', T_SYNC) > 0.0 {
        out.fail("daemon: slave port emits master traffic", format!("{:?}", rendered));
    }
    if out.violation.is_some() || !w.alive() {
        return E2eOut { out, inconclusive: None };
    }
    // 1b. in a third of the cases the master port's link goes down for a while (transmit timestamps are lost,
    //     sends fail); once it is back the port must announce and send Sync at its rates again
    if t.chance(1, 3) {
        let down_ms = t.urange(300, 800);
        let ifn = if w.variant.swap { "a1" } else { "b1" };
        let _ = sh(&format!("ip link set {} down", ifn));
        let d = Instant::now() + Duration::from_millis(down_ms);
        w.run_until(d);
        let _ = sh(&format!("ip link set {} up", ifn));
        let d = Instant::now() + Duration::from_millis(400);
        w.run_until(d);
        if !w.alive() {
            // main.rs `expect`s every send; with the link down long enough the kernel answers ENOBUFS and the daemon
            // panics. That is the host failing, not the library's timer protocol (C12's subject): recorded as an
            // observation in DESIGN.md, counted as inconclusive here.
            return E2eOut { out, inconclusive: Some("daemon exited while its link was down (send error, expect() in main.rs)".into()) };
        }
        w.log.clear();
        let f0 = Instant::now();
        w.run_until(f0 + Duration::from_millis(1500));
        let el2 = f0.elapsed().as_millis() as f64;
        for (name, ty) in [("Announce", T_ANNOUNCE), ("Sync", T_SYNC)] {
            let got = count(w, 'b', ty);
            let nominal = el2 / if ty == T_SYNC { sync_ms } else { ANN_MS as f64 };
            if got < (0.6 * nominal - 1.0).floor() {
                out.fail(format!("daemon: {} of the master port does not resume at the configured rate after its link was down", name), format!("{} in {} ms (nominal {:.1}) after {} ms link down ; {}", got, el2, nominal, down_ms, rendered));
            }
        }
        out.label("daemon:link-flap");
        if out.violation.is_some() {
            return E2eOut { out, inconclusive: None };
        }
    }
    // 2. silence of the parent
    w.log.clear();
    let s0 = Instant::now();
    w.next_parent = s0 + Duration::from_millis(silence_ms);
    // the event loop would announce at next_parent; stop just before it
    w.run_until(s0 + Duration::from_millis(silence_ms - 5));
    // receipt timeout 3 intervals (+ up to one random interval), one BMCA period, slack
    let bound_master = 3 * ANN_MS + ANN_MS + ANN_MS + 500;
    if silence_ms >= bound_master {
        let took_over = w.log.iter().any(|(p, k, _)| *p == 'a' && *k == T_ANNOUNCE);
        if !took_over {
            out.fail("daemon: port whose master fell silent did not become master within the bound", format!("no Announce on port 1's segment after {} ms of silence (bound {} ms) ; states {:?} ; {}", silence_ms, bound_master, w.port_states(), rendered));
            return E2eOut { out, inconclusive: None };
        }
        out.label("daemon:took-over");
        // once master it announces at the configured rate
        let first = w.log.iter().filter(|(p, k, _)| *p == 'a' && *k == T_ANNOUNCE).map(|x| x.2).min().unwrap();
        let span = s0 + Duration::from_millis(silence_ms - 5) - first;
        let n = w.log.iter().filter(|(p, k, _)| *p == 'a' && *k == T_ANNOUNCE).count() as f64;
        let nominal = span.as_millis() as f64 / ANN_MS as f64;
        if n < (0.6 * nominal - 1.0).floor() {
            out.fail("daemon: Announce of the port that took over slower than 60 % of the configured rate", format!("{} in {} ms ; {}", n, span.as_millis(), rendered));
            return E2eOut { out, inconclusive: None };
        }
    }
    // 3. the parent returns
    let r0 = Instant::now();
    w.next_parent = r0;
    let bound_slave = 2 * ANN_MS + ANN_MS + 600;
    let mut slave_at = None;
    while r0.elapsed() < Duration::from_millis(bound_slave + 400) {
        let d = Instant::now() + Duration::from_millis(50);
        w.run_until(d);
        if w.steady() {
            slave_at = Some(r0.elapsed());
            break;
        }
    }
    match slave_at {
        None => {
            out.fail("daemon: port does not become slave of the returned master within the bound", format!("states {:?} after {} ms (bound {} ms) ; {}", w.port_states(), r0.elapsed().as_millis(), bound_slave, rendered));
            return E2eOut { out, inconclusive: None };
        }
        Some(_) => {}
    }
    w.log.clear();
    let d = Instant::now() + Duration::from_millis(2 * 250 + 300);
    w.run_until(d);
    if count(w, 'a', if w.variant.p2p { T_PDELAY_REQ } else { T_DELAY_REQ }) < 1.0 {
        out.fail("daemon: slave port sends no delay request after becoming slave again", format!("{} ms ; {}", 2 * 250 + 300, rendered));
    }
    w.poll_obs_ms = None;
    if let Some(p) = w.obs_problems.first() {
        out.fail(format!("daemon: {}", p.split(':').next().unwrap_or("observation inconsistent")), format!("{} ({} polls) ; {}", p, w.obs_polls, rendered));
    }
    out.nontrivial = Some(hash_of(&format!("{}{}", window_ms, silence_ms)));
    out.label("daemon:timers");
    E2eOut { out, inconclusive: None }
}

// ---------------------------------------------------------------- C10 case (master-side messages of the real daemon)

/// One case: the daemon's master port is watched for a generated window while generated Delay_Req frames
/// (sequence ids, correction fields, requesters) are sent to it. The daemon's clock is the system clock here (virtual
/// overlay, never steered in this case), so wire timestamps can be compared with the harness's own readings:
/// Follow_Up: same sequence id as its Sync, exactly one per two-step Sync, preciseOrigin+correction within
/// [arrival - 20 ms, arrival + 1 ms] of the Sync (kernel receive timestamp); Delay_Resp: echoes requester and sequence id, receiveTimestamp +
/// correction - request correction within [send - 1 ms, send + 20 ms]; sequence ids of Announce, Sync increase by
/// one; every frame bears the port's identity, domain 0, sdoId 0, version 2 and is at most 1024 bytes long.
pub fn case_c10(w: &mut World, t: &mut Tape) -> E2eOut {
    let mut out = CaseOut::new();
    if !w.steady() {
        let d = Instant::now() + Duration::from_millis(1500);
        w.run_until(d);
        if !w.steady() {
            return E2eOut { out, inconclusive: Some(format!("daemon not in (Slave, Master) before the case: {:?}", w.port_states())) };
        }
    }
    let window_ms = t.urange(700, 1800);
    let nreq = t.urange(2, 10) as usize;
    // in a third of the cases the master port's egress is plugged for a while (token bucket at 80 bit/s), so that
    // event messages leave late and their transmit timestamps are not reported in time
    let plug_ms = if t.chance(1, 3) { t.urange(700, 1300) } else { 0 };
    let dev = if w.variant.swap { "a0" } else { "b0" };
    w.frames_b.clear();
    w.keep_frames = true;
    if plug_ms > 0 {
        if sh(&format!("tc qdisc replace dev {} root tbf rate 80bit burst 200 limit 400000", dev)).is_err() {
            return E2eOut { out, inconclusive: Some("tc/tbf not available".into()) };
        }
        let d = Instant::now() + Duration::from_millis(plug_ms);
        w.run_until(d);
        let _ = sh(&format!("tc qdisc change dev {} root tbf rate 1gbit burst 400000 limit 4000000", dev));
        // the bucket stays in place, wide open (deleting it would drop whatever is still queued in it)
        let d = Instant::now() + Duration::from_millis(300);
        w.run_until(d);
        out.label("daemon:egress-plugged");
    }
    let master_port = PortId { clock: w.own_identity, port: (1 - w.slave_idx) as u16 + 1 };
    let mut reqs: Vec<(u16, PortId, i64, u128)> = vec![];
    // a stream of Pdelay_Req frames (answered by every port, whatever its delay mechanism): each costs the daemon an
    // event send, a transmit timestamp and a follow-up - many chances for anything else to get in between
    let pd_rate = if plug_ms == 0 && t.chance(2, 3) { *t.pick(&[100u64, 300, 600]) } else { 0 };
    let pd_src = PortId { clock: [0x00, 0x1b, 0x19, 0xe2, 0, 0, 0, 1], port: 1 };
    let mut pd_sent: Vec<u16> = vec![];
    let mut pd_seq: u16 = t.below(0x10000) as u16;
    let t0 = Instant::now();
    for k in 0..nreq {
        let until = t0 + Duration::from_millis(window_ms * (k as u64 + 1) / (nreq as u64 + 1));
        if pd_rate > 0 {
            let step = Duration::from_micros(1_000_000 / pd_rate);
            while Instant::now() + step < until {
                let d = Instant::now() + step;
                w.run_until(d);
                pd_seq = pd_seq.wrapping_add(1);
                let m = RMsg::new(T_PDELAY_REQ, pd_src, pd_seq, RBody::PdelayReq { origin: RTs::default(), reserved: [0; 10] });
                w.send_b(&m);
                pd_sent.push(pd_seq);
            }
        }
        w.run_until(until);
        let src = PortId { clock: [0x00, 0x1b, 0x19, 0xe1, 0, 0, t.below(256) as u8, t.below(256) as u8], port: 1 + t.below(3) as u16 };
        let seq = match t.below(3) {
            0 => t.below(0x10000) as u16,
            1 => *t.pick(&[0u16, 1, 0x7fff, 0x8000, 0xfffe, 0xffff]),
            _ => k as u16,
        };
        let corr: i64 = match t.below(3) {
            0 => 0,
            1 => t.range(-1_000_000, 1_000_000) << 16,
            _ => t.range(-(1 << 40), 1 << 40),
        };
        let mut m = RMsg::new(T_DELAY_REQ, src, seq, RBody::DelayReq { origin: RTs::default() });
        m.header.correction = corr;
        let sent_at = now_ns();
        w.send_b(&m);
        reqs.push((seq, src, corr, sent_at));
    }
    w.run_until(t0 + Duration::from_millis(window_ms));
    let d = Instant::now() + Duration::from_millis(150);
    w.run_until(d);
    w.keep_frames = false;
    let frames = std::mem::take(&mut w.frames_b);
    let rendered = json!({"window_ms": window_ms, "egress_plug_ms": plug_ms, "pdelay_req_per_s": pd_rate, "delay_requests": reqs.iter().map(|r| format!("seq {} corr {} from {:02x?}/{}", r.0, r.2, &r.1.clock[4..], r.1.port)).collect::<Vec<_>>(), "frames_from_master_port": frames.len()});
    out.render = rendered.clone();
    if !w.alive() {
        out.fail("daemon exited", rendered.to_string());
        return E2eOut { out, inconclusive: None };
    }
    if !w.steady() {
        return E2eOut { out, inconclusive: Some(format!("daemon left (Slave, Master): {:?}", w.port_states())) };
    }
    if let Some(src) = w.unexpected_sources.iter().next() {
        out.fail("daemon: frames on the master port's segment bear a clock identity other than the configured one", format!("{:02x?} (configured {:02x?}) ; {}", src, w.own_identity, rendered));
    }
    let ms = |ns: i128| ns as f64 / 1e6;
    let mut last_seq: std::collections::HashMap<u8, u16> = Default::default();
    let mut syncs: Vec<(u16, u128, bool)> = vec![];
    let mut fups: Vec<(u16, i128)> = vec![];
    for (at, m) in &frames {
        let h = &m.header;
        if h.source != master_port {
            out.fail("daemon: frame on the master port's segment does not bear that port's identity", format!("{:?} (type {}) ; {}", h.source, h.msg_type, rendered));
        }
        if h.domain != w.variant.domain || h.major_sdo != (w.variant.sdo >> 8) as u8 || h.minor_sdo != w.variant.sdo as u8 || h.version != 2 {
            out.fail("daemon: emitted frame bears a wrong domain / sdoId / version", format!("type {} domain {} sdo {}/{} version {}", h.msg_type, h.domain, h.major_sdo, h.minor_sdo, h.version));
        }
        // what the port originates bears the configured minorVersionPTP (responses echo the requester's)
        if matches!(h.msg_type, T_ANNOUNCE | T_SYNC | T_FOLLOW_UP) && h.minor_version != w.variant.minor_version {
            out.fail("daemon: emitted frame does not bear the configured minorVersionPTP", format!("type {} minorVersionPTP {} (configured {}) ; {}", h.msg_type, h.minor_version, w.variant.minor_version, rendered));
        }
        if m.encode().len() > 1024 {
            out.fail("daemon: emitted frame longer than 1024 bytes", format!("{}", m.encode().len()));
        }
        if matches!(h.msg_type, T_ANNOUNCE | T_SYNC) {
            if let Some(prev) = last_seq.insert(h.msg_type, h.seq) {
                if h.seq != prev.wrapping_add(1) {
                    out.fail(format!("daemon: {} sequenceId does not increase by one", type_name(h.msg_type)), format!("{} after {} ; {}", h.seq, prev, rendered));
                }
            }
        }
        match &m.body {
            RBody::Sync { .. } => syncs.push((h.seq, *at, h.flags[0] & 0x02 != 0)),
            RBody::FollowUp { precise_origin } => fups.push((h.seq, ((precise_origin.total_ns() as i128) << 16) + h.correction as i128)),
            RBody::DelayResp { receive, requesting } => {
                match reqs.iter().find(|r| r.0 == h.seq && r.1 == *requesting) {
                    None => out.fail("daemon: Delay_Resp does not echo requester and sequence id of any request", format!("seq {} requesting {:?} ; {}", h.seq, requesting, rendered)),
                    Some(r) => {
                        let got = ((receive.total_ns() as i128) << 16) + h.correction as i128 - r.2 as i128;
                        let d = (got >> 16) - r.3 as i128;
                        if !(-1_000_000..=20_000_000).contains(&d) {
                            out.fail("daemon: Delay_Resp receiveTimestamp + correction is not the receive time plus the request's correction", format!("off by {:.3} ms from the time the request was sent (allowed -1..20 ms) ; seq {} corr_req {} corr_resp {} ; {}", ms(d), h.seq, r.2, h.correction, rendered));
                        }
                    }
                }
            }
            _ => {}
        }
    }
    // every Pdelay_Req answered by exactly one response and one follow-up echoing requester and id
    if !pd_sent.is_empty() {
        let mut resp: std::collections::HashMap<u16, (u32, u32)> = Default::default();
        for (_, m) in &frames {
            match &m.body {
                RBody::PdelayResp { requesting, .. } if *requesting == pd_src => resp.entry(m.header.seq).or_default().0 += 1,
                RBody::PdelayRespFup { requesting, .. } if *requesting == pd_src => resp.entry(m.header.seq).or_default().1 += 1,
                _ => {}
            }
        }
        let bad: Vec<(u16, (u32, u32))> = pd_sent.iter().map(|s| (*s, resp.get(s).copied().unwrap_or((0, 0)))).filter(|(_, c)| *c != (1, 1)).collect();
        if !bad.is_empty() {
            out.fail("daemon: Pdelay_Req not answered by exactly one Pdelay_Resp and one Pdelay_Resp_Follow_Up", format!("{} of {} requests, e.g. seq {} got {:?} (responses, follow-ups) ; {}", bad.len(), pd_sent.len(), bad[0].0, bad[0].1, rendered));
        }
        out.label("daemon:pdelay-stream");
    }
    // every Delay_Req answered exactly once
    for r in &reqs {
        let n = frames.iter().filter(|(_, m)| matches!(&m.body, RBody::DelayResp { requesting, .. } if *requesting == r.1) && m.header.seq == r.0).count();
        if n != 1 {
            out.fail("daemon: Delay_Req not answered by exactly one Delay_Resp", format!("{} responses for seq {} ; {}", n, r.0, rendered));
        }
    }
    // Sync / Follow_Up pairing (the last Sync may still wait for its Follow_Up)
    for (i, (seq, at, two_step)) in syncs.iter().enumerate() {
        let mine: Vec<&(u16, i128)> = fups.iter().filter(|f| f.0 == *seq).collect();
        if !*two_step {
            continue;
        }
        // a Sync whose transmit timestamp was not reported (plugged egress) legitimately stays without Follow_Up
        if mine.len() > 1 || (mine.is_empty() && i + 1 < syncs.len() && plug_ms == 0) {
            out.fail("daemon: two-step Sync not followed by exactly one Follow_Up with its sequence id", format!("{} Follow_Ups for Sync {} ; {}", mine.len(), seq, rendered));
        }
        if let Some(f) = mine.first() {
            let d = (f.1 >> 16) - *at as i128;
            if !(-20_000_000..=1_000_000).contains(&d) {
                out.fail("daemon: Follow_Up origin + correction is not the transmit time of its Sync", format!("off by {:.3} ms from the arrival of Sync {} (allowed -20..1 ms) ; {}", ms(d), seq, rendered));
            }
        }
    }
    for f in &fups {
        if !syncs.iter().any(|s| s.0 == f.0) && syncs.first().map(|s| s.0 != f.0.wrapping_add(1)).unwrap_or(true) {
            out.fail("daemon: Follow_Up without a Sync of that sequence id", format!("seq {} ; {}", f.0, rendered));
        }
    }
    if !syncs.is_empty() && !reqs.is_empty() {
        out.nontrivial = Some(hash_of(&rendered.to_string()));
    }
    out.label("daemon:master-side");
    E2eOut { out, inconclusive: None }
}

// ---------------------------------------------------------------- C02 case (the real servo steering the daemon's clock)

/// One case: the harness is a grandmaster whose clock differs from the system clock by a generated offset and
/// drift; the daemon's slave port locks to it and the daemon's *other* port, being master, stamps its Sync/Follow_Up
/// with the daemon's (steered, virtual) clock - so every Follow_Up shows the daemon's clock at a moment the kernel
/// stamped on arrival, and the difference to the grandmaster's clock at that moment is the true offset.
pub fn case_c02(w: &mut World, t: &mut Tape) -> E2eOut {
    let mut out = CaseOut::new();
    let mag = match t.weighted(&[1, 2, 2, 2]) {
        0 => 0i128,
        1 => t.below(1_000_000) as i128,
        2 => t.below(100_000_000) as i128,
        _ => t.below(5_000_000_000) as i128,
    };
    w.gm_offset_ns = if t.bool() { -mag } else { mag };
    w.gm_drift_ppm = match t.weighted(&[1, 3]) {
        0 => 0.0,
        _ => t.range(-100_000, 100_000) as f64 / 1000.0,
    };
    w.gm_epoch_ns = now_ns();
    w.link_delay_ns = 0;
    w.emulate_master = true;
    let run_s: u64 = std::env::var("VERIF_C02_E2E_SECS").ok().and_then(|x| x.parse().ok()).unwrap_or(30);
    w.frames_b.clear();
    w.keep_frames = true;
    let t0 = Instant::now();
    let mut samples: Vec<(f64, f64)> = vec![]; // (seconds since start, offset ns)
    let mut syncs: std::collections::HashMap<u16, u128> = Default::default();
    while t0.elapsed() < Duration::from_secs(run_s) {
        let d = Instant::now() + Duration::from_millis(200);
        w.run_until(d);
        for (at, m) in std::mem::take(&mut w.frames_b) {
            match &m.body {
                RBody::Sync { .. } => {
                    syncs.insert(m.header.seq, at);
                }
                RBody::FollowUp { precise_origin } => {
                    if let Some(at) = syncs.remove(&m.header.seq) {
                        let daemon_clock = precise_origin.total_ns() as i128 + ((m.header.correction as i128) >> 16);
                        let gm = w.gm_clock(at) as i128;
                        samples.push((t0.elapsed().as_secs_f64(), (daemon_clock - gm) as f64));
                    }
                }
                _ => {}
            }
        }
    }
    w.keep_frames = false;
    w.emulate_master = false;
    let trace: Vec<String> = samples.iter().step_by((samples.len() / 30).max(1)).map(|(s, o)| format!("{:.1}s:{:.0}", s, o)).collect();
    let rendered = json!({"gm_offset_ns": w.gm_offset_ns.to_string(), "gm_drift_ppm": w.gm_drift_ppm, "run_s": run_s, "samples": samples.len(), "trace(ns)": trace});
    out.render = rendered.clone();
    if !w.alive() {
        out.fail("daemon exited", rendered.to_string());
    } else if !w.steady() {
        w.gm_offset_ns = 0;
        w.gm_drift_ppm = 0.0;
        return E2eOut { out, inconclusive: Some(format!("daemon not (Slave, Master) at the end: {:?}", w.port_states())) };
    } else {
        // the last quarter of the run (at least 5 s): median and 90th percentile of |offset|
        let from = run_s as f64 * 0.75;
        let mut tail: Vec<f64> = samples.iter().filter(|(s, _)| *s >= from).map(|(_, o)| o.abs()).collect();
        tail.sort_by(|a, b| a.partial_cmp(b).unwrap());
        if tail.len() < 10 {
            w.gm_offset_ns = 0;
            w.gm_drift_ppm = 0.0;
            return E2eOut { out, inconclusive: Some(format!("only {} Sync/Follow_Up pairs of the daemon's master port seen in the last quarter", tail.len())) };
        }
        let median = tail[tail.len() / 2];
        let p90 = tail[tail.len() * 9 / 10];
        // stated real-time tolerance (calibration: DESIGN.md 0.2): loose in the 30 s quick runs, tighter in longer ones
        let (b_med, b_p90) = if run_s >= 60 { (100_000.0, 400_000.0) } else { (200_000.0, 1_000_000.0) };
        if median > b_med || p90 > b_p90 {
            out.fail("daemon: clock of the slave daemon does not stay near its master's within the stated tolerance", format!("last quarter of {} s: median |offset| {:.0} ns (allowed {:.0}), 90th percentile {:.0} ns (allowed {:.0}) ; {}", run_s, median, b_med, p90, b_p90, rendered));
        }
        out.label(format!("daemon:median-offset<={}us", [1.0, 3.0, 10.0, 30.0, 100.0, 1000.0, 1e9].iter().find(|x| median / 1000.0 <= **x).unwrap()));
    }
    out.nontrivial = Some(hash_of(&format!("{}{}", w.gm_offset_ns, w.gm_drift_ppm)));
    // back to the system clock for the next case
    w.gm_offset_ns = 0;
    w.gm_drift_ppm = 0.0;
    E2eOut { out, inconclusive: None }
}

// ---------------------------------------------------------------- C03 case (hostile input against the real daemon)

/// One case: 200-1500 frames are thrown at both ports of the daemon (it is slave of the harness's parent on one and
/// master on the other): well-formed random messages of every type, many of them from the identities the daemon is
/// in a relation with (its parent, a requester, itself) and with extreme field values; mutated valid frames; raw
/// random bytes of 0..1400 octets; with the daemon's domain/sdoId written in or not. Afterwards the daemon has ten
/// seconds to show that it is alive: Announces on the master port, a fresh Delay_Req answered, the observation
/// socket answering. A panic anywhere in the library or in the daemon kills the process.
pub fn case_c03(w: &mut World, t: &mut Tape) -> E2eOut {
    let mut out = CaseOut::new();
    if !w.steady() {
        let d = Instant::now() + Duration::from_millis(2000);
        w.run_until(d);
        if !w.steady() {
            return E2eOut { out, inconclusive: Some(format!("daemon not in (Slave, Master) before the case: {:?}", w.port_states())) };
        }
    }
    let n = t.urange(200, 1500) as usize;
    let me_slave = w.slave_port_id();
    let me_master = PortId { clock: w.own_identity, port: (1 - w.slave_idx) as u16 + 1 };
    let mut kinds = [0u64; 5];
    let mut sent_bytes = 0usize;
    let mut laden: Vec<String> = vec![];
    for i in 0..n {
        let kind = t.weighted(&[80, 60, 40, 60, 2]);
        kinds[kind] += 1;
        if kind == 4 {
            // a well-formed Announce of the parent itself, as full of TLVs as the daemon's 1024-byte receive buffer
            // allows: a long PATH_TRACE, or more small propagating TLVs than any queue inside the daemon holds;
            // then one BMCA period, and an observation while the daemon holds all that
            let mut tl = vec![];
            match t.below(3) {
                0 => {
                    let ids = *t.pick(&[8usize, 40, 90, 118]);
                    let mut v = vec![];
                    for k in 0..ids {
                        v.extend_from_slice(&[0x00, 0x1b, 0x19, 0xf0, 0, 0, (k >> 8) as u8, k as u8]);
                    }
                    laden.push(format!("PATH_TRACE of {} identities", ids));
                    tl.push(RTlv { typ: 0x0008, value: v });
                }
                1 => {
                    let cnt = *t.pick(&[10usize, 100, 129, 200, 238]);
                    let typ = *t.pick(&[0x4000u16, 0x7fff, 0x5a5a]);
                    laden.push(format!("{} empty TLVs of type {:#06x}", cnt, typ));
                    for _ in 0..cnt {
                        tl.push(RTlv { typ, value: vec![] });
                    }
                }
                _ => {
                    let cnt = *t.pick(&[20usize, 60, 94]);
                    laden.push(format!("{} TLVs of 6 bytes of mixed propagating types", cnt));
                    for k in 0..cnt {
                        tl.push(RTlv { typ: [0x4000u16, 0x0009, 0x7000][k % 3], value: vec![k as u8; 6] });
                    }
                }
            }
            w.parent_plan.push_back((tl, ANN_MS + 30));
            w.run_plan(Duration::from_millis(ANN_MS + 20));
            let _ = w.observe();
            continue;
        }
        let mut bytes: Vec<u8> = match kind {
            0 => gen_msg(t).encode(),
            1 => {
                let mut b = gen_msg(t).encode();
                crate::c04::mutate(t, &mut b);
                b
            }
            2 => {
                let l = match t.below(3) {
                    0 => t.below(40) as usize,
                    1 => t.below(200) as usize,
                    _ => t.below(1400) as usize,
                };
                t.bytes(l)
            }
            _ => {
                // a message the daemon has a use for, from an identity it knows, with values at the edges
                let ty = *t.pick(&[T_SYNC, T_FOLLOW_UP, T_DELAY_RESP, T_ANNOUNCE, T_DELAY_REQ, T_PDELAY_REQ, T_PDELAY_RESP, T_PDELAY_RESP_FUP]);
                let mut m = gen_msg_of(t, ty);
                m.header.source = *t.pick(&[PARENT, OTHER, me_slave, me_master]);
                m.header.version = 2;
                m.header.minor_version = 1;
                m.header.correction = *t.pick(&[0i64, i64::MAX, i64::MIN, -1, 1 << 62, -(1 << 62), 0x7fff_ffff_ffff_0000u64 as i64]);
                if let Some(seq) = w.seen_a_delay_req.last() {
                    if t.bool() {
                        m.header.seq = *seq;
                    }
                }
                match &mut m.body {
                    RBody::DelayResp { requesting, .. } | RBody::PdelayResp { requesting, .. } | RBody::PdelayRespFup { requesting, .. } => *requesting = *t.pick(&[me_slave, me_master]),
                    RBody::Announce(a) => {
                        a.steps_removed = *t.pick(&[0u16, 254, 255, 65535]);
                        a.gm_priority1 = *t.pick(&[0u8, 1, 255]);
                    }
                    _ => {}
                }
                let mut b = m.encode();
                if t.chance(1, 6) {
                    crate::c04::mutate(t, &mut b);
                }
                b
            }
        };
        bytes.truncate(1400);
        sent_bytes += bytes.len();
        let patch = !t.chance(1, 4);
        if t.bool() {
            w.a1.send_bytes(&bytes, patch);
        } else {
            w.b1.send_bytes(&bytes, patch);
        }
        if i % 16 == 15 {
            let d = Instant::now() + Duration::from_millis(2);
            w.run_until(d);
        }
    }
    let rendered = json!({"frames": n, "bytes": sent_bytes, "kinds(valid random, mutated, raw bytes, edge values from known identities, TLV-laden Announce of the parent + observation)": kinds, "laden": laden});
    out.render = rendered.clone();
    // the daemon may have changed its mind about its parent in the meantime; what counts is that it lives
    let probe_src = PortId { clock: [0x00, 0x1b, 0x19, 0xee, 0, 0, 0, 0x78], port: 1 };
    let r0 = Instant::now();
    let mut ok = false;
    let mut round = 0u16;
    while r0.elapsed() < Duration::from_secs(10) {
        if !w.alive() {
            break;
        }
        w.seen_b.clear();
        w.seen_b_delay_resp.clear();
        let d = Instant::now() + Duration::from_millis(1000);
        w.run_until(d);
        let mut answered = false;
        for k in 0..2u16 {
            let seq = 0x7800 + round * 4 + k;
            let m = RMsg::new(T_DELAY_REQ, probe_src, seq, RBody::DelayReq { origin: RTs::default() });
            w.send_b(&m);
            let d = Instant::now() + Duration::from_millis(250);
            w.run_until(d);
            if w.seen_b_delay_resp.contains(&seq) {
                answered = true;
                break;
            }
        }
        round += 1;
        let announces = w.seen_b.iter().filter(|a| a.msg.header.source.clock == w.own_identity).count();
        if w.steady() && announces >= 2 && answered && w.observe().is_some() {
            ok = true;
            break;
        }
    }
    if !w.alive() {
        let log = std::fs::read_to_string(w.dir.join("daemon.log")).unwrap_or_default();
        let clean: String = log.lines().filter(|l| l.contains("panicked") || l.contains("overflow") || l.contains("unwrap")).take(3).collect::<Vec<_>>().join(" | ");
        out.fail("daemon: the process died on hostile input", format!("{} ; {}", clean, rendered));
    } else if !ok {
        out.fail("daemon: not back in (Slave, Master), announcing and answering within 10 s after hostile input", format!("states {:?} ; {}", w.port_states(), rendered));
    }
    out.nontrivial = Some(hash_of(&rendered.to_string()));
    out.label("daemon:hostile-input");
    E2eOut { out, inconclusive: None }
}

// ---------------------------------------------------------------- C05 case (the daemon's BMCA outcome against the standard's)

/// One case: up to two generated masters on each segment (and the usual parent on the first, in half of the cases)
/// announce steadily for 2 s (in a third of the cases after 3-5 s in which nobody announced at all); their data sets are drawn from small domains around the daemon's own and the parent's
/// values, attributes being a function of the grandmaster identity; several senders may announce one grandmaster at
/// different distances (topology decisions, Passive ports). Then the daemon's port states, parentDS and stepsRemoved
/// are compared with what the harness's own implementation of 1588's data set comparison and state decision gives
/// for the daemon's defaultDS (read from the observation socket) and those candidates. A mismatch must persist for
/// 1.5 s more of steady announcing to count. Cases in which the standard's comparison reports a tie are not judged.
pub fn case_c05(w: &mut World, t: &mut Tape) -> E2eOut {
    use crate::refbmca::{decide, Cand, Code, DsView, PortIn};
    let mut out = CaseOut::new();
    let parent_on = t.bool();
    let ngm = 1 + t.weighted(&[3, 2, 1]);
    let mut gms: Vec<RAnnounce> = vec![];
    for k in 0..ngm {
        let mut a = simple_announce([0x00, 0x1b, 0x19, 0xb0, 0, 0, k as u8, *t.pick(&[1u8, 2, 3, 0xfe])], *t.pick(&[50u8, 99, 100, 100, 101, 127, 128, 129, 200]), *t.pick(&[6u8, 7, 248, 255]), 0);
        a.gm_accuracy = *t.pick(&[0x20u8, 0x21, 0x22, 0xfe]);
        a.gm_variance = *t.pick(&[0x3fffu16, 0x4000, 0x4001, 0x7fff, 0x8000, 0xffff]);
        a.gm_priority2 = *t.pick(&[126u8, 127, 128, 129, 130]);
        gms.push(a);
    }
    // (segment, sender, announce)
    let mut senders: Vec<(char, PortId, RAnnounce, u16)> = vec![];
    for seg in ['a', 'b'] {
        let n = t.below(3);
        for k in 0..n {
            let g = gms[t.below(ngm as u64) as usize];
            let mut ann = g;
            let sender = if t.chance(1, 3) {
                // the grandmaster itself, through one of its ports
                ann.steps_removed = 0;
                PortId { clock: g.gm_identity, port: 1 + k as u16 + if seg == 'b' { 2 } else { 0 } }
            } else {
                ann.steps_removed = t.urange(1, 3) as u16;
                PortId { clock: [0x00, 0x1b, 0x19, 0xb1, seg as u8, 0, 0, k as u8 + 1], port: 1 }
            };
            senders.push((seg, sender, ann, t.below(0x10000) as u16));
        }
    }
    // in a third of the cases nobody announces on either segment for 3-5 s first: both ports are then masters whose
    // announce receipt timers ran out long ago when the masters appear
    let quiet_ms = if t.chance(1, 3) { t.urange(3000, 5000) } else { 0 };
    let rendered = json!({"parent_on": parent_on, "quiet_before_ms": quiet_ms, "senders": senders.iter().map(|s| format!("{} {:02x?}/{} gm {:02x?} p1 {} class {} acc {:#x} var {:#x} p2 {} steps {}", s.0, s.1.clock, s.1.port, s.2.gm_identity, s.2.gm_priority1, s.2.gm_class, s.2.gm_accuracy, s.2.gm_variance, s.2.gm_priority2, s.2.steps_removed)).collect::<Vec<_>>()});
    out.render = rendered.clone();
    let a_port = w.slave_port_id();
    let b_port = PortId { clock: w.own_identity, port: (1 - w.slave_idx) as u16 + 1 };
    if quiet_ms > 0 {
        let q0 = Instant::now();
        while q0.elapsed() < Duration::from_millis(quiet_ms) {
            w.next_parent = Instant::now() + Duration::from_millis(500);
            let d = Instant::now() + Duration::from_millis(50);
            w.run_until(d);
        }
        w.next_parent = Instant::now();
        out.label("daemon:quiet-prelude");
    }
    w.log.clear();
    let mut polls: Vec<(Instant, String, String)> = vec![];
    let mut step = |w: &mut World, senders: &mut Vec<(char, PortId, RAnnounce, u16)>, polls: &mut Vec<(Instant, String, String)>, ms: u64| {
        let t0 = Instant::now();
        let mut next = Instant::now();
        let mut tick = 0u64;
        while t0.elapsed() < Duration::from_millis(ms) {
            tick += 1;
            if tick % 4 == 0 {
                if let Some((a, b)) = w.port_states() {
                    polls.push((Instant::now(), a, b));
                }
            }
            if !parent_on {
                w.next_parent = Instant::now() + Duration::from_millis(500);
            }
            let d = Instant::now() + Duration::from_millis(25);
            w.run_until(d);
            if Instant::now() >= next {
                next = Instant::now() + Duration::from_millis(ANN_MS);
                for s in senders.iter_mut() {
                    s.3 = s.3.wrapping_add(1);
                    let mut m = announce_from(s.1, s.3, s.2, 0, 0);
                    m.header.log_interval = ANN_LOG;
                    if s.0 == 'a' {
                        w.send_a(&m);
                    } else {
                        w.send_b(&m);
                    }
                }
            }
        }
    };
    step(w, &mut senders, &mut polls, 2000);
    let cand_list: Vec<(char, Cand)> = senders.iter().map(|s| (s.0, Cand { sender: s.1, ann: s.2 })).collect();
    let judge = |w: &World| -> Result<Option<String>, String> {
        let Some(o) = w.observe() else { return Err("no observation".into()) };
        let i = &o.instance;
        if i.port_ds.len() != 2 {
            return Err("not two ports".into());
        }
        let dd = &i.default_ds;
        // D0: identity and priorities as configured (not as reported), the clock quality as reported (not configurable)
        let d0 = DsView::d0(w.own_identity, w.variant.own_p1, dd.clock_quality.clock_class, dd.clock_quality.clock_accuracy.to_primitive(), dd.clock_quality.offset_scaled_log_variance, w.variant.own_p2);
        let mut ca: Vec<Cand> = cand_list.iter().filter(|s| s.0 == 'a').map(|s| s.1).collect();
        if parent_on {
            ca.push(Cand { sender: PARENT, ann: w.parent_ann });
        }
        if w.variant.empty_aml_a {
            // that port accepts nobody
            ca.clear();
        }
        let cb: Vec<Cand> = cand_list.iter().filter(|s| s.0 == 'b').map(|s| s.1).collect();
        let ports = [PortIn { id: a_port, listening: false, excluded_from_ebest: false, cands: ca }, PortIn { id: b_port, listening: false, excluded_from_ebest: false, cands: cb }];
        let dec = decide(&d0, &ports);
        if dec.tie {
            return Ok(None);
        }
        let want: Vec<&str> = dec.codes.iter().map(|c| match c {
            Code::M1 | Code::M2 | Code::M3 => "Master",
            Code::P1 | Code::P2 => "Passive",
            Code::S1 => "Slave",
            Code::Stay => "Listening",
        }).collect();
        let got = [format!("{:?}", i.port_ds[w.slave_idx].port_state), format!("{:?}", i.port_ds[1 - w.slave_idx].port_state)];
        let mut diffs = vec![];
        if dd.priority_1 != w.variant.own_p1 || dd.priority_2 != w.variant.own_p2 || dd.clock_identity.0 != w.own_identity {
            diffs.push(format!("defaultDS reports identity {:02x?} priority1 {} priority2 {} where {:02x?} / {} / {} are configured", dd.clock_identity.0, dd.priority_1, dd.priority_2, w.own_identity, w.variant.own_p1, w.variant.own_p2));
        }
        for k in 0..2 {
            if !got[k].starts_with(want[k]) {
                diffs.push(format!("port on the {} segment is {} where the state decision ({:?}) gives {}", if k == 0 { "first" } else { "second" }, got[k].split('(').next().unwrap_or(""), dec.codes[k], want[k]));
            }
        }
        let p = &i.parent_ds;
        let slave = dec.codes.iter().position(|c| *c == Code::S1);
        match (slave, dec.ebest) {
            (Some(_), Some((_, c))) => {
                if p.parent_port_identity.clock_identity.0 != c.sender.clock || p.parent_port_identity.port_number != c.sender.port {
                    diffs.push(format!("parent {:02x?}/{} where Ebest was sent by {:02x?}/{}", p.parent_port_identity.clock_identity.0, p.parent_port_identity.port_number, c.sender.clock, c.sender.port));
                }
                if p.grandmaster_identity.0 != c.ann.gm_identity || p.grandmaster_priority_1 != c.ann.gm_priority1 || p.grandmaster_priority_2 != c.ann.gm_priority2 || p.grandmaster_clock_quality.clock_class != c.ann.gm_class || p.grandmaster_clock_quality.offset_scaled_log_variance != c.ann.gm_variance {
                    diffs.push(format!("parentDS grandmaster {:02x?} p1 {} p2 {} class {} where Ebest has {:02x?} p1 {} p2 {} class {}", p.grandmaster_identity.0, p.grandmaster_priority_1, p.grandmaster_priority_2, p.grandmaster_clock_quality.clock_class, c.ann.gm_identity, c.ann.gm_priority1, c.ann.gm_priority2, c.ann.gm_class));
                }
                if i.current_ds.steps_removed != c.ann.steps_removed + 1 {
                    diffs.push(format!("stepsRemoved {} where Ebest has {} + 1", i.current_ds.steps_removed, c.ann.steps_removed));
                }
            }
            _ => {
                if p.parent_port_identity.clock_identity.0 != w.own_identity || i.current_ds.steps_removed != 0 || p.grandmaster_identity.0 != w.own_identity {
                    diffs.push(format!("no port is slave by the state decision, yet parent {:02x?}, grandmaster {:02x?}, stepsRemoved {}", p.parent_port_identity.clock_identity.0, p.grandmaster_identity.0, i.current_ds.steps_removed));
                }
            }
        }
        Ok(Some(if diffs.is_empty() { String::new() } else { format!("{} ; decision codes {:?}, own defaultDS p1 {} class {} acc {:#x} var {:#x} p2 {}", diffs.join(" ; "), dec.codes, dd.priority_1, dd.clock_quality.clock_class, dd.clock_quality.clock_accuracy.to_primitive(), dd.clock_quality.offset_scaled_log_variance, dd.priority_2) }))
    };
    let mut verdict = judge(w);
    let mut extra = 0;
    while matches!(&verdict, Ok(Some(d)) if !d.is_empty()) && extra < 15 {
        step(w, &mut senders, &mut polls, 100);
        verdict = judge(w);
        extra += 1;
    }
    let codes_label;
    match verdict {
        Err(e) => {
            if !w.alive() {
                out.fail("daemon exited", rendered.to_string());
                return E2eOut { out, inconclusive: None };
            }
            return E2eOut { out, inconclusive: Some(e) };
        }
        Ok(None) => {
            codes_label = "tie:not-judged".to_string();
        }
        Ok(Some(d)) => {
            if !d.is_empty() {
                out.fail("daemon: BMCA outcome differs from the standard's state decision", format!("{} ; {}", d, rendered));
            }
            codes_label = "judged".to_string();
            if !senders.is_empty() {
                out.nontrivial = Some(hash_of(&rendered.to_string()));
            }
        }
    }
    // the wire must agree: a port that the daemon reports Slave from some observation on to the end of the case sends
    // no Announce and no Sync from 150 ms after that observation on
    let frames = w.log.clone();
    if std::env::var("VERIF_E2E_DEBUG").is_ok() {
        let base = polls.first().map(|p| p.0).unwrap_or_else(Instant::now);
        eprintln!("polls: {:?}", polls.iter().map(|p| format!("{}:{}/{}", p.0.saturating_duration_since(base).as_millis(), &p.1[..2], &p.2[..2])).collect::<Vec<_>>());
        eprintln!("frames: {:?}", frames.iter().map(|f| format!("{}:{}{:x}", f.2.saturating_duration_since(base).as_millis(), f.0, f.1)).collect::<Vec<_>>());
    }
    for (k, side) in ['a', 'b'].iter().enumerate() {
        let st = |p: &(Instant, String, String)| if k == 0 { p.1.starts_with("Slave") } else { p.2.starts_with("Slave") };
        let Some(last) = polls.last() else { continue };
        if !st(last) {
            continue;
        }
        let mut from = polls.len() - 1;
        while from > 0 && st(&polls[from - 1]) {
            from -= 1;
        }
        let (t_from, t_to) = (polls[from].0 + Duration::from_millis(150), last.0);
        let n = frames.iter().filter(|f| f.0 == *side && matches!(f.1, T_ANNOUNCE | T_SYNC) && f.2 >= t_from && f.2 <= t_to).count();
        if n > 0 && out.violation.is_none() {
            out.fail("daemon: a port decided (and reported) slave keeps sending as a master", format!("{} Announce/Sync frames on the {} segment during the {} ms in which every observation showed that port Slave ; {}", n, if k == 0 { "first" } else { "second" }, t_to.saturating_duration_since(t_from).as_millis(), rendered));
        }
    }
    out.label(format!("daemon:bmca:{}", codes_label));
    if let Some((a, b)) = w.port_states() {
        out.label(format!("daemon:states:{}/{}", a.split('(').next().unwrap_or(""), b.split('(').next().unwrap_or("")));
    }
    // leave the daemon as the next case expects it
    w.next_parent = Instant::now();
    let r0 = Instant::now();
    while r0.elapsed() < Duration::from_millis(3000) {
        let d = Instant::now() + Duration::from_millis(100);
        w.run_until(d);
        if r0.elapsed() > Duration::from_millis(700) && w.steady() {
            break;
        }
    }
    E2eOut { out, inconclusive: None }
}

// ---------------------------------------------------------------- C07 case (traffic that must have no effect)

/// One case: the daemon is slaved for 3 s to a grandmaster played by the harness whose clock is the system clock (so
/// that every honest measurement is a few hundred microseconds at most), then for 3-5 s more while frames are sent
/// that the property says have no effect. Each is built from a frame that would have had an effect and then made
/// ignorable in exactly one way: another domainNumber / majorSdoId / minorSdoId, versionPTP 1, cut short, an Announce
/// bearing the daemon's own clock identity, an Announce from outside the acceptable master list (workers with such a
/// list), a Sync / Follow_Up / Delay_Resp from someone who is not the parent (timed to sit between the parent's Sync
/// and Follow_Up, or ahead of the parent's Delay_Resp, with the very sequence id), a Delay_Resp for another requester.
/// Their timestamps are 5 ms to 5 s off, so one that is used shows. Oracle: the observable port states, parent,
/// grandmaster, stepsRemoved and time properties never change; every measurement the daemon logs stays within 2 ms of
/// zero; there are no more measurements than honest exchanges; the Announces of the master port keep their content
/// and count on by one; nobody gets a Delay_Resp or Pdelay_Resp for a request in another domain.
pub fn case_c07(w: &mut World, t: &mut Tape) -> E2eOut {
    let mut out = CaseOut::new();
    if !w.steady() {
        let d = Instant::now() + Duration::from_millis(2000);
        w.run_until(d);
        if !w.steady() {
            return E2eOut { out, inconclusive: Some(format!("daemon not in (Slave, Master) before the case: {:?}", w.port_states())) };
        }
    }
    w.gm_offset_ns = 0;
    w.gm_drift_ppm = 0.0;
    w.gm_epoch_ns = now_ns();
    w.link_delay_ns = 0;
    w.emulate_master = true;
    let d = Instant::now() + Duration::from_millis(3000);
    w.run_until(d);
    let key = |w: &World| -> Option<String> {
        let o = w.observe()?;
        let i = &o.instance;
        Some(format!("{:?} parent={:?} steps={} tp={:?}", i.port_ds.iter().map(|p| format!("{:?}", p.port_state).split('(').next().unwrap_or("").to_string()).collect::<Vec<_>>(), i.parent_ds, i.current_ds.steps_removed, i.time_properties_ds))
    };
    let Some(base) = key(w) else { w.emulate_master = false; return E2eOut { out, inconclusive: Some("no observation".into()) } };
    let log_mark_a = std::fs::metadata(w.dir.join("daemon.log")).map(|m| m.len()).unwrap_or(0);
    // converged? (one more second, measured)
    let d = Instant::now() + Duration::from_millis(1000);
    w.run_until(d);
    let pre = w.logged_measurements_since(log_mark_a);
    let worst_pre = pre.iter().map(|m| m.1.unwrap_or(0.0).abs().max(m.2.unwrap_or(0.0).abs())).fold(0.0f64, f64::max);
    if pre.len() < 4 || worst_pre > 600_000.0 {
        w.emulate_master = false;
        return E2eOut { out, inconclusive: Some(format!("not settled before the noise: {} measurements, worst {:.0} ns", pre.len(), worst_pre)) };
    }
    let log_mark = std::fs::metadata(w.dir.join("daemon.log")).map(|m| m.len()).unwrap_or(0);
    w.syncs_sent.clear();
    w.dreqs_answered.clear();
    w.frames_b.clear();
    w.keep_frames = true;
    let me_slave = w.slave_port_id();
    let noise_id = PortId { clock: [0x00, 0x1b, 0x19, 0xee, 0, 0, 0, 0x66], port: 1 };
    let foreign_req = PortId { clock: [0x00, 0x1b, 0x19, 0xee, 0, 0, 0, 0x67], port: 1 };
    let (dom, sdo) = (w.variant.domain, w.variant.sdo);
    let aml = w.variant.aml;
    let run_ms = t.urange(3000, 5000);
    use std::collections::BTreeMap;
    let mut classes: BTreeMap<&'static str, u64> = BTreeMap::new();
    let mut key_changes: Vec<String> = vec![];
    let t0 = Instant::now();
    let mut ann_seq = t.below(0x10000) as u16;
    let mut tick = 0u64;
    // a frame in the daemon's own domain, then possibly disguised
    let finish = |t: &mut Tape, mut m: RMsg, disguise: u64, classes: &mut BTreeMap<&'static str, u64>| -> Vec<u8> {
        m.header.domain = dom;
        m.header.major_sdo = (sdo >> 8) as u8;
        m.header.minor_sdo = sdo as u8;
        let name = match disguise {
            0 => {
                m.header.domain = dom.wrapping_add(*t.pick(&[1u8, 2, 128, 255]));
                "other-domain"
            }
            1 => {
                m.header.major_sdo ^= *t.pick(&[1u8, 2, 8]);
                "other-majorSdoId"
            }
            2 => {
                m.header.minor_sdo ^= *t.pick(&[1u8, 0x80, 0xff]);
                "other-minorSdoId"
            }
            3 => {
                m.header.version = 1;
                "versionPTP-1"
            }
            4 => "cut-short",
            _ => "semantic",
        };
        *classes.entry(name).or_default() += 1;
        let mut b = m.encode();
        if disguise == 4 {
            let keep = t.urange(1, 43).min(b.len() as u64 - 1) as usize;
            b.truncate(keep);
        }
        b
    };
    while t0.elapsed() < Duration::from_millis(run_ms) {
        let d = Instant::now() + Duration::from_millis(25);
        w.run_until(d);
        tick += 1;
        let off = {
            let mag = *t.pick(&[5_000_000i128, 50_000_000, 1_000_000_000, 5_000_000_000]);
            if t.bool() { mag } else { -mag }
        };
        let wrong_time = RTs::from_ns((now_ns() as i128 + off) as u128);
        let n = t.urange(1, 3);
        for _ in 0..n {
            let kind = t.below(if aml { 9 } else { 8 });
            match kind {
                // would-be effective frames of every type, disguised at the header / length level
                0 | 1 => {
                    let disguise = t.below(5);
                    let which = t.below(5);
                    let m = match which {
                        0 => {
                            ann_seq = ann_seq.wrapping_add(1);
                            let mut a = simple_announce(noise_id.clock, 1, 6, 0);
                            a.gm_identity = noise_id.clock;
                            let mut m = announce_from(if aml { OTHER } else { noise_id }, ann_seq, a, 0, 0);
                            m.header.log_interval = ANN_LOG;
                            m
                        }
                        1 => {
                            let mut m = RMsg::new(T_SYNC, PARENT, w.sync_seq.wrapping_add(1), RBody::Sync { origin: wrong_time });
                            m.header.log_interval = ANN_LOG;
                            m
                        }
                        2 => RMsg::new(T_FOLLOW_UP, PARENT, w.sync_seq, RBody::FollowUp { precise_origin: wrong_time }),
                        3 => RMsg::new(T_DELAY_RESP, PARENT, w.seen_a_delay_req.last().copied().unwrap_or(0).wrapping_add(1), RBody::DelayResp { receive: wrong_time, requesting: me_slave }),
                        _ => RMsg::new(T_DELAY_REQ, foreign_req, t.below(0x10000) as u16, RBody::DelayReq { origin: RTs::default() }),
                    };
                    let b = finish(t, m, disguise, &mut classes);
                    match which {
                        2 => w.noise_before_fup.push((b, false)),
                        3 => w.noise_before_dresp.push((b, false)),
                        4 => {
                            w.b1.send_bytes(&b, false);
                        }
                        _ => {
                            if t.chance(3, 4) {
                                w.a1.send_bytes(&b, false);
                            } else {
                                w.b1.send_bytes(&b, false);
                            }
                        }
                    }
                }
                // an Announce bearing the daemon's own clock identity, better than anything
                2 => {
                    ann_seq = ann_seq.wrapping_add(1);
                    // (the receiving port's own port identity: an Announce from a sibling port of the instance is
                    // ordinary traffic and does have an effect)
                    let on_a = t.bool();
                    let src = if on_a { me_slave } else { PortId { clock: w.own_identity, port: (1 - w.slave_idx) as u16 + 1 } };
                    let mut a = simple_announce(noise_id.clock, 1, 6, 0);
                    a.gm_identity = *t.pick(&[noise_id.clock, w.own_identity]);
                    let mut m = announce_from(src, ann_seq, a, 0, 0);
                    m.header.log_interval = ANN_LOG;
                    let b = finish(t, m, 9, &mut classes);
                    *classes.entry("announce-own-identity").or_default() += 1;
                    if on_a {
                        w.a1.send_bytes(&b, false);
                    } else {
                        w.b1.send_bytes(&b, false);
                    }
                }
                // a Sync (one- or two-step) from someone who is not the parent
                3 => {
                    let src = *t.pick(&[OTHER, PortId { clock: PARENT.clock, port: PARENT.port + 1 }, noise_id]);
                    let mut m = RMsg::new(T_SYNC, src, if t.bool() { w.sync_seq.wrapping_add(1) } else { t.below(0x10000) as u16 }, RBody::Sync { origin: wrong_time });
                    m.header.set_flag(F_TWO_STEP, t.bool());
                    m.header.log_interval = ANN_LOG;
                    let b = finish(t, m, 9, &mut classes);
                    *classes.entry("sync-not-from-parent").or_default() += 1;
                    w.a1.send_bytes(&b, false);
                }
                // a Follow_Up from someone who is not the parent, between the parent's Sync and Follow_Up, same sequence id
                4 => {
                    let src = *t.pick(&[OTHER, PortId { clock: PARENT.clock, port: PARENT.port + 1 }, noise_id]);
                    let m = RMsg::new(T_FOLLOW_UP, src, 0, RBody::FollowUp { precise_origin: wrong_time });
                    let b = finish(t, m, 9, &mut classes);
                    *classes.entry("follow-up-not-from-parent").or_default() += 1;
                    w.noise_before_fup.push((b, false));
                }
                // a Delay_Resp from someone who is not the parent, ahead of the parent's, same sequence id
                5 => {
                    let src = *t.pick(&[OTHER, PortId { clock: PARENT.clock, port: PARENT.port + 1 }, noise_id]);
                    let m = RMsg::new(T_DELAY_RESP, src, 0, RBody::DelayResp { receive: wrong_time, requesting: me_slave });
                    let b = finish(t, m, 9, &mut classes);
                    *classes.entry("delay-resp-not-from-parent").or_default() += 1;
                    w.noise_before_dresp.push((b, false));
                }
                // the parent's Delay_Resp for another requester, ahead of the right one, same sequence id
                6 => {
                    let req = *t.pick(&[PortId { clock: w.own_identity, port: me_slave.port + 1 }, PortId { clock: w.own_identity, port: 0xffff }, foreign_req, PortId { clock: { let mut c = w.own_identity; c[7] ^= 1; c }, port: me_slave.port }]);
                    let m = RMsg::new(T_DELAY_RESP, PARENT, 0, RBody::DelayResp { receive: wrong_time, requesting: req });
                    let b = finish(t, m, 9, &mut classes);
                    *classes.entry("delay-resp-for-another-requester").or_default() += 1;
                    w.noise_before_dresp.push((b, false));
                }
                // a Pdelay_Req in another domain on the master port's segment
                7 => {
                    let m = RMsg::new(T_PDELAY_REQ, foreign_req, t.below(0x10000) as u16, RBody::PdelayReq { origin: RTs::default(), reserved: [0; 10] });
                    let d = t.below(3);
                    let b = finish(t, m, d, &mut classes);
                    w.b1.send_bytes(&b, false);
                }
                // an Announce from outside the acceptable master list (two in a row would qualify it)
                _ => {
                    ann_seq = ann_seq.wrapping_add(1);
                    let mut a = simple_announce(noise_id.clock, 1, 6, 0);
                    a.gm_identity = noise_id.clock;
                    // (the daemon's own clock identity is not on its list either)
                    let src = *t.pick(&[noise_id, noise_id, PortId { clock: w.own_identity, port: 0 }, PortId { clock: w.own_identity, port: 7 }]);
                    let mut m = announce_from(src, ann_seq, a, 0, 0);
                    m.header.log_interval = ANN_LOG;
                    let b = finish(t, m, 9, &mut classes);
                    *classes.entry("announce-outside-acceptable-list").or_default() += 1;
                    if t.bool() {
                        w.a1.send_bytes(&b, false);
                    } else {
                        w.b1.send_bytes(&b, false);
                    }
                }
            }
        }
        if tick % 4 == 0 {
            if let Some(k) = key(w) {
                if k != base && key_changes.len() < 3 {
                    key_changes.push(k);
                }
            }
        }
    }
    w.noise_before_fup.clear();
    w.noise_before_dresp.clear();
    // let the last honest exchanges finish
    let d = Instant::now() + Duration::from_millis(300);
    w.run_until(d);
    w.keep_frames = false;
    w.emulate_master = false;
    let frames = std::mem::take(&mut w.frames_b);
    let total: u64 = classes.values().sum();
    let rendered = json!({"run_ms": run_ms, "noise": classes, "acceptable_master_list": aml, "master_only_second_port": w.variant.master_only.is_some(), "syncs_sent": w.syncs_sent.len(), "delay_requests_answered": w.dreqs_answered.len()});
    out.render = rendered.clone();
    if !w.alive() {
        out.fail("daemon exited", rendered.to_string());
        return E2eOut { out, inconclusive: None };
    }
    if let Some(k) = key_changes.first() {
        out.fail("daemon: observable state changed while only ignorable traffic was added", format!("before: {} ; during: {} ; {}", base, k, rendered));
        return E2eOut { out, inconclusive: None };
    }
    let ms = w.logged_measurements_since(log_mark);
    let (mut n_sync, mut n_delay) = (0usize, 0usize);
    for (ev, rso, rdo) in &ms {
        if let Some(x) = rso {
            n_sync += 1;
            if x.abs() > 2_000_000.0 && out.violation.is_none() {
                out.fail("daemon: an offset measurement moved while only ignorable traffic was added", format!("raw sync offset {:.0} ns at event time {:.0} (before the noise: at most {:.0} ns) ; {}", x, ev, worst_pre, rendered));
            }
        }
        if let Some(x) = rdo {
            n_delay += 1;
            if x.abs() > 2_000_000.0 && out.violation.is_none() {
                out.fail("daemon: a delay measurement moved while only ignorable traffic was added", format!("raw delay offset {:.0} ns at event time {:.0} (before the noise: at most {:.0} ns) ; {}", x, ev, worst_pre, rendered));
            }
        }
    }
    if (n_sync > w.syncs_sent.len() + 2 || n_delay > w.dreqs_answered.len() + 2) && out.violation.is_none() {
        out.fail("daemon: more measurements than honest exchanges", format!("{} offset measurements for {} Syncs, {} delay measurements for {} answered Delay_Reqs ; {}", n_sync, w.syncs_sent.len(), n_delay, w.dreqs_answered.len(), rendered));
    }
    // the master port: Announces count on by one with one content; nobody in another domain is answered; no Announce
    // or Sync ahead of its timer (a timer cannot fire early, so two of a kind are never closer than the interval)
    let mut last_ann: Option<(u16, String)> = None;
    let mut last_at: [Option<u128>; 2] = [None, None];
    for (at, m) in &frames {
        let k = match &m.body {
            RBody::Announce(_) => Some(0),
            RBody::Sync { .. } => Some(1),
            _ => None,
        };
        if let Some(k) = k {
            if let Some(prev) = last_at[k] {
                let gap_ms = (*at as i128 - prev as i128) as f64 / 1e6;
                if gap_ms < 0.8 * ANN_MS as f64 && out.violation.is_none() {
                    out.fail("daemon: the master port's schedule was disturbed by ignorable traffic", format!("two {}s of the master port {:.1} ms apart (interval {} ms) ; {}", if k == 0 { "Announce" } else { "Sync" }, gap_ms, ANN_MS, rendered));
                }
            }
            last_at[k] = Some(*at);
        }
        match &m.body {
            RBody::Announce(a) => {
                let content = format!("{:?}", (a.gm_identity, a.gm_priority1, a.gm_priority2, a.gm_class, a.steps_removed));
                if let Some((seq, c)) = &last_ann {
                    if m.header.seq != seq.wrapping_add(1) && out.violation.is_none() {
                        out.fail("daemon: Announce sequence of the master port disturbed by ignorable traffic", format!("{} after {} ; {}", m.header.seq, seq, rendered));
                    }
                    if *c != content && out.violation.is_none() {
                        out.fail("daemon: Announce content of the master port changed while only ignorable traffic was added", format!("{} then {} ; {}", c, content, rendered));
                    }
                }
                last_ann = Some((m.header.seq, content));
            }
            RBody::DelayResp { requesting, .. } | RBody::PdelayResp { requesting, .. } => {
                if *requesting == foreign_req && out.violation.is_none() {
                    out.fail("daemon: a request in another domain / sdoId / version was answered", format!("{} to {:?} ; {}", type_name(m.header.msg_type), requesting, rendered));
                }
            }
            _ => {}
        }
    }
    if total >= 50 && n_sync >= 5 && n_delay >= 5 {
        out.nontrivial = Some(hash_of(&rendered.to_string()));
    }
    out.label(format!("daemon:noise-classes:{}", classes.len()));
    E2eOut { out, inconclusive: None }
}

// ---------------------------------------------------------------- C08 case (roles of the real daemon's ports)

/// One case: two masters, P on the first segment (priority1 100) and Q on the second (priority1 50 or 120), come and
/// go in 3-6 generated phases of 0.7-1.5 s, so that the daemon's ports change roles. The observation socket is polled
/// every 20 ms and every frame the daemon sends is noted with its segment. Invariants: never more than one slave
/// port; Announce / Sync / Follow_Up / Delay_Resp on a segment only while that port is, or within 200 ms becomes or
/// was, master; Delay_Req on a segment never while that port is master throughout the surrounding 400 ms.
pub fn case_c08(w: &mut World, t: &mut Tape) -> E2eOut {
    let mut out = CaseOut::new();
    let nph = t.urange(3, 6) as usize;
    let mut phases = vec![];
    for _ in 0..nph {
        phases.push((t.chance(2, 3), t.chance(2, 3), *t.pick(&[50u8, 120]), t.urange(700, 1500)));
    }
    let rendered = json!({"phases(P on, Q on, Q priority1, ms)": phases.iter().map(|p| format!("{:?}", p)).collect::<Vec<_>>()});
    out.render = rendered.clone();
    let q = PortId { clock: [0x00, 0x1b, 0x19, 0xcc, 0, 0, 0, 0x51], port: 1 };
    let mut q_seq = t.below(0x10000) as u16;
    let probe_src = PortId { clock: [0x00, 0x1b, 0x19, 0xdd, 0, 0, 0, 0x09], port: 1 };
    let mut probe_seq = t.below(0x10000) as u16;
    let probe_phase = t.below(4);
    let (mut tick, mut probes) = (0u64, 0u64);
    w.log.clear();
    let mut polls: Vec<(Instant, String, String)> = vec![];
    for (p_on, q_on, q_p1, ms) in &phases {
        let p0 = Instant::now();
        w.next_parent = if *p_on { Instant::now() } else { p0 + Duration::from_millis(*ms + 50) };
        let mut next_q = Instant::now();
        while p0.elapsed() < Duration::from_millis(*ms) {
            let d = Instant::now() + Duration::from_millis(20);
            w.run_until(d);
            if *q_on && Instant::now() >= next_q {
                next_q = Instant::now() + Duration::from_millis(ANN_MS);
                q_seq = q_seq.wrapping_add(1);
                let mut ann = simple_announce(q.clock, *q_p1, 6, 0);
                ann.gm_identity = q.clock;
                let mut m = announce_from(q, q_seq, ann, 0, 0);
                m.header.log_interval = ANN_LOG;
                w.send_b(&m);
            }
            // a foreign requester on both segments: only a master port may answer it
            if tick % 4 == probe_phase {
                probe_seq = probe_seq.wrapping_add(1);
                let m = RMsg::new(T_DELAY_REQ, probe_src, probe_seq, RBody::DelayReq { origin: RTs::default() });
                w.send_a(&m);
                w.send_b(&m);
                probes += 1;
            }
            tick += 1;
            if let Some((a, b)) = w.port_states() {
                polls.push((Instant::now(), a, b));
            }
        }
    }
    // back to the plain parent
    w.next_parent = Instant::now();
    if !w.alive() {
        out.fail("daemon exited", rendered.to_string());
        return E2eOut { out, inconclusive: None };
    }
    if polls.len() < 20 {
        return E2eOut { out, inconclusive: Some("observation socket hardly answered".into()) };
    }
    let is = |s: &String, what: &str| s.starts_with(what);
    for (_, a, b) in &polls {
        if is(a, "Slave") && is(b, "Slave") {
            out.fail("daemon: two ports in the slave state at once", format!("{} / {} ; {}", a, b, rendered));
            break;
        }
    }
    let frames = w.log.clone();
    let win = Duration::from_millis(200);
    let mut roles_seen: BTreeSet<String> = BTreeSet::new();
    for (_, a, b) in &polls {
        roles_seen.insert(a.split('(').next().unwrap_or("").to_string());
        roles_seen.insert(b.split('(').next().unwrap_or("").to_string());
    }
    // configured restrictions: a slave-only instance never has a master port, a master-only port is never slave
    let seg = |c: char| if c == 'a' { "first" } else { "second" };
    if w.variant.slave_only {
        if let Some((_, a, b)) = polls.iter().find(|p| is(&p.1, "Master") || is(&p.2, "Master")) {
            out.fail("daemon: a slave-only instance has a master port", format!("{} / {} ; {}", a, b, rendered));
        }
        if let Some((side, ty, _)) = frames.iter().find(|f| matches!(f.1, T_ANNOUNCE | T_SYNC | T_FOLLOW_UP | T_DELAY_RESP)) {
            if out.violation.is_none() {
                out.fail("daemon: master traffic from a slave-only instance", format!("{} on the {} segment ; {}", type_name(*ty), seg(*side), rendered));
            }
        }
    }
    if let Some(mo) = w.variant.master_only {
        if let Some((_, a, b)) = polls.iter().find(|p| is(if mo == 'a' { &p.1 } else { &p.2 }, "Slave")) {
            if out.violation.is_none() {
                out.fail("daemon: a master-only port is slave", format!("{} / {} (master-only: the port on the {} segment) ; {}", a, b, seg(mo), rendered));
            }
        }
        if frames.iter().any(|f| f.0 == mo && f.1 == T_DELAY_REQ) && out.violation.is_none() {
            out.fail("daemon: Delay_Req from a master-only port", format!("on the {} segment ; {}", seg(mo), rendered));
        }
    }
    for (side, ty, at) in &frames {
        let around: Vec<&String> = polls.iter().filter(|p| p.0 + win >= *at && *at + win >= p.0).map(|p| if *side == 'a' { &p.1 } else { &p.2 }).collect();
        if around.len() < 4 {
            continue;
        }
        let master_type = matches!(*ty, T_ANNOUNCE | T_SYNC | T_FOLLOW_UP | T_DELAY_RESP);
        if master_type && around.iter().all(|s| !is(s, "Master")) && out.violation.is_none() {
            out.fail("daemon: master traffic from a port that is not master", format!("{} on the {} segment while that port was {:?} throughout the surrounding 400 ms ; {}", type_name(*ty), if *side == 'a' { "first" } else { "second" }, around.iter().map(|s| s.as_str()).collect::<BTreeSet<_>>(), rendered));
        }
        if *ty == T_DELAY_REQ && around.iter().all(|s| is(s, "Master")) && out.violation.is_none() {
            out.fail("daemon: Delay_Req from a port that is master", format!("on the {} segment ; {}", if *side == 'a' { "first" } else { "second" }, rendered));
        }
    }
    // leave the daemon as the next case expects it
    let r0 = Instant::now();
    while r0.elapsed() < Duration::from_millis(2500) {
        let d = Instant::now() + Duration::from_millis(100);
        w.run_until(d);
        if w.steady() {
            break;
        }
    }
    if roles_seen.len() >= 2 {
        out.nontrivial = Some(hash_of(&rendered.to_string()));
    }
    out.label(format!("daemon:roles-seen:{}", roles_seen.len()));
    out.label(format!("daemon:delay-req-probes:{}", if probes >= 20 { ">=20" } else { "<20" }));
    E2eOut { out, inconclusive: None }
}

// ---------------------------------------------------------------- C09 case (what the real daemon hands to its filter)

/// One case: the harness is the grandmaster (kernel timestamps both ways, generated drift); for 6-10 s it records
/// every Sync it sent (kernel transmit time, origin timestamp t1 in the Follow_Up) and every Delay_Req it answered
/// (kernel receive time, t4 replied), and reads the daemon's clock off its master port (D = daemon clock - system
/// clock). Every measurement the daemon logs must be that of one of those exchanges - its event time within 2 ms of
/// one Sync's (Delay_Req's) moment - and carry the value of that exchange: raw sync offset = t2 - t1 = D - G + latency,
/// raw delay offset = t3 - t4 = D - G - latency, where G = grandmaster clock - system clock is known exactly and the
/// latency of the veth pair is 0..300 us (and D is read to +-100 us).
pub fn case_c09(w: &mut World, t: &mut Tape) -> E2eOut {
    let mut out = CaseOut::new();
    // a few readings of the daemon's clock from before the grandmaster's clock changes (the daemon's first measurements
    // of this case are still taken on its old time scale)
    w.emulate_master = true;
    w.frames_b.clear();
    w.keep_frames = true;
    let d = Instant::now() + Duration::from_millis(400);
    w.run_until(d);
    let before = std::mem::take(&mut w.frames_b);
    w.gm_offset_ns = match t.below(3) {
        0 => 0,
        1 => t.range(-400_000, 400_000) as i128,
        _ => t.range(-3_000_000_000, 3_000_000_000) as i128,
    };
    w.gm_drift_ppm = t.range(-60_000, 60_000) as f64 / 1000.0;
    w.gm_epoch_ns = now_ns();
    let (off, drift, epoch) = (w.gm_offset_ns, w.gm_drift_ppm, w.gm_epoch_ns);
    let g_at = move |sys: f64| -> f64 { off as f64 + (sys - epoch as f64) * drift / 1e6 };
    w.link_delay_ns = 0;
    w.emulate_master = true;
    w.syncs_sent.clear();
    w.dreqs_answered.clear();
    let run_s = t.urange(6, 10);
    let asym = w.variant.asym_ns as f64;
    // in half of the cases the slave port's egress is throttled for 1.2-2.5 s (token bucket, about one frame per half
    // second), so that its requests leave late and some transmit timestamps are not reported in time: whatever the
    // daemon measures then must still be built from the real departure of the frame
    let throttle = if t.bool() { Some((t.urange(1000, 3000), t.urange(1200, 2500))) } else { None };
    let dev = if w.variant.swap { "b0" } else { "a0" };
    let mut throttled = 0u8;
    let log_mark = std::fs::metadata(w.dir.join("daemon.log")).map(|m| m.len()).unwrap_or(0);
    w.frames_b = before;
    w.keep_frames = true;
    let t0 = Instant::now();
    let mut dsamples: Vec<(f64, f64)> = vec![]; // (system ns, daemon clock - system clock)
    let mut syncs: std::collections::HashMap<u16, u128> = Default::default();
    while t0.elapsed() < Duration::from_secs(run_s) {
        let d = Instant::now() + Duration::from_millis(200);
        w.run_until(d);
        if let Some((at_ms, for_ms)) = throttle {
            let e = t0.elapsed().as_millis() as u64;
            if throttled == 0 && e >= at_ms {
                throttled = if sh(&format!("tc qdisc replace dev {} root tbf rate 1kbit burst 100 limit 400000", dev)).is_ok() { 1 } else { 3 };
            } else if throttled == 1 && e >= at_ms + for_ms {
                // the bucket stays in place, wide open (deleting it would drop whatever is still queued in it)
                let _ = sh(&format!("tc qdisc change dev {} root tbf rate 1gbit burst 400000 limit 4000000", dev));
                throttled = 2;
            }
        }
        for (at, m) in std::mem::take(&mut w.frames_b) {
            match &m.body {
                RBody::Sync { .. } => {
                    syncs.insert(m.header.seq, at);
                }
                RBody::FollowUp { precise_origin } => {
                    if let Some(at) = syncs.remove(&m.header.seq) {
                        let daemon_clock = precise_origin.total_ns() as i128 + ((m.header.correction as i128) >> 16);
                        dsamples.push((at as f64, (daemon_clock - at as i128) as f64));
                    }
                }
                _ => {}
            }
        }
    }
    if throttled == 1 {
        let _ = sh(&format!("tc qdisc change dev {} root tbf rate 1gbit burst 400000 limit 4000000", dev));
    }
    if throttled == 1 || throttled == 2 {
        out.label("daemon:slave-egress-throttled");
    }
    w.keep_frames = false;
    w.emulate_master = false;
    w.gm_offset_ns = 0;
    w.gm_drift_ppm = 0.0;
    if w.log_contains_since(log_mark, "Missing send timestamp") {
        out.label("daemon:transmit-timestamp-late");
    }
    let rendered = json!({"gm_offset_ns": off.to_string(), "gm_drift_ppm": drift, "run_s": run_s, "slave_egress_throttled(at ms, for ms)": throttle, "delay_asymmetry_ns": w.variant.asym_ns, "delay_mechanism": if w.variant.p2p { "P2P" } else { "E2E" }, "syncs_sent": w.syncs_sent.len(), "delay_requests_answered": w.dreqs_answered.len()});
    out.render = rendered.clone();
    if !w.alive() {
        out.fail("daemon exited", rendered.to_string());
        return E2eOut { out, inconclusive: None };
    }
    let ms = w.logged_measurements_since(log_mark);
    // D at a system time: the nearest sample, only where the clock was not stepped around it
    let d_at = |sys: f64| -> Option<f64> {
        let i = dsamples.iter().position(|s| s.0 >= sys)?;
        if i == 0 {
            return None;
        }
        let (a, b) = (dsamples[i - 1], dsamples[i]);
        if b.0 - a.0 > 400e6 || (b.1 - a.1).abs() > 100_000.0 {
            return None;
        }
        Some(a.1 + (b.1 - a.1) * (sys - a.0) / (b.0 - a.0))
    };
    let mut checked = 0;
    for (ev, rso, rdo) in &ms {
        // the event time is a reading of the daemon's clock; as system time: minus D (looked up at the approximate moment)
        // The event time is a reading of the daemon's clock, and D may have jumped during the case (the servo steps):
        // every era of D that is consistent with this reading gives a candidate system time; the one that coincides
        // with an exchange is taken.
        let mut cands: Vec<f64> = vec![];
        for s in dsamples.iter() {
            if (*ev - s.1 - s.0).abs() < 700e6 {
                let c = *ev - s.1;
                if !cands.iter().any(|x: &f64| (x - c).abs() < 1e6) {
                    cands.push(c);
                }
            }
        }
        if cands.is_empty() {
            continue;
        }
        let hits = |sys: f64| -> bool {
            if rso.is_some() {
                w.syncs_sent.iter().any(|x| (x.1 as f64 - sys).abs() <= 2e6)
            } else {
                w.dreqs_answered.iter().any(|x| (x.1 as f64 - sys).abs() <= 2e6)
            }
        };
        // The reading may be explained by more than one era (an offset that is nearly a whole number of sync intervals
        // makes two candidates coincide with an exchange each): the measurement is fine if it is that of *some*
        // exchange; it is reported only if no candidate explains it, with the best one.
        let hitting: Vec<f64> = cands.iter().copied().filter(|c| hits(*c)).collect();
        let first = w.syncs_sent.first().map(|x| x.1).unwrap_or(0).max(w.dreqs_answered.first().map(|x| x.1).unwrap_or(0)) as f64;
        if hitting.is_empty() {
            let sys = cands[0];
            // measurements of exchanges that started before this case began are not this case's business
            if sys < first + 1e6 {
                continue;
            }
            if rso.is_some() {
                let Some(sy) = w.syncs_sent.iter().min_by(|a, b| (a.1 as f64 - sys).abs().partial_cmp(&(b.1 as f64 - sys).abs()).unwrap()) else { continue };
                let near: Vec<i64> = w.syncs_sent.iter().map(|x| ((x.1 as f64 - sys) / 1e6) as i64).filter(|d| d.abs() < 400).collect();
                let dn: Vec<(i64, i64)> = dsamples.iter().map(|x| (((x.0 - sys) / 1e6) as i64, (x.1 / 1e3) as i64)).filter(|d| d.0.abs() < 400).collect();
                out.fail("daemon: an offset measurement's event time is not the reception of any Sync the master sent", format!("event time {} (system {:.0}), nearest Sync sent at {} ; Syncs around (ms): {:?} ; D samples around (ms, us): {:?} ; {}", ev, sys, sy.1, near, dn, rendered));
            } else {
                let Some(dr) = w.dreqs_answered.iter().min_by(|a, b| (a.1 as f64 - sys).abs().partial_cmp(&(b.1 as f64 - sys).abs()).unwrap()) else { continue };
                out.fail("daemon: a delay measurement's event time is not the moment of any Delay_Req the master answered", format!("event time {} (system {:.0}), nearest Delay_Req received at {} ; {}", ev, sys, dr.1, rendered));
            }
            break;
        }
        if hitting.iter().all(|c| *c < first + 1e6) {
            continue;
        }
        // (residual, sequence id, expected value, system time of the exchange) per candidate that can be judged
        let mut judged: Vec<(f64, u16, f64, f64)> = vec![];
        let mut unjudged = false;
        for sys in &hitting {
            let ex = if rso.is_some() {
                w.syncs_sent.iter().min_by(|a, b| (a.1 as f64 - sys).abs().partial_cmp(&(b.1 as f64 - sys).abs()).unwrap()).map(|x| (x.0, x.1))
            } else {
                w.dreqs_answered.iter().min_by(|a, b| (a.1 as f64 - sys).abs().partial_cmp(&(b.1 as f64 - sys).abs()).unwrap()).map(|x| (x.0, x.1))
            };
            let Some((seq, at)) = ex else { continue };
            let Some(d) = d_at(at as f64) else {
                unjudged = true;
                continue;
            };
            let expected = d - g_at(at as f64);
            let value = rso.or(*rdo).unwrap_or(0.0);
            judged.push((value + asym - expected, seq, expected, at as f64));
        }
        let (lo, hi) = if rso.is_some() { (-100_000.0, 400_000.0) } else { (-400_000.0, 100_000.0) };
        if std::env::var("VERIF_E2E_DEBUG").is_ok() {
            eprintln!("{} {:?} candidates {:?}", if rso.is_some() { "sync" } else { "delay" }, rso.or(*rdo), judged.iter().map(|j| (j.1, j.0 as i64)).collect::<Vec<_>>());
        }
        if judged.iter().any(|j| (lo..=hi).contains(&j.0)) {
            checked += 1;
            continue;
        }
        if unjudged || judged.is_empty() {
            // an era in which the daemon's clock could not be read (stepped around it) might explain it
            continue;
        }
        checked += 1;
        let best = judged.iter().min_by(|a, b| a.0.abs().partial_cmp(&b.0.abs()).unwrap()).unwrap();
        let dn: Vec<(i64, i64)> = dsamples.iter().map(|x| (((x.0 - best.3) / 1e6) as i64, (x.1 / 1e3) as i64)).filter(|d| d.0.abs() < 700).collect();
        if let Some(rso) = rso {
            out.fail("daemon: offset measurement is not t2 - t1 of the Sync/Follow_Up exchange it belongs to", format!("raw sync offset {:.0} ns, from the harness's own timestamps {:.0} ns (+ latency 0..300 us, +-100 us for the reading of the daemon's clock): off by {:.0} ns ; Sync seq {} ({} candidate exchange(s), the closest shown) ; readings of the daemon's clock around it (ms, us): {:?} ; {}", rso, best.2, best.0, best.1, judged.len(), dn, rendered));
        } else if let Some(rdo) = rdo {
            out.fail("daemon: delay measurement is not t3 - t4 of the Delay_Req/Delay_Resp exchange it belongs to", format!("raw delay offset {:.0} ns, from the harness's own timestamps {:.0} ns (- latency 0..300 us, +-100 us for the reading of the daemon's clock): off by {:.0} ns ; Delay_Req seq {} ({} candidate exchange(s), the closest shown) ; {}", rdo, best.2, best.0, best.1, judged.len(), rendered));
        }
        break;
    }
    if checked < 8 && out.violation.is_none() {
        return E2eOut { out, inconclusive: Some(format!("only {} of {} logged measurements could be compared (clock stepped or too few samples)", checked, ms.len())) };
    }
    out.label(format!("daemon:measurements-compared>={}", (checked / 20) * 20));
    out.nontrivial = Some(hash_of(&rendered.to_string()));
    E2eOut { out, inconclusive: None }
}

// ---------------------------------------------------------------- C11 case (what the real daemon's master port announces)

fn announce_carries(m: &RMsg, ann: &RAnnounce, flags1: u8) -> Option<String> {
    let a = m.announce()?;
    let f1 = m.header.flags[1];
    let leap59 = flags1 & 2 != 0;
    let mut want_f = flags1 & 0x3f;
    if leap59 {
        want_f &= !1;
    }
    let mut d = vec![];
    if a.gm_identity != ann.gm_identity {
        d.push(format!("grandmasterIdentity {:02x?} vs {:02x?}", a.gm_identity, ann.gm_identity));
    }
    if (a.gm_priority1, a.gm_priority2) != (ann.gm_priority1, ann.gm_priority2) {
        d.push(format!("priorities {}/{} vs {}/{}", a.gm_priority1, a.gm_priority2, ann.gm_priority1, ann.gm_priority2));
    }
    if (a.gm_class, a.gm_accuracy, a.gm_variance) != (ann.gm_class, ann.gm_accuracy, ann.gm_variance) {
        d.push(format!("quality {}/{:#x}/{} vs {}/{:#x}/{}", a.gm_class, a.gm_accuracy, a.gm_variance, ann.gm_class, ann.gm_accuracy, ann.gm_variance));
    }
    if a.steps_removed != ann.steps_removed + 1 {
        d.push(format!("stepsRemoved {} vs {}+1", a.steps_removed, ann.steps_removed));
    }
    if a.time_source != ann.time_source {
        d.push(format!("timeSource {:#x} vs {:#x}", a.time_source, ann.time_source));
    }
    if f1 & 0x3f != want_f {
        d.push(format!("flags {:#04x} vs {:#04x}", f1 & 0x3f, want_f));
    }
    if flags1 & 4 != 0 && a.utc_offset != ann.utc_offset {
        d.push(format!("currentUtcOffset {} vs {}", a.utc_offset, ann.utc_offset));
    }
    if d.is_empty() {
        None
    } else {
        Some(d.join(", "))
    }
}

/// One case: the parent changes what it announces (generated contents, always better than the daemon's own data
/// set); every Announce the daemon's master port emits from 40 ms after the parent's first changed Announce left the
/// harness must carry exactly those contents with stepsRemoved + 1. In a third of the cases the parent then falls
/// silent: once the daemon reports both ports master, its Announces must name the daemon itself as grandmaster with
/// stepsRemoved 0 and its own priorities; then the parent returns.
pub fn case_c11(w: &mut World, t: &mut Tape) -> E2eOut {
    let mut out = CaseOut::new();
    if !w.steady() {
        let d = Instant::now() + Duration::from_millis(2000);
        w.run_until(d);
        if !w.steady() {
            return E2eOut { out, inconclusive: Some(format!("daemon not in (Slave, Master) before the case: {:?}", w.port_states())) };
        }
    }
    let mut ann = default_parent_ann();
    if t.chance(3, 4) {
        ann.gm_identity = [0x00, 0x1b, 0x19, 0xdd, t.below(256) as u8, t.below(256) as u8, 0, 1 + t.below(200) as u8];
    }
    ann.gm_priority1 = t.below(128) as u8;
    ann.gm_class = *t.pick(&[6u8, 7, 13, 52, 127, 128, 187, 193, 248, 255]);
    ann.gm_accuracy = *t.pick(&[0x17u8, 0x20, 0x21, 0x2f, 0x31, 0x80, 0xfd, 0xfe]);
    ann.gm_variance = if t.bool() { 0x4e5d } else { t.below(0x10000) as u16 };
    ann.gm_priority2 = t.below(256) as u8;
    ann.steps_removed = if t.chance(1, 4) { *t.pick(&[0u16, 1, 253]) } else { t.below(200) as u16 };
    ann.utc_offset = if t.bool() { 37 } else { t.range(-400, 400) as i16 };
    ann.time_source = *t.pick(&[0x10u8, 0x20, 0x30, 0x40, 0x50, 0x60, 0x90, 0xa0]);
    let flags1 = t.below(64) as u8;
    let silence = t.chance(1, 3);
    let rendered = json!({"announced": format!("{:?}", ann), "flags1": flags1, "then_parent_silent": silence});
    out.render = rendered.clone();
    w.frames_b.clear();
    w.keep_frames = true;
    w.parent_ann = ann;
    w.parent_flags1 = flags1;
    // make the change take effect with the very next parent Announce and note when it left
    w.next_parent = Instant::now();
    let d = Instant::now() + Duration::from_millis(5);
    w.run_until(d);
    let changed_at = w.last_parent_tx_ns;
    let d = Instant::now() + Duration::from_millis(4 * ANN_MS);
    w.run_until(d);
    let frames = std::mem::take(&mut w.frames_b);
    let mut checked = 0;
    for (at, m) in &frames {
        if m.header.msg_type != T_ANNOUNCE || *at < changed_at + 40_000_000 {
            continue;
        }
        checked += 1;
        if let Some(diff) = announce_carries(m, &ann, flags1) {
            out.fail("daemon: Announce of the master port does not carry what the parent last announced (stepsRemoved + 1)", format!("{} ; sent {} ms after the parent's changed Announce ; {}", diff, (*at - changed_at) / 1_000_000, rendered));
            break;
        }
    }
    if let Some(src) = w.unexpected_sources.iter().next() {
        out.fail("daemon: frames on the master port's segment bear a clock identity other than the configured one", format!("{:02x?} (configured {:02x?}) ; {}", src, w.own_identity, rendered));
    }
    if checked == 0 && out.violation.is_none() {
        w.keep_frames = false;
        return E2eOut { out, inconclusive: Some("no Announce of the master port seen after the change".into()) };
    }
    if silence && out.violation.is_none() {
        let s0 = Instant::now();
        w.next_parent = s0 + Duration::from_millis(1500);
        let mut took_over_at = None;
        while s0.elapsed() < Duration::from_millis(1490) {
            let d = Instant::now() + Duration::from_millis(50);
            w.run_until(d);
            if took_over_at.is_none() && matches!(w.port_states(), Some((a, b)) if a.starts_with("Master") && b.starts_with("Master")) {
                took_over_at = Some(now_ns());
                w.frames_b.clear();
            }
        }
        if let Some(at0) = took_over_at {
            for (at, m) in std::mem::take(&mut w.frames_b) {
                if m.header.msg_type != T_ANNOUNCE || at < at0 + 40_000_000 {
                    continue;
                }
                let Some(a) = m.announce() else { continue };
                if a.gm_identity != w.own_identity || a.steps_removed != 0 || a.gm_priority1 != 128 || a.gm_priority2 != 128 {
                    out.fail("daemon: Announce of a daemon that has taken over as grandmaster does not carry its own attributes", format!("gm {:02x?} steps {} priorities {}/{} ; {}", a.gm_identity, a.steps_removed, a.gm_priority1, a.gm_priority2, rendered));
                    break;
                }
            }
            out.label("daemon:took-over");
        }
        // the parent returns
        w.next_parent = Instant::now();
        let r0 = Instant::now();
        while r0.elapsed() < Duration::from_millis(2000) {
            let d = Instant::now() + Duration::from_millis(100);
            w.run_until(d);
            if w.steady() {
                break;
            }
        }
    }
    w.keep_frames = false;
    w.parent_ann = default_parent_ann();
    w.parent_flags1 = 0;
    out.nontrivial = Some(hash_of(&rendered.to_string()));
    out.label("daemon:announces");
    E2eOut { out, inconclusive: None }
}

// ---------------------------------------------------------------- C06 case (foreign master qualification through the real daemon)

/// One case: while the parent (priority1 100) keeps announcing, a new master M with priority1 50 appears on the same
/// segment and sends k Announces, one per interval, then falls silent. k = 1: M must never become the parent (one
/// Announce does not qualify). k >= 6: M must be the parent within 4 intervals + 0.6 s of its second Announce, and
/// must have been dropped (parent again the old one) within 6 intervals + one BMCA period + 0.1 s of its last one
/// (the in-process bound; measured on the unchanged daemon: 0.42-0.48 s). A master that
/// reports stepsRemoved >= 255 or carries the daemon's own clock identity never becomes parent, however long it
/// announces. The observation socket is polled every 20 ms.
pub fn case_c06(w: &mut World, t: &mut Tape, tag: u32) -> E2eOut {
    let mut out = CaseOut::new();
    if !w.steady() {
        let d = Instant::now() + Duration::from_millis(2000);
        w.run_until(d);
        if !w.steady() {
            return E2eOut { out, inconclusive: Some(format!("daemon not in (Slave, Master) before the case: {:?}", w.port_states())) };
        }
    }
    if t.chance(1, 3) {
        // the only master falls silent: within six announce intervals and one BMCA period (+ 0.1 s) the daemon must have given it up
        // (parentDS names the daemon itself again), whatever else is or is not going on
        let rendered = json!({"sole_master_silent_ms": 2500});
        out.render = rendered.clone();
        let s0 = Instant::now();
        w.next_parent = s0 + Duration::from_millis(2500);
        w.a_announces.clear();
        let mut gave_up = None;
        while s0.elapsed() < Duration::from_millis(2490) {
            let d = Instant::now() + Duration::from_millis(20);
            w.run_until(d);
            if gave_up.is_none() && w.observe().map(|o| o.instance.parent_ds.parent_port_identity.clock_identity.0 == w.own_identity).unwrap_or(false) {
                gave_up = Some(s0.elapsed().as_millis() as u64);
            }
        }
        // the last Announce left up to one interval before the silence began
        match gave_up {
            Some(ms) if ms <= 7 * ANN_MS + 100 => {}
            other => out.fail("daemon: the only master fell silent and is still the parent after the bound", format!("parentDS named the daemon itself after {:?} ms (bound {} ms) ; {}", other, 7 * ANN_MS + 100, rendered)),
        }
        // a port that has taken over may still name the lost grandmaster until the next BMCA run (one interval), not for
        // longer: at most two such Announces
        let stale = w.a_announces.iter().filter(|(_, gm)| *gm == PARENT.clock).count();
        out.render = json!({"sole_master_silent_ms": 2500, "parent_given_up_after_ms": gave_up, "announces_naming_the_lost_grandmaster": stale});
        if stale > 2 && out.violation.is_none() {
            out.fail("daemon: a port that took over keeps announcing the lost grandmaster", format!("{} Announces naming it after it fell silent ; {}", stale, rendered));
        }
        w.next_parent = Instant::now();
        let r0 = Instant::now();
        while r0.elapsed() < Duration::from_millis(2500) {
            let d = Instant::now() + Duration::from_millis(100);
            w.run_until(d);
            if w.steady() {
                break;
            }
        }
        out.nontrivial = Some(hash_of(&tag));
        out.label("daemon:sole-master-silent");
        return E2eOut { out, inconclusive: None };
    }
    let kind = t.weighted(&[6, 1, 1]); // 0 ordinary, 1 stepsRemoved >= 255, 2 own clock identity
    let k = match t.weighted(&[3, 1, 4]) {
        0 => 1usize,
        1 => 2,
        _ => 6 + t.below(9) as usize,
    };
    let mut id = PortId { clock: [0x00, 0x1b, 0x19, 0xc6, (tag >> 8) as u8, tag as u8, 0, 1], port: 1 };
    if kind == 2 {
        id = PortId { clock: w.own_identity, port: 7 };
    }
    let mut ann = simple_announce(id.clock, 50, 6, 0);
    ann.gm_identity = if kind == 2 { [0x00, 0x1b, 0x19, 0xc6, 0xff, 0xff, 0, 1] } else { id.clock };
    if kind == 1 {
        ann.steps_removed = *t.pick(&[255u16, 256, 65535]);
    }
    let mut seq: u16 = match t.below(3) {
        0 => 65533,
        1 => 0x7ffd,
        _ => t.below(0x10000) as u16,
    };
    let kind_name = ["ordinary", "stepsRemoved>=255", "own clock identity"][kind];
    let rendered = json!({"announces_of_the_new_master": k, "kind": kind_name, "first_sequence_id": seq});
    out.render = rendered.clone();
    let is_parent = |w: &World| w.observe().map(|o| o.instance.parent_ds.parent_port_identity.clock_identity.0 == id.clock && o.instance.parent_ds.parent_port_identity.port_number == id.port).unwrap_or(false);
    let mut sent_at: Vec<Instant> = vec![];
    let mut became_parent: Option<Instant> = None;
    let mut dropped_at: Option<Instant> = None;
    for _ in 0..k {
        seq = seq.wrapping_add(1);
        let mut m = announce_from(id, seq, ann, 0, 0);
        m.header.log_interval = ANN_LOG;
        w.send_a(&m);
        sent_at.push(Instant::now());
        let until = Instant::now() + Duration::from_millis(ANN_MS);
        while Instant::now() < until {
            let d = (Instant::now() + Duration::from_millis(20)).min(until);
            w.run_until(d);
            let p = is_parent(w);
            if became_parent.is_none() && p {
                became_parent = Some(Instant::now());
            }
            if became_parent.is_some() && dropped_at.is_none() && !p {
                dropped_at = Some(Instant::now());
            }
        }
    }
    let last = *sent_at.last().unwrap();
    // keep watching after the last Announce
    let watch_ms = 7 * ANN_MS + 100 + 400;
    while last.elapsed() < Duration::from_millis(watch_ms) {
        let d = Instant::now() + Duration::from_millis(20);
        w.run_until(d);
        let p = is_parent(w);
        if became_parent.is_none() && p {
            became_parent = Some(Instant::now());
        }
        if became_parent.is_some() && dropped_at.is_none() && !p {
            dropped_at = Some(Instant::now());
        }
    }
    if !w.alive() {
        out.fail("daemon exited", rendered.to_string());
        return E2eOut { out, inconclusive: None };
    }
    if kind != 0 && became_parent.is_some() {
        out.fail(if kind == 1 { "daemon: a master reporting stepsRemoved >= 255 became the parent" } else { "daemon: a sender carrying the daemon's own clock identity became the parent" }, rendered.to_string());
    } else if kind == 0 && k == 1 && became_parent.is_some() {
        out.fail("daemon: a master became the parent on the strength of a single Announce", rendered.to_string());
    } else if kind == 0 && k >= 6 {
        match became_parent {
            None => out.fail("daemon: a steadily announcing better master did not become the parent", format!("{} Announces over {} ms ; {}", k, k as u64 * ANN_MS, rendered)),
            Some(at) => {
                let since_second = at.saturating_duration_since(sent_at[1]).as_millis() as u64;
                if since_second > 4 * ANN_MS + 600 {
                    out.fail("daemon: a steadily announcing better master became the parent only after the bound", format!("{} ms after its second Announce (bound {} ms) ; {}", since_second, 4 * ANN_MS + 600, rendered));
                }
                if let Some(d) = dropped_at {
                    if d + Duration::from_millis(ANN_MS) < last {
                        out.fail("daemon: a master that keeps announcing every interval was dropped", format!("{} ms before its last Announce ; {}", last.saturating_duration_since(d).as_millis(), rendered));
                    }
                }
                match dropped_at {
                    None => out.fail("daemon: a master that fell silent is still the parent after the bound", format!("{} ms after its last Announce ; {}", last.elapsed().as_millis(), rendered)),
                    Some(d) => {
                        let ms = d.saturating_duration_since(last).as_millis() as u64;
                        if ms > 7 * ANN_MS + 100 {
                            out.fail("daemon: a master that fell silent was dropped only after the bound", format!("{} ms after its last Announce (bound {} ms) ; {}", ms, 7 * ANN_MS + 100, rendered));
                        }
                    }
                }
                out.label("daemon:qualified-and-expired");
            }
        }
    }
    // let the daemon settle with the old parent again
    let d = Instant::now() + Duration::from_millis(600);
    w.run_until(d);
    out.nontrivial = Some(hash_of(&rendered.to_string()));
    out.label("daemon:foreign-master");
    E2eOut { out, inconclusive: None }
}

// ---------------------------------------------------------------- C13 case (what the real servo programs into the real clock)

/// One case: as in the C02 part the harness is the grandmaster, but its clock may drift faster than the servo is
/// allowed to follow (+-500..900 ppm against a maximum frequency offset of 400 ppm), or jump. The daemon's clock is
/// an overlay over the system clock, so (daemon clock - system clock), read off the Follow_Ups of the daemon's master
/// port, has the programmed frequency as its slope and the applied steps as its jumps: every slope over >= 3 s
/// without a jump must be within +-(400 + 15) ppm, every jump at least the step threshold (1 ms, -15 %) in magnitude.
pub fn case_c13(w: &mut World, t: &mut Tape) -> E2eOut {
    let mut out = CaseOut::new();
    let mag = match t.weighted(&[1, 2, 2]) {
        0 => 0i128,
        1 => t.below(2_000_000) as i128,
        _ => t.below(500_000_000) as i128,
    };
    w.gm_offset_ns = if t.bool() { -mag } else { mag };
    w.gm_drift_ppm = match t.weighted(&[1, 3]) {
        0 => t.range(-300_000, 300_000) as f64 / 1000.0,
        _ => (if t.bool() { 1.0 } else { -1.0 }) * t.urange(500_000, 900_000) as f64 / 1000.0,
    };
    w.gm_epoch_ns = now_ns();
    w.link_delay_ns = 0;
    w.emulate_master = true;
    let run_s: u64 = std::env::var("VERIF_C13_E2E_SECS").ok().and_then(|x| x.parse().ok()).unwrap_or(20);
    w.frames_b.clear();
    w.keep_frames = true;
    let t0 = Instant::now();
    // (system time of the Sync's arrival in ns, daemon clock - system clock in ns)
    let mut samples: Vec<(f64, f64)> = vec![];
    let mut syncs: std::collections::HashMap<u16, u128> = Default::default();
    while t0.elapsed() < Duration::from_secs(run_s) {
        let d = Instant::now() + Duration::from_millis(200);
        w.run_until(d);
        for (at, m) in std::mem::take(&mut w.frames_b) {
            match &m.body {
                RBody::Sync { .. } => {
                    syncs.insert(m.header.seq, at);
                }
                RBody::FollowUp { precise_origin } => {
                    if let Some(at) = syncs.remove(&m.header.seq) {
                        let daemon_clock = precise_origin.total_ns() as i128 + ((m.header.correction as i128) >> 16);
                        samples.push((at as f64, (daemon_clock - at as i128) as f64));
                    }
                }
                _ => {}
            }
        }
    }
    w.keep_frames = false;
    w.emulate_master = false;
    let gm_off = w.gm_offset_ns;
    let gm_drift = w.gm_drift_ppm;
    w.gm_offset_ns = 0;
    w.gm_drift_ppm = 0.0;
    let rendered = json!({"gm_offset_ns": gm_off.to_string(), "gm_drift_ppm": gm_drift, "run_s": run_s, "samples": samples.len()});
    out.render = rendered.clone();
    if !w.alive() {
        out.fail("daemon exited", rendered.to_string());
        return E2eOut { out, inconclusive: None };
    }
    if samples.len() < 40 {
        return E2eOut { out, inconclusive: Some(format!("only {} Sync/Follow_Up pairs of the daemon's master port seen", samples.len())) };
    }
    // split at jumps: a change of more than 300 us between consecutive samples beyond what 1000 ppm could explain
    let mut segments: Vec<Vec<(f64, f64)>> = vec![vec![]];
    let mut jumps: Vec<f64> = vec![];
    for i in 0..samples.len() {
        if i > 0 {
            let dt = samples[i].0 - samples[i - 1].0;
            let dv = samples[i].1 - samples[i - 1].1;
            if dv.abs() > 300_000.0 + dt * 1e-3 {
                jumps.push(dv);
                segments.push(vec![]);
            }
        }
        segments.last_mut().unwrap().push(samples[i]);
    }
    let max_ppm = 400.0;
    let mut worst: f64 = 0.0;
    let mut fitted = 0;
    for seg in &segments {
        // sliding windows of >= 1.5 s inside a jump-free segment: least-squares slope
        let mut a = 0;
        while a < seg.len() {
            let mut b = a;
            while b < seg.len() && seg[b].0 - seg[a].0 < 3.0e9 {
                b += 1;
            }
            if b >= seg.len() {
                break;
            }
            let win = &seg[a..=b];
            let n = win.len() as f64;
            let mx = win.iter().map(|p| p.0).sum::<f64>() / n;
            let my = win.iter().map(|p| p.1).sum::<f64>() / n;
            let sxx: f64 = win.iter().map(|p| (p.0 - mx) * (p.0 - mx)).sum();
            let sxy: f64 = win.iter().map(|p| (p.0 - mx) * (p.1 - my)).sum();
            let ppm = sxy / sxx * 1e6;
            fitted += 1;
            worst = worst.max(ppm.abs());
            if !ppm.is_finite() || ppm.abs() > max_ppm + 15.0 {
                out.fail("daemon: the clock runs faster or slower than the configured maximum frequency offset allows", format!("{:.1} ppm over a jump-free window of {:.2} s (maximum {} ppm) ; {}", ppm, (win[win.len() - 1].0 - win[0].0) / 1e9, max_ppm, rendered));
                break;
            }
            a += 4;
        }
        if out.violation.is_some() {
            break;
        }
    }
    for j in &jumps {
        // (the difference of two samples 125 ms apart understates a step by the drift in between, up to ~60 us)
        if !j.is_finite() || j.abs() < 850_000.0 {
            out.fail("daemon: the clock was stepped by less than the step threshold", format!("jump of {:.0} ns (threshold 1 ms) ; all jumps {:?} ; {}", j, jumps.iter().map(|x| *x as i64).collect::<Vec<_>>(), rendered));
            break;
        }
    }
    out.label(format!("daemon:steps:{}", jumps.len().min(9)));
    out.label(format!("daemon:max-slope<={}ppm", [10.0, 100.0, 300.0, 390.0, 415.0, 1e9].iter().find(|x| worst <= **x).unwrap()));
    if fitted > 0 {
        out.nontrivial = Some(hash_of(&format!("{}{}", gm_off, gm_drift)));
    }
    E2eOut { out, inconclusive: None }
}

// ---------------------------------------------------------------- C14 case (peer delay through the real daemon)

/// One case on a daemon with peer-to-peer ports: (A) 3-8 of its Pdelay_Req are answered by one responder, one- or
/// two-step, with generated turnaround times (negative ones emulate a longer link); every exchange must yield
/// exactly one measurement, and its value - taken from the daemon's own log - must be ((t4-t1)-(t3-t2))/2 as computed
/// from the harness's kernel timestamps, up to the latency of the veth pair (-5..+300 us); (B) one request is
/// answered by two responders: the port must be Faulty in the next observation; (C) clean answers again: the port
/// must leave Faulty after at most four of them.
pub fn case_c14(w: &mut World, t: &mut Tape) -> E2eOut {
    let mut out = CaseOut::new();
    if !w.steady() {
        let d = Instant::now() + Duration::from_millis(2500);
        w.run_until(d);
        if !w.steady() {
            return E2eOut { out, inconclusive: Some(format!("daemon not in (Slave, Master) before the case: {:?}", w.port_states())) };
        }
    }
    let n_clean = t.urange(3, 8) as usize;
    let mut plan = vec![];
    for _ in 0..n_clean {
        let turnaround_ns: i64 = match t.below(4) {
            0 => t.urange(500, 20_000) as i64,
            1 => -(t.urange(10_000, 400_000) as i64),
            2 => -(t.urange(400_000, 5_000_000) as i64),
            _ => 0,
        };
        plan.push(PdAnswer::Clean { two_step: !t.chance(1, 3), turnaround_ns });
    }
    let with_fault = t.chance(2, 3);
    let rendered = json!({"clean_exchanges": plan.iter().map(|p| format!("{:?}", p)).collect::<Vec<_>>(), "then_two_responders": with_fault});
    out.render = rendered.clone();
    let log_mark = std::fs::metadata(w.dir.join("daemon.log")).map(|m| m.len()).unwrap_or(0);
    w.pd_log.clear();
    w.pd_default = None;
    w.pd_plan = plan.iter().copied().collect();
    let t0 = Instant::now();
    while w.pd_log.len() < n_clean && t0.elapsed() < Duration::from_millis(600 * n_clean as u64 + 1500) {
        let d = Instant::now() + Duration::from_millis(50);
        w.run_until(d);
    }
    let d = Instant::now() + Duration::from_millis(200);
    w.run_until(d);
    if !w.alive() {
        out.fail("daemon exited", rendered.to_string());
        return E2eOut { out, inconclusive: None };
    }
    if w.pd_log.len() < n_clean {
        out.fail("daemon: peer-to-peer port does not send Pdelay_Req at its configured interval", format!("{} requests in {} ms ; {}", w.pd_log.len(), t0.elapsed().as_millis(), rendered));
        return E2eOut { out, inconclusive: None };
    }
    let logged = w.logged_peer_delays_since(log_mark);
    let expected: Vec<f64> = w.pd_log.iter().filter_map(|x| x.1).map(|e| e as f64 / 2.0).collect();
    if expected.len() < n_clean {
        return E2eOut { out, inconclusive: Some("no kernel transmit timestamp for one of the harness's responses".into()) };
    }
    let fits = |got: f64, exp: f64| got - exp >= -5_000.0 && got - exp <= 300_000.0;
    if logged.len() != expected.len() {
        out.fail("daemon: clean peer-delay exchanges and measurements taken do not correspond one to one", format!("{} exchanges answered by one responder, {} measurements logged: {:?} vs expected {:?} ; {}", expected.len(), logged.len(), logged, expected, rendered));
    } else {
        for (g, e) in logged.iter().zip(expected.iter()) {
            if !fits(*g, *e) {
                out.fail("daemon: peer delay is not ((t4-t1)-(t3-t2))/2 of the exchange", format!("measured {:.0} ns, from the harness's timestamps {:.0} ns (+ link latency) ; all: {:?} vs {:?} ; {}", g, e, logged, expected, rendered));
                break;
            }
        }
    }
    if out.violation.is_some() || !with_fault {
        out.nontrivial = Some(hash_of(&rendered.to_string()));
        out.label("daemon:peer-delay");
        return E2eOut { out, inconclusive: None };
    }
    // (B) two responders to one request
    w.pd_log.clear();
    w.pd_plan.push_back(PdAnswer::TwoResponders);
    let t1 = Instant::now();
    while w.pd_log.is_empty() && t1.elapsed() < Duration::from_millis(2000) {
        let d = Instant::now() + Duration::from_millis(50);
        w.run_until(d);
    }
    let mut faulty = false;
    let f0 = Instant::now();
    while f0.elapsed() < Duration::from_millis(600) {
        let d = Instant::now() + Duration::from_millis(50);
        w.run_until(d);
        if w.port_states().map(|s| s.0.starts_with("Faulty")).unwrap_or(false) {
            faulty = true;
            break;
        }
    }
    if !faulty {
        out.fail("daemon: responses from two responders to one request did not make the port faulty", format!("states {:?} ; {}", w.port_states(), rendered));
        return E2eOut { out, inconclusive: None };
    }
    out.label("daemon:two-responders");
    // (C) recovery through clean exchanges. The parent stays silent meanwhile, so that the port, once it has left
    //     Faulty, stays Listening (it cannot become slave and hide a stale observation behind the next role change)
    w.pd_log.clear();
    w.pd_default = Some(PdAnswer::Clean { two_step: true, turnaround_ns: 1000 });
    let r0 = Instant::now();
    w.next_parent = r0 + Duration::from_millis(4200);
    let mut recovered = false;
    let rec_mark = std::fs::metadata(w.dir.join("daemon.log")).map(|m| m.len()).unwrap_or(0);
    let mut log_says_left: Option<Instant> = None;
    while r0.elapsed() < Duration::from_millis(4000) {
        let d = Instant::now() + Duration::from_millis(50);
        w.run_until(d);
        if w.port_states().map(|s| !s.0.starts_with("Faulty")).unwrap_or(false) {
            recovered = true;
            break;
        }
        // the daemon's own log is a second witness: once it says the port left Faulty, the observation socket has
        // two BMCA periods (+ slack) to say so, too
        if log_says_left.is_none() && w.log_contains_since(rec_mark, "Faulty -> ") {
            log_says_left = Some(Instant::now());
        }
        if let Some(at) = log_says_left {
            if at.elapsed() > Duration::from_millis(320) {
                out.fail("daemon: the observation socket still shows the port faulty although it has left that state", format!("daemon log reported the transition more than 320 ms ago ; states {:?} ; {}", w.port_states(), rendered));
                break;
            }
        }
        if w.pd_log.len() >= 5 {
            break;
        }
    }
    if !recovered && w.pd_log.len() >= 4 {
        out.fail("daemon: port still faulty after four exchanges answered by exactly one responder", format!("states {:?} ; {}", w.port_states(), rendered));
    } else if !recovered && w.pd_log.len() < 2 {
        out.fail("daemon: a faulty peer-to-peer port no longer sends Pdelay_Req (it can then never leave the faulty state)", format!("{} requests in {} ms (interval 250 ms) ; states {:?} ; {}", w.pd_log.len(), r0.elapsed().as_millis(), w.port_states(), rendered));
    }
    w.next_parent = Instant::now();
    // leave the daemon as the next case expects it
    let d = Instant::now() + Duration::from_millis(1500);
    w.run_until(d);
    w.pd_default = None;
    w.pd_plan.clear();
    out.nontrivial = Some(hash_of(&rendered.to_string()));
    out.label("daemon:peer-delay");
    E2eOut { out, inconclusive: None }
}

// ---------------------------------------------------------------- worker / parent plumbing

/// `vcheck E2E-WORKER <prop> <seed> <first> <count> <stride> [tape.json]`
/// (total, idle) jiffies of all CPUs from /proc/stat
fn cpu_jiffies() -> Option<(u64, u64)> {
    let s = std::fs::read_to_string("/proc/stat").ok()?;
    let l = s.lines().next()?;
    let v: Vec<u64> = l.split_whitespace().skip(1).filter_map(|x| x.parse().ok()).collect();
    if v.len() < 5 {
        return None;
    }
    Some((v.iter().take(8).sum(), v[3] + v[4]))
}

pub fn worker_main(args: &[String]) -> i32 {
    // die with the parent check process (e.g. when its watchdog ends it)
    unsafe {
        libc::prctl(libc::PR_SET_PDEATHSIG, libc::SIGKILL);
    }
    let prop = args.get(0).cloned().unwrap_or_default();
    let seed: u64 = args.get(1).and_then(|s| s.parse().ok()).unwrap_or(0);
    let first: u64 = args.get(2).and_then(|s| s.parse().ok()).unwrap_or(0);
    let count: u64 = args.get(3).and_then(|s| s.parse().ok()).unwrap_or(1);
    let stride: u64 = args.get(4).and_then(|s| s.parse().ok()).unwrap_or(1);
    let tape_file = args.get(5).cloned();
    if prop == "C01" {
        // networks of daemons: no harness-side PTP traffic, own set-up per case
        let _ = sh("ip link set lo up");
        let fixed: Option<Vec<u64>> = tape_file.as_ref().map(|p| {
            let s = std::fs::read_to_string(p).expect("read replay");
            let v: Value = serde_json::from_str(&s).expect("parse replay");
            v["tape"].as_array().expect("tape").iter().map(|x| x.as_u64().unwrap()).collect()
        });
        let max_nodes: usize = std::env::var("VERIF_C01_E2E_NODES").ok().and_then(|x| x.parse().ok()).unwrap_or(3);
        for k in 0..count {
            let idx = first + k * stride;
            let mut tape = match &fixed {
                Some(v) => Tape::replay(v.clone()),
                None => Tape::fresh(seed ^ hash_str("daemons"), idx),
            };
            let r = crate::netd::case_c01(&mut tape, max_nodes, &format!("k{}", k % 10));
            let line = json!({
                "index": idx,
                "tape": tape.recorded(),
                "inconclusive": r.inconclusive,
                "violation": r.out.violation.as_ref().map(|v| json!({"sig": v.sig, "detail": v.detail})),
                "nontrivial": r.out.nontrivial,
                "labels": r.out.labels,
                "render": r.out.render,
            });
            println!("{}", line);
        }
        return 0;
    }
    let variant = Variant::from_index(first, &prop);
    let (path_trace, udp) = (variant.path_trace, variant.udp);
    if let Err(e) = World::setup_links() {
        println!("{}", json!({"fatal": e}));
        return 2;
    }
    let mut w = match World::start(variant) {
        Ok(w) => w,
        Err(e) => {
            println!("{}", json!({"fatal": e}));
            return 2;
        }
    };
    let fixed: Option<Vec<u64>> = tape_file.map(|p| {
        let s = std::fs::read_to_string(p).expect("read replay");
        let v: Value = serde_json::from_str(&s).expect("parse replay");
        v["tape"].as_array().expect("tape").iter().map(|x| x.as_u64().unwrap()).collect()
    });
    let mut exporter = if prop == "C19" {
        match RealExporter::start(&w) {
            Ok(e) => Some(e),
            Err(e) => {
                println!("{}", json!({"fatal": e}));
                return 2;
            }
        }
    } else {
        None
    };
    for k in 0..count {
        let idx = first + k * stride;
        let mut tape = match &fixed {
            Some(v) => Tape::replay(v.clone()),
            None => Tape::fresh(seed ^ hash_str("daemon"), idx),
        };
        let _ = w.capture_drops();
        let cpu0 = cpu_jiffies();
        let r = match prop.as_str() {
            "C15" => case_c15(&mut w, &mut tape, idx as u32),
            "C19" => case_c19(&mut w, exporter.as_ref().unwrap(), &mut tape),
            "C17" => case_c17(&mut w, &mut tape),
            "C12" => case_c12(&mut w, &mut tape),
            "C10" => case_c10(&mut w, &mut tape),
            "C02" => case_c02(&mut w, &mut tape),
            "C14" => case_c14(&mut w, &mut tape),
            "C13" => case_c13(&mut w, &mut tape),
            "C11" => case_c11(&mut w, &mut tape),
            "C03" => case_c03(&mut w, &mut tape),
            "C09" => case_c09(&mut w, &mut tape),
            "C08" => case_c08(&mut w, &mut tape),
            "C07" => case_c07(&mut w, &mut tape),
            "C05" => case_c05(&mut w, &mut tape),
            "C06" => case_c06(&mut w, &mut tape, idx as u32),
            _ => {
                println!("{}", json!({"fatal": format!("no end-to-end case for {}", prop)}));
                return 2;
            }
        };
        let mut r = r;
        let lost = w.capture_drops();
        if lost > 0 && r.inconclusive.is_none() {
            // the harness did not see everything that was on the wire (it was not scheduled for too long): whatever
            // the case concluded is not reliable
            r.inconclusive = Some(format!("{} frames dropped at the harness's capture sockets (machine overloaded)", lost));
            r.out.violation = None;
        }
        // Every bound in these cases is a real-time bound. If the machine as a whole was saturated while the case ran
        // (all CPUs more than 92 % busy: with eight workers and their daemons alone it is about half idle), the daemon,
        // the harness and the kernel work between them were kept waiting for milliseconds at a time and a failure
        // proves nothing: inconclusive, like a capture drop.
        let busy = match (cpu0, cpu_jiffies()) {
            (Some((t0, i0)), Some((t1, i1))) if t1 > t0 + 50 => 1.0 - (i1.saturating_sub(i0)) as f64 / (t1 - t0) as f64,
            _ => 0.0,
        };
        if busy > 0.92 && r.out.violation.is_some() && r.inconclusive.is_none() {
            r.inconclusive = Some(format!("all CPUs were {:.0} % busy during the case (machine saturated by other work); the case failed with: {}", busy * 100.0, r.out.violation.as_ref().map(|v| v.sig.clone()).unwrap_or_default()));
            r.out.violation = None;
        }
        if busy > 0.92 {
            r.out.label("daemon:machine-saturated");
        }
        if !r.out.render.is_object() {
            r.out.render = json!({});
        }
        if let Some(o) = r.out.render.as_object_mut() {
            o.insert("path_trace".into(), json!(path_trace));
            o.insert("transport".into(), json!(if udp { "udp-ipv4" } else { "ethernet" }));
            o.insert("variant_alt".into(), json!(variant.alt));
            o.insert("slave_port".into(), json!(w.slave_idx + 1));
            o.insert("delay_mechanism".into(), json!(if variant.p2p { "P2P" } else { "E2E" }));
            o.insert("sdo_id".into(), json!(variant.sdo));
            o.insert("domain".into(), json!(variant.domain));
            o.insert("acceptable_master_list".into(), json!(variant.aml));
            o.insert("delay_asymmetry_ns".into(), json!(variant.asym_ns));
            o.insert("own_priority1".into(), json!(variant.own_p1));
            o.insert("own_priority2".into(), json!(variant.own_p2));
            o.insert("slave_only".into(), json!(variant.slave_only));
            o.insert("log_sync_interval".into(), json!(variant.sync_log));
            o.insert("minor_version_ptp".into(), json!(variant.minor_version));
            o.insert("empty_acceptable_master_list_on_first_segment".into(), json!(variant.empty_aml_a));
            o.insert("master_only_port_on_segment".into(), json!(variant.master_only.map(|c| c.to_string())));
        }
        let line = json!({
            "index": idx,
            "tape": tape.recorded(),
            "inconclusive": r.inconclusive,
            "violation": r.out.violation.as_ref().map(|v| json!({"sig": v.sig, "detail": v.detail})),
            "nontrivial": r.out.nontrivial,
            "labels": r.out.labels,
            "render": r.out.render,
        });
        println!("{}", line);
        if r.out.violation.is_some() || r.inconclusive.is_some() || !w.alive() {
            // a wedged or dead daemon must not spoil the following cases: start a fresh one
            drop(exporter.take());
            drop(w);
            w = match World::start(variant) {
                Ok(w) => w,
                Err(e) => {
                    println!("{}", json!({"fatal": format!("restart: {}", e)}));
                    return 2;
                }
            };
            if prop == "C19" {
                exporter = RealExporter::start(&w).ok();
                if exporter.is_none() {
                    println!("{}", json!({"fatal": "exporter restart failed"}));
                    return 2;
                }
            }
        }
    }
    0
}

pub struct PartSummary {
    pub cases: u64,
    pub inconclusive: u64,
    pub skipped: Option<String>,
}

/// run `n` end-to-end cases over `workers` daemons, absorb the results into `rep` under part name "daemon"
pub fn run_part(ctx: &Ctx, rep: &mut Report, n: u64, workers: u64) -> PartSummary {
    let t0 = Instant::now();
    if let Err(e) = available() {
        rep.parts.push(json!({"part": "daemon", "cases": 0, "skipped": e}));
        return PartSummary { cases: 0, inconclusive: 0, skipped: Some(e) };
    }
    let exe = std::env::current_exe().expect("current exe");
    let workers = workers.max(1).min(n.max(1));
    let per = (n + workers - 1) / workers;
    let mut children = vec![];
    for wi in 0..workers {
        let c = Command::new("unshare")
            .arg("-n")
            .arg(&exe)
            .args(["E2E-WORKER", &ctx.prop, &ctx.seed.to_string(), &wi.to_string(), &per.to_string(), &workers.to_string()])
            .stdin(Stdio::null())
            .stdout(Stdio::piped())
            .stderr(Stdio::null())
            .spawn();
        match c {
            Ok(c) => children.push(c),
            Err(e) => {
                rep.parts.push(json!({"part": "daemon", "cases": 0, "skipped": format!("spawn: {}", e)}));
                return PartSummary { cases: 0, inconclusive: 0, skipped: Some(e.to_string()) };
            }
        }
    }
    let mut cases = 0u64;
    let mut inconclusive = 0u64;
    let mut fatal: Vec<String> = vec![];
    let mut sample_inconclusive: Option<String> = None;
    let mut unconfirmed: Vec<String> = vec![];
    for mut c in children {
        let so = c.stdout.take().unwrap();
        for line in BufReader::new(so).lines().map_while(Result::ok) {
            let Ok(v) = serde_json::from_str::<Value>(&line) else { continue };
            if let Some(f) = v["fatal"].as_str() {
                fatal.push(f.to_string());
                continue;
            }
            cases += 1;
            if let Some(r) = v["inconclusive"].as_str() {
                inconclusive += 1;
                sample_inconclusive.get_or_insert(r.to_string());
                continue;
            }
            let mut out = CaseOut::new();
            if let Some(viol) = v["violation"].as_object() {
                let sig = viol["sig"].as_str().unwrap_or("").to_string();
                let known_sig = rep.violations.iter().any(|(x, _, _)| x.sig == sig);
                // real time: a violation only counts if the same case fails again in a fresh daemon (3 more runs)
                if known_sig || confirm(ctx, &v) {
                    out.fail(sig, viol["detail"].as_str().unwrap_or("").to_string());
                } else {
                    unconfirmed.push(format!("{} (case {})", sig, v["index"]));
                }
            }
            out.nontrivial = v["nontrivial"].as_u64();
            if let Some(ls) = v["labels"].as_array() {
                for l in ls {
                    if let Some(s) = l.as_str() {
                        out.label(s.to_string());
                    }
                }
            }
            out.render = v["render"].clone();
            let tape: Vec<u64> = v["tape"].as_array().map(|a| a.iter().filter_map(|x| x.as_u64()).collect()).unwrap_or_default();
            let sig = out.violation.as_ref().map(|x| x.sig.clone());
            let dup = sig.as_ref().map(|s| rep.violations.iter().any(|(x, _, _)| &x.sig == s)).unwrap_or(false);
            if dup {
                out.violation = None;
            }
            let had = rep.violations.len();
            rep.absorb(out, &tape);
            if rep.violations.len() > had {
                rep.viol_parts.push("daemon".into());
            }
        }
        let _ = c.wait();
    }
    rep.parts.push(json!({"part": "daemon", "cases": cases, "inconclusive": inconclusive, "inconclusive_sample": sample_inconclusive, "failures_not_reproduced_in_3_reruns(not counted)": unconfirmed, "workers": workers, "worker_errors": fatal,
        "wall_s": t0.elapsed().as_secs_f64(), "what": if ctx.prop == "C01" { "networks of real statime daemons (built from /repo) in private network namespaces: segments are Linux bridges, ports veth pairs, PTP over Ethernet, announce interval 125 ms, virtual system clocks; the harness only starts, cuts, kills and reads observation sockets; real time" } else { "the real statime daemon (built from /repo) as a two-port boundary clock in a private network namespace over veth pairs; workers alternate between PTP over Ethernet and PTP over UDP/IPv4, path trace off and on, parent on port 1 or port 2 (C12, C09: E2E or P2P instead; C09: configured delay asymmetry 0 / -2 ms / +1.5 ms / +12.3 ms; C07, C14: acceptable master list on odd workers); announce interval 125 ms, virtual system clock; real time" }}));
    PartSummary { cases, inconclusive, skipped: None }
}

/// re-run one reported case (its tape) three times in a fresh daemon; true if it fails again at least once
fn confirm(ctx: &Ctx, line: &Value) -> bool {
    let dir = std::env::temp_dir().join(format!("vcheck-e2e-confirm-{}-{}", std::process::id(), line["index"].as_u64().unwrap_or(0)));
    let _ = std::fs::create_dir_all(&dir);
    let f = dir.join("case.json");
    let _ = std::fs::write(&f, json!({"tape": line["tape"], "case": line["render"]}).to_string());
    let exe = std::env::current_exe().expect("current exe");
    let first = Variant::from_render(&line["render"], &ctx.prop).index().to_string();
    let o = Command::new("unshare").arg("-n").arg(&exe).args(["E2E-WORKER", &ctx.prop, &ctx.seed.to_string(), &first, "3", "8", f.to_str().unwrap()]).stdin(Stdio::null()).stderr(Stdio::null()).output();
    let _ = std::fs::remove_dir_all(&dir);
    let Ok(o) = o else { return true };
    String::from_utf8_lossy(&o.stdout).lines().any(|l| serde_json::from_str::<Value>(l).map(|v| v["violation"].is_object()).unwrap_or(false))
}

/// replay of a saved end-to-end case: the same tape is run `tries` times (the phase relative to the daemon's own
/// timers is not under the harness's control); a violation in any run counts
pub fn replay_part(ctx: &Ctx, path: &str, tries: u64) -> i32 {
    if let Err(e) = available() {
        println!("INFRA: end-to-end replay not possible here: {}", e);
        return 2;
    }
    let exe = std::env::current_exe().expect("current exe");
    // same daemon configuration as in the failing run (workers with an odd first index run with path trace on)
    let case = std::fs::read_to_string(path).ok().and_then(|s| serde_json::from_str::<Value>(&s).ok()).map(|v| v["case"].clone()).unwrap_or(Value::Null);
    let first = Variant::from_render(&case, &ctx.prop).index().to_string();
    let o = Command::new("unshare").arg("-n").arg(&exe).args(["E2E-WORKER", &ctx.prop, &ctx.seed.to_string(), &first, &tries.to_string(), "8", path]).stdin(Stdio::null()).stderr(Stdio::null()).output();
    let Ok(o) = o else {
        println!("INFRA: could not run the worker");
        return 2;
    };
    let mut ran = 0;
    for line in String::from_utf8_lossy(&o.stdout).lines() {
        let Ok(v) = serde_json::from_str::<Value>(line) else { continue };
        if let Some(f) = v["fatal"].as_str() {
            println!("INFRA: {}", f);
            return 2;
        }
        if v["inconclusive"].is_string() {
            continue;
        }
        ran += 1;
        if let Some(viol) = v["violation"].as_object() {
            println!("case: {}", v["render"]);
            println!("VIOLATION property={} replay={}", ctx.prop, path);
            println!("  signature: {}", viol["sig"].as_str().unwrap_or(""));
            println!("  detail: {}", viol["detail"].as_str().unwrap_or(""));
            return 1;
        }
    }
    if ran == 0 {
        println!("INFRA: no conclusive run");
        return 2;
    }
    println!("replay passed ({} runs)", ran);
    0
}
