#![no_main]
//! C04: the wire-codec oracle (round trip, tail independence, differential against
//! the reference codec) inside a coverage-guided target.
use libfuzzer_sys::fuzz_target;

fuzz_target!(|data: &[u8]| {
    let (tail, msg) = if data.len() > 3 { data.split_at(3) } else { (&[][..], data) };
    let v = vharness::c04::check_bytes(msg, tail);
    if let Some((sig, detail)) = v.violation {
        panic!("C04 violation: {} | {}", sig, detail);
    }
});
