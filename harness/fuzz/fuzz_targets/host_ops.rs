#![no_main]
//! C03: the bytes are decoded into the same choice tape the property-based
//! generator uses (2 bytes per choice), so coverage feedback drives the port into
//! deep states; oracle = every call returns, no nested lock acquisition.
use libfuzzer_sys::fuzz_target;
use std::sync::Once;
static INIT: Once = Once::new();

fuzz_target!(|data: &[u8]| {
    INIT.call_once(|| vharness::engine::install_panic_hook());
    let mut tape = vharness::engine::Tape::from_bytes(data);
    let mut out = vharness::engine::CaseOut::new();
    vharness::c03::run_history(&mut tape, 80, &mut out);
    if let Some(v) = out.violation {
        // the hook printed nothing (quiet mode); fail loudly for libFuzzer
        eprintln!("C03 violation: {} | {}", v.sig, v.detail);
        std::process::abort();
    }
});
