#!/usr/bin/env python3
"""Regenerates /verif/MANIFEST.json from the table below (single source of truth)."""
import json, os
V = os.path.dirname(os.path.dirname(os.path.abspath(__file__)))
props = [json.loads(l) for l in open(os.path.join(V, "properties.jsonl"))]

CHECKS = {
 "C04": dict(level="exploration", design="DESIGN.md §4 C04",
   text="Generated-input search with a three-part oracle per input (round-trip, tail-independence metamorphic relation, differential against an independently written Clause-13 codec), plus exhaustive sweeps of every octet value / every flagField value (thorough: every 16-bit window) of each message type. Exploration, not proof: absence is not established, but every 8-bit field value of every type is enumerated.",
   note="Trusted: harness/src/refcodec.rs (self-tested against the repository's golden vectors at start-up); rejection by statime is never a violation.",
   technique="property-based testing: choice-sequence generator + shrinker, round-trip/metamorphic/differential oracle, exhaustive small-field enumeration; libFuzzer target `codec` in thorough"),
}
NA_REASON = "check not built yet in this round (design in DESIGN.md §4); will be claimed once its check exists"

checks, na = [], []
for p in props:
    pid = p["id"]
    if pid in CHECKS:
        c = CHECKS[pid]
        checks.append({
            "property_id": pid,
            "quick_cmd": f"./vcheck {pid} --tier quick",
            "thorough_cmd": f"./vcheck {pid} --tier thorough",
            "evidence_file": f"/verif/evidence/{pid}.json",
            "replay_cmd_template": f"./vcheck {pid} --replay {{path}}",
            "engine": "harness",
            "level_claimed": {"category": c["level"], "text": c["text"], "design_ref": c["design"]},
            "level_note": c["note"],
            "technique": c["technique"],
        })
    else:
        na.append({"property_id": pid, "reason": NA_REASON})

manifest = {
 "version": 1,
 "setup_cmd": "./setup.sh",
 "hooks": {
   "guard": "statime_verif",
   "enable": "no source hooks are needed: every check observes the library through its public API with harness-supplied Clock/Filter/lock/RNG/TLV-provider implementations; the harness depends on /repo/statime and /repo/statime-linux by path and is rebuilt from the working tree by ./vcheck",
   "baseline_off_cmd": "cd /repo && cargo test --workspace --no-fail-fast --offline",
   "source_commits": [],
   "add_only": True,
 },
 "engines": [
   {"name": "harness", "path": "/verif/harness", "serves_properties": sorted(CHECKS.keys()),
    "kind_free_text": "Rust binary `vcheck`: choice-sequence (Hypothesis-style) property-testing engine with shrinking and replay files, exhaustive lattices, reference codec/BMCA/models, host model of statime-linux's action handling"},
 ],
 "checks": checks,
 "not_applicable": na,
 "notes": "Exit codes of every check: 0 held, 1 violation (VIOLATION line + replay file), 2 infrastructure/vacuity. Known findings: /verif/known_findings.json.",
}
json.dump(manifest, open(os.path.join(V, "MANIFEST.json"), "w"), indent=1)
print("wrote MANIFEST.json:", len(checks), "checks,", len(na), "not_applicable")
