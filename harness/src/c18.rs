//! C18 — the overlay clock behaves like a clock.
//! Model-based: exact rational piecewise-affine reference vs OverlayClock over
//! a harness-controlled underlying clock (also wrapped in SharedClock).

use crate::engine::*;
use crate::host::{dbits, dur_from_bits, tbits, time_from_bits};
use serde_json::json;
use statime::time::{Duration, Time};
use statime::{Clock, OverlayClock, SharedClock};
use std::cell::Cell;
use std::rc::Rc;

const NS: i128 = 1_000_000_000;

#[derive(Clone)]
struct UClock(Rc<Cell<u128>>);
impl Clock for UClock {
    type Error = ();
    fn now(&self) -> Time {
        time_from_bits(self.0.get())
    }
    fn step_clock(&mut self, _o: Duration) -> Result<Time, ()> {
        panic!("overlay must never adjust the underlying clock")
    }
    fn set_frequency(&mut self, _p: f64) -> Result<Time, ()> {
        panic!("overlay must never adjust the underlying clock")
    }
    fn set_properties(&mut self, _p: &statime::config::TimePropertiesDS) -> Result<(), ()> {
        Ok(())
    }
}

#[derive(Debug, Clone)]
enum Op {
    Advance(i128),
    SetFreq(i64), // milli-ppm
    Step(i128),   // bits
    Now,
    Convert(u64), // fraction (per 2^16) of the span since the last adjustment
}

fn gen_ops(t: &mut Tape) -> (u128, Vec<Op>, bool) {
    let start_s: u128 = match t.weighted(&[3, 2, 1, 1]) {
        0 => 1_700_000_000 + t.below(1000) as u128,
        1 => 1000 + t.below(100_000) as u128,
        2 => t.below(1u64 << 47) as u128 + 1000,
        _ => (1u128 << 48) - 1_000_000 - t.below(1000) as u128,
    };
    let start = ((start_s * NS as u128 + t.below(1_000_000_000) as u128) << 32) | t.below(1 << 32) as u128;
    let shared = t.chance(1, 4);
    let n = t.urange(1, 50);
    let mut ops = vec![];
    for _ in 0..n {
        let op = match t.weighted(&[4, 3, 3, 2, 3]) {
            0 => {
                let ns: i128 = match t.weighted(&[3, 2, 2, 1, 1]) {
                    0 => t.below(10_000_000_000) as i128,        // < 10 s
                    1 => t.below(1_000) as i128,                 // sub-us
                    2 => t.below(1000) as i128 * NS,            // up to 1000 s
                    3 => 10_000 * NS - t.below(3) as i128,       // ~1e4 s
                    _ => 0,
                };
                let frac = if t.bool() { t.below(1 << 32) as i128 } else { 0 };
                Op::Advance((ns << 32) | frac)
            }
            1 => Op::SetFreq(match t.weighted(&[3, 1, 1, 1]) {
                0 => t.range(-500_000, 500_000),
                1 => 0,
                2 => *t.pick(&[500_000i64, -500_000, 1, -1]),
                _ => t.range(-100, 100) * 1000,
            }),
            2 => {
                let ns: i128 = match t.weighted(&[3, 1, 1, 1]) {
                    0 => t.range(-10_000_000_000, 10_000_000_000) as i128,
                    1 => 0,
                    2 => *t.pick(&[1i128, -1]),
                    _ => *t.pick(&[10 * NS, -10 * NS]),
                };
                let frac = if t.chance(1, 3) { t.below(1 << 32) as i128 } else { 0 };
                Op::Step((ns << 32) + frac)
            }
            3 => Op::Now,
            _ => Op::Convert(t.below(65537)),
        };
        ops.push(op);
    }
    (start, ops, shared)
}

struct Model {
    anchor_u: i128,
    anchor_r: i128,
    mppm: i64,
}
impl Model {
    fn reading(&self, u: i128) -> i128 {
        let du = u - self.anchor_u;
        self.anchor_r + du + (du * self.mppm as i128) / 1_000_000_000
    }
}

enum Dut {
    Plain(OverlayClock<UClock>),
    Shared(SharedClock<OverlayClock<UClock>>),
}
impl Dut {
    fn now(&self) -> i128 {
        match self {
            Dut::Plain(c) => tbits(c.now()) as i128,
            Dut::Shared(c) => tbits(c.now()) as i128,
        }
    }
    fn set_frequency(&mut self, ppm: f64) -> i128 {
        match self {
            Dut::Plain(c) => tbits(c.set_frequency(ppm).unwrap()) as i128,
            Dut::Shared(c) => tbits(c.clone().set_frequency(ppm).unwrap()) as i128,
        }
    }
    fn step(&mut self, d: Duration) -> i128 {
        match self {
            Dut::Plain(c) => tbits(c.step_clock(d).unwrap()) as i128,
            Dut::Shared(c) => tbits(c.clone().step_clock(d).unwrap()) as i128,
        }
    }
    fn convert(&self, u: u128) -> i128 {
        match self {
            Dut::Plain(c) => tbits(c.time_from_underlying(time_from_bits(u))) as i128,
            Dut::Shared(c) => tbits(c.0.lock().unwrap().time_from_underlying(time_from_bits(u))) as i128,
        }
    }
}

fn case(t: &mut Tape) -> CaseOut {
    let mut out = CaseOut::new();
    let (start, ops, shared) = gen_ops(t);
    let u = Rc::new(Cell::new(start));
    let overlay = OverlayClock::new(UClock(u.clone()));
    let mut dut = if shared { Dut::Shared(SharedClock::new(overlay)) } else { Dut::Plain(overlay) };
    let mut model = Model { anchor_u: start as i128, anchor_r: start as i128, mppm: 0 };
    // tolerance: 1 ns + 2^-44 of the elapsed underlying time since start (the fixed-point product
    // elapsed*ppm/1e6 is exact to ~2^-33 ppm; measured error on the unchanged tree is far below 1 ns)
    let eps = |elapsed: i128| -> i128 { (1i128 << 32) + (elapsed >> 44) };
    let mut rendered = vec![];
    let mut nontrivial = false;
    let mut active_ppm_time: i128 = 0;
    for op in ops.iter() {
        let cur_u = u.get() as i128;
        let since_start = cur_u - start as i128;
        let e = eps(since_start);
        match op {
            Op::Advance(d) => {
                u.set((cur_u + d) as u128);
                if model.mppm != 0 {
                    active_ppm_time += d;
                }
                rendered.push(format!("advance {} ns", (*d as f64) / 4294967296.0));
            }
            Op::SetFreq(mppm) => {
                let before = dut.now();
                let want = model.reading(cur_u);
                let ret = dut.set_frequency(*mppm as f64 / 1000.0);
                let after = dut.now();
                rendered.push(format!("set_frequency {} ppm", *mppm as f64 / 1000.0));
                if (after - before).abs() > e {
                    out.fail("reading not continuous across set_frequency", format!("before {} after {} (2^-32 ns) ops {:?}", before, after, rendered));
                }
                if (ret - want).abs() > e || (ret - after).abs() > e {
                    out.fail("set_frequency return value is not the reading at that instant", format!("returned {} reading {} model {} ops {:?}", ret, after, want, rendered));
                }
                model = Model { anchor_u: cur_u, anchor_r: want, mppm: *mppm };
            }
            Op::Step(off) => {
                let want_before = model.reading(cur_u);
                if want_before + off < (10 * NS) << 32 {
                    rendered.push("step skipped (would go before epoch)".into());
                    continue;
                }
                let before = dut.now();
                let ret = dut.step(dur_from_bits(*off));
                let after = dut.now();
                rendered.push(format!("step_clock {} ns", (*off as f64) / 4294967296.0));
                if active_ppm_time > 0 {
                    nontrivial = true;
                    out.label("step-after-active-frequency");
                }
                if ((after - before) - off).abs() > e {
                    out.fail("step does not jump by the requested amount", format!("jump {} requested {} (2^-32 ns); ppm {} ; ops {:?}", after - before, off, model.mppm as f64 / 1000.0, rendered));
                }
                if (ret - after).abs() > e {
                    out.fail("step_clock return value is not the reading at that instant", format!("returned {} reading {} ops {:?}", ret, after, rendered));
                }
                model = Model { anchor_u: cur_u, anchor_r: want_before + off, mppm: model.mppm };
            }
            Op::Now => {
                let got = dut.now();
                let want = model.reading(cur_u);
                rendered.push("now".into());
                if (got - want).abs() > e {
                    out.fail("reading does not advance at (1+ppm/1e6) x underlying rate", format!("reading {} model {} diff {} (2^-32 ns) ppm {} ops {:?}", got, want, got - want, model.mppm as f64 / 1000.0, rendered));
                }
            }
            Op::Convert(fr) => {
                let span = cur_u - model.anchor_u;
                let uu = model.anchor_u + (span * *fr as i128) / 65536;
                let got = dut.convert(uu as u128);
                let want = model.reading(uu);
                rendered.push(format!("convert underlying timestamp {} ns before now", ((cur_u - uu) as f64) / 4294967296.0));
                if active_ppm_time > 0 && span > 0 {
                    nontrivial = true;
                    out.label("convert-after-active-frequency");
                }
                if (got - want).abs() > e {
                    out.fail("time_from_underlying disagrees with what the clock read at that moment", format!("got {} model {} ops {:?}", got, want, rendered));
                }
            }
        }
        if out.violation.is_some() {
            break;
        }
    }
    if shared {
        out.label("via-SharedClock");
    }
    out.render = json!({"underlying_start_bits": format!("0x{:x}", start), "shared": shared, "ops": rendered});
    if nontrivial {
        out.nontrivial = Some(hash_of(&format!("{:?}{:?}", start, ops)));
    }
    let _ = dbits;
    out
}

pub fn run(ctx: &Ctx) -> i32 {
    let mut rep = Report::new();
    run_cases(ctx, &mut rep, "sequences", ctx.cases(2_000_000, 40_000_000), case);
    finish(
        Finish {
            ctx,
            level: "exploration",
            rule: "sequences of <= 50 ops (advance underlying clock 0..1e4 s, set_frequency ppm in [-500,500] at 0.001 ppm resolution, step_clock within +-10 s incl. 0 and +-1 ns, now, time_from_underlying of a timestamp taken since the last adjustment) over OverlayClock (1/4 of the cases wrapped in SharedClock), underlying start anywhere in [1000 s, 2^48 s). Oracle: exact rational piecewise-affine model, tolerance 1 ns + 2^-44 x elapsed. Non-trivial = a step or a conversion after a non-zero frequency has been active for > 0 time; distinct by op list.",
            assumptions: vec!["steps that would move the reading before 10 s after the epoch are skipped (Time is unsigned)".into(), "timestamps older than the last adjustment are not converted (no memoryless affine map can)".into()],
            min_nontrivial: 100,
        },
        rep,
    )
}

pub fn replay(ctx: &Ctx, path: &str) -> i32 {
    replay_file(ctx, path, case)
}
