#!/bin/bash
# final regression: every seed of the properties whose checks changed in this session + every daemon-level seed
cd /verif
for d in seeded/C03-m*/ seeded/C05-m*/ seeded/C07-m*/ seeded/C08-m*/ seeded/C09-m*/ seeded/C17-m*/ seeded/*-m[678]/; do
  n=$(basename $d)
  grep -q "^$n " /tmp/regress3.log 2>/dev/null && continue
  chk=$(python3 -c "import json;print(json.load(open('$d/meta.json'))['detection']['check'].split()[1])")
  R=$(tools/try_mutant.sh $d/patch.diff $chk 2>&1 | grep -E "signature|exit=|APPLY|BUILD|WATCHDOG" | cut -c1-110 | head -2 | tr '\n' ' ')
  echo "$n via $chk: $R" >> /tmp/regress3.log
done
echo DONE >> /tmp/regress3.log
