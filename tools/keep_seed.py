#!/usr/bin/env python3
"""tools/keep_seed.py <ID> <mN> <needs text> : store a confirmed seeded change under /verif/seeded/<ID>-<mN>/
and record whether the registered quick check detects it (applies the patch to /repo, runs, reverts)."""
import json, os, shutil, subprocess, sys, tempfile
pid, m, needs = sys.argv[1], sys.argv[2], sys.argv[3]
check = sys.argv[4] if len(sys.argv) > 4 else pid
tier = sys.argv[5] if len(sys.argv) > 5 else "quick"
src = f"/tmp/{os.environ.get('SEEDP','seed')}-{pid}-out"
dst = f"/verif/seeded/{pid}-{m}"
os.makedirs(dst, exist_ok=True)
shutil.copy(f"{src}/{m}.diff", f"{dst}/patch.diff")
if os.path.isdir(f"{src}/{m}_demo"):
    # demonstration is a script directory (daemon-level seeds): RUN.sh exits 0 when the property holds
    shutil.rmtree(f"{dst}/demo", ignore_errors=True)
    shutil.copytree(f"{src}/{m}_demo", f"{dst}/demo", ignore=shutil.ignore_patterns("work", "run", "__pycache__", "*.log", "*.sock"))
else:
    shutil.copy(f"{src}/{m}_demo.diff", f"{dst}/demo.diff")
shutil.copy(f"{src}/{m}.md", f"{dst}/notes.md")
confirm = json.load(open(f"{src}/{m}.confirm.json"))
ok = (confirm["clean_with_demo"]["failed"] == 0 and confirm["mutant_build_rc"] == 0 and
      confirm["mutant_with_demo"]["failed"] > 0 and confirm["mutant_existing_suite"]["failed"] == 0)
if not ok:
    print("NOT CONFIRMED", confirm); sys.exit(1)
# run the check against it (on a scratch copy of /repo: tools/try_mutant.sh)
r = subprocess.run(["/verif/tools/try_mutant.sh", f"{dst}/patch.diff", check, tier], cwd="/verif", capture_output=True, text=True)
sigs = [l.strip()[len("signature: "):] for l in r.stdout.splitlines() if l.strip().startswith("signature: ")]
rc = [int(l[5:]) for l in r.stdout.splitlines() if l.startswith("exit=")]
class R: pass
r2 = R(); r2.returncode = rc[-1] if rc else 2
r = r2
meta = {
 "property": pid, "mutation": m,
 "needs_to_manifest": needs,
 "confirmed_in_scratch_worktree": {
   "how": "tools/confirm_seed.sh: cargo test --workspace with demo on clean tree; with patch: cargo build, cargo test --workspace (+demo), existing suite alone",
   **confirm},
 "detection": {"check": f"./vcheck {check} --tier {tier}", "exit_code": r.returncode, "detected": r.returncode == 1, "signatures": sigs[:4]},
}
json.dump(meta, open(f"{dst}/meta.json", "w"), indent=1)
print(pid, m, "detected" if r.returncode == 1 else f"MISSED (exit {r.returncode})", sigs[:2])
