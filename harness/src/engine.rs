//! Choice-sequence property-testing engine (generator, runner, shrinker,
//! evidence writer, known-findings matcher).
//!
//! Every random decision of every generator is one `Tape::below(n)` draw. A
//! fresh tape draws from a ChaCha RNG seeded from (VERIF_SEED, case index) and
//! records the choices; a replay tape reads recorded choices (clamped, 0 past
//! the end). Shrinking edits the recorded choice list (delete spans, zero,
//! minimise values) and re-runs the property; the final list is the replay
//! file. libFuzzer targets feed their bytes through the same tape decoder.

use rand::{RngCore, SeedableRng};
use rand_chacha::ChaCha8Rng;
use serde_json::{json, Value};
use std::cell::RefCell;
use std::collections::{BTreeMap, HashSet};
use std::panic::{catch_unwind, AssertUnwindSafe};
use std::sync::atomic::{AtomicBool, AtomicU64, Ordering};
use std::sync::Mutex;
use std::time::Instant;

pub struct Tape {
    data: Vec<u64>,
    pos: usize,
    rng: Option<ChaCha8Rng>,
}

impl Tape {
    pub fn fresh(seed: u64, case: u64) -> Self {
        let mut s = [0u8; 32];
        s[..8].copy_from_slice(&seed.to_le_bytes());
        s[8..16].copy_from_slice(&case.to_le_bytes());
        s[16..24].copy_from_slice(&0x9e3779b97f4a7c15u64.to_le_bytes());
        Tape { data: Vec::new(), pos: 0, rng: Some(ChaCha8Rng::from_seed(s)) }
    }
    pub fn replay(data: Vec<u64>) -> Self {
        Tape { data, pos: 0, rng: None }
    }
    pub fn from_bytes(bytes: &[u8]) -> Self {
        // libFuzzer input: each choice is 2 bytes little endian (keeps inputs
        // short); values are clamped by `below`.
        let data = bytes.chunks(2).map(|c| c.iter().rev().fold(0u64, |a, b| (a << 8) | *b as u64)).collect();
        Tape { data, pos: 0, rng: None }
    }
    pub fn recorded(&self) -> Vec<u64> {
        self.data[..self.pos.min(self.data.len())].to_vec()
    }
    pub fn used(&self) -> usize {
        self.pos
    }
    /// uniform choice in 0..n (n >= 1); 0 is the "simplest" value.
    pub fn below(&mut self, n: u64) -> u64 {
        debug_assert!(n >= 1);
        let v = if self.pos < self.data.len() {
            let v = self.data[self.pos];
            if v >= n { n - 1 } else { v }
        } else if let Some(rng) = self.rng.as_mut() {
            let r = rng.next_u64();
            let v = ((r as u128 * n as u128) >> 64) as u64;
            self.data.push(v);
            v
        } else {
            0
        };
        self.pos += 1;
        v
    }
    pub fn full(&mut self) -> u64 {
        let hi = self.below(1 << 32);
        let lo = self.below(1 << 32);
        (hi << 32) | lo
    }
    pub fn bool(&mut self) -> bool {
        self.below(2) == 1
    }
    /// true with probability num/den
    pub fn chance(&mut self, num: u64, den: u64) -> bool {
        self.below(den) >= den - num
    }
    pub fn range(&mut self, lo: i64, hi: i64) -> i64 {
        // inclusive
        debug_assert!(hi >= lo);
        lo + self.below((hi - lo) as u64 + 1) as i64
    }
    pub fn urange(&mut self, lo: u64, hi: u64) -> u64 {
        lo + self.below(hi - lo + 1)
    }
    pub fn pick<'a, T>(&mut self, xs: &'a [T]) -> &'a T {
        &xs[self.below(xs.len() as u64) as usize]
    }
    /// index chosen with the given integer weights (first = simplest)
    pub fn weighted(&mut self, w: &[u64]) -> usize {
        let total: u64 = w.iter().sum();
        let mut x = self.below(total);
        for (i, wi) in w.iter().enumerate() {
            if x < *wi {
                return i;
            }
            x -= wi;
        }
        w.len() - 1
    }
    pub fn bytes(&mut self, n: usize) -> Vec<u8> {
        (0..n).map(|_| self.below(256) as u8).collect()
    }
    /// signed value with log-uniform magnitude up to 2^bits (and exact 0)
    pub fn log_i128(&mut self, bits: u32) -> i128 {
        let b = self.below(bits as u64 + 1) as u32;
        if b == 0 {
            return 0;
        }
        let mag: u128 = if b <= 64 {
            let top = 1u128 << (b - 1);
            top | ((self.full() as u128) & (top - 1))
        } else {
            let top = 1u128 << (b - 1);
            let r = ((self.full() as u128) << 64) | self.full() as u128;
            top | (r & (top - 1))
        };
        if self.bool() { -(mag as i128) } else { mag as i128 }
    }
}

// ---------------------------------------------------------------------------
// panic capture

thread_local! {
    static LAST_PANIC: RefCell<Option<String>> = RefCell::new(None);
    static QUIET: RefCell<bool> = RefCell::new(false);
}

/// ticks whenever a case is evaluated; the watchdog (see `start_watchdog`) ends the process with exit code 2 when
/// it stands still for too long (an endless loop in the code under test must not hang the check for ever; a hang
/// is reported as such, never as a violation)
pub static PROGRESS: std::sync::atomic::AtomicU64 = std::sync::atomic::AtomicU64::new(0);

pub fn start_watchdog() {
    let limit: u64 = std::env::var("VERIF_WATCHDOG_S").ok().and_then(|x| x.parse().ok()).unwrap_or(300);
    std::thread::spawn(move || {
        let mut last = PROGRESS.load(std::sync::atomic::Ordering::Relaxed);
        let mut since = std::time::Instant::now();
        loop {
            std::thread::sleep(std::time::Duration::from_secs(5));
            let now = PROGRESS.load(std::sync::atomic::Ordering::Relaxed);
            if now != last {
                last = now;
                since = std::time::Instant::now();
            } else if since.elapsed().as_secs() > limit {
                println!("WATCHDOG: no case finished for {} s - the code under test (or the harness) hangs; this is an infrastructure verdict (exit 2), not a violation", limit);
                std::process::exit(2);
            }
        }
    });
}

pub fn install_panic_hook() {
    let default = std::panic::take_hook();
    std::panic::set_hook(Box::new(move |info| {
        let quiet = QUIET.with(|q| *q.borrow());
        let loc = info.location().map(|l| format!("{}:{}", l.file(), l.line())).unwrap_or_default();
        let msg = if let Some(s) = info.payload().downcast_ref::<&str>() {
            s.to_string()
        } else if let Some(s) = info.payload().downcast_ref::<String>() {
            s.clone()
        } else {
            "<non-string panic>".to_string()
        };
        // locate the innermost frame inside the repository under test
        let mut site = String::new();
        if !loc.contains("/repo/") || std::env::var("VERIF_BT").is_ok() {
            let bt = std::backtrace::Backtrace::force_capture().to_string();
            let lines: Vec<&str> = bt.lines().collect();
            for (i, l) in lines.iter().enumerate() {
                let l = l.trim();
                if let Some(path) = l.strip_prefix("at ") {
                    if path.starts_with("/repo/") && i > 0 {
                        let func = lines[i - 1].trim();
                        let func = func.split_once(": ").map(|x| x.1).unwrap_or(func);
                        let fname = func.rsplit("::").next().unwrap_or(func);
                        let file = path.split(':').next().unwrap_or(path);
                        site = format!(" in {} ({})", fname, file.trim_start_matches("/repo/"));
                        break;
                    }
                }
            }
        }
        let loc = if loc.contains("/repo/") { loc.replace("/repo/", "") } else { loc.rsplit('/').take(3).collect::<Vec<_>>().into_iter().rev().collect::<Vec<_>>().join("/") };
        LAST_PANIC.with(|p| *p.borrow_mut() = Some(format!("{}{} @ {}", msg, site, loc)));
        if !quiet {
            default(info);
        }
    }));
}

/// Run `f`, turning a panic into Err(message @ file:line).
pub fn guarded<R>(f: impl FnOnce() -> R) -> Result<R, String> {
    QUIET.with(|q| *q.borrow_mut() = true);
    LAST_PANIC.with(|p| *p.borrow_mut() = None);
    let r = catch_unwind(AssertUnwindSafe(f));
    QUIET.with(|q| *q.borrow_mut() = false);
    match r {
        Ok(v) => Ok(v),
        Err(_) => Err(LAST_PANIC.with(|p| p.borrow_mut().take()).unwrap_or_else(|| "panic".into())),
    }
}

// ---------------------------------------------------------------------------
// case results

#[derive(Debug, Clone)]
pub struct Violation {
    /// stable signature of the failure class (used for known-finding matching
    /// and to keep shrinking on the same failure)
    pub sig: String,
    /// human readable detail
    pub detail: String,
}

pub struct CaseOut {
    pub violation: Option<Violation>,
    /// Some(hash of canonical form) iff the case is non-trivial by the check's rule
    pub nontrivial: Option<u64>,
    pub labels: Vec<String>,
    /// rendered case (for samples / replay files)
    pub render: Value,
    /// additional executions performed inside this case (e.g. exhaustive sub-loops)
    pub extra_evals: u64,
}

impl CaseOut {
    pub fn new() -> Self {
        CaseOut { violation: None, nontrivial: None, labels: vec![], render: Value::Null, extra_evals: 0 }
    }
    pub fn label(&mut self, s: impl Into<String>) {
        self.labels.push(s.into());
    }
    pub fn fail(&mut self, sig: impl Into<String>, detail: impl Into<String>) {
        if self.violation.is_none() {
            self.violation = Some(Violation { sig: sig.into(), detail: detail.into() });
        }
    }
}

pub fn hash_of<T: std::hash::Hash>(t: &T) -> u64 {
    use std::hash::Hasher;
    let mut h = std::collections::hash_map::DefaultHasher::new();
    t.hash(&mut h);
    h.finish()
}
pub fn hash_str(s: &str) -> u64 {
    hash_of(&s)
}

// ---------------------------------------------------------------------------
// known findings

#[derive(Debug, Clone)]
pub struct Known {
    pub property: String,
    pub status: String,
    pub signature: String,
    pub what: String,
}

pub fn load_known() -> Vec<Known> {
    // the committed file next to the vcheck script (VERIF_KNOWN), else the one in the output directory
    let p = std::env::var("VERIF_KNOWN").map(std::path::PathBuf::from).unwrap_or_else(|_| verif_dir().join("known_findings.json"));
    let Ok(s) = std::fs::read_to_string(&p) else { return vec![] };
    let v: Value = serde_json::from_str(&s).expect("known_findings.json must parse");
    v["findings"]
        .as_array()
        .map(|a| {
            a.iter()
                .map(|e| Known {
                    property: e["property"].as_str().unwrap_or("").into(),
                    status: e["status"].as_str().unwrap_or("").into(),
                    signature: e["signature"].as_str().unwrap_or("").into(),
                    what: e["what"].as_str().unwrap_or("").into(),
                })
                .collect()
        })
        .unwrap_or_default()
}

pub fn verif_dir() -> std::path::PathBuf {
    std::env::var("VERIF_DIR").map(Into::into).unwrap_or_else(|_| "/verif".into())
}

// ---------------------------------------------------------------------------
// runner

#[derive(Clone)]
pub struct Ctx {
    pub prop: String,
    pub tier: String,
    pub seed: u64,
    pub threads: usize,
    pub build: String,
}

impl Ctx {
    pub fn quick(&self) -> bool {
        self.tier == "quick"
    }
    /// pick the case count by tier
    pub fn cases(&self, quick: u64, thorough: u64) -> u64 {
        let base = if self.quick() { quick } else { thorough };
        match std::env::var("VERIF_CASES_SCALE").ok().and_then(|s| s.parse::<f64>().ok()) {
            Some(f) => ((base as f64) * f).max(1.0) as u64,
            None => base,
        }
    }
}

pub struct Report {
    pub evaluations: u64,
    pub nontrivial: HashSet<u64>,
    pub labels: BTreeMap<String, u64>,
    pub samples: Vec<Value>,
    pub violations: Vec<(Violation, Vec<u64>, Value)>,
    pub viol_parts: Vec<String>,
    pub known_hits: BTreeMap<String, u64>,
    pub parts: Vec<Value>,
    pub exhaustive: bool,
    pub start: Instant,
    pub extra: BTreeMap<String, Value>,
}

impl Report {
    pub fn new() -> Self {
        Report {
            evaluations: 0,
            nontrivial: HashSet::new(),
            labels: BTreeMap::new(),
            samples: vec![],
            violations: vec![],
            viol_parts: vec![],
            known_hits: BTreeMap::new(),
            parts: vec![],
            exhaustive: false,
            start: Instant::now(),
            extra: BTreeMap::new(),
        }
    }
    pub fn absorb(&mut self, out: CaseOut, tape: &[u64]) {
        PROGRESS.fetch_add(1, std::sync::atomic::Ordering::Relaxed);
        self.evaluations += 1 + out.extra_evals;
        if let Some(h) = out.nontrivial {
            if self.nontrivial.insert(h) && self.samples.len() < 6 {
                self.samples.push(out.render.clone());
            }
        }
        for l in out.labels {
            *self.labels.entry(l).or_insert(0) += 1;
        }
        if let Some(v) = out.violation {
            self.violations.push((v, tape.to_vec(), out.render));
        }
    }
}

const MAX_SAMPLE_NONTRIV: usize = 6;

/// Run `n` generated cases of `prop` over `ctx.threads` threads, shrink the
/// first violation per signature, and merge into `rep`.
pub fn run_cases<F>(ctx: &Ctx, rep: &mut Report, part: &str, n: u64, prop: F)
where
    F: Fn(&mut Tape) -> CaseOut + Sync,
{
    let t0 = Instant::now();
    let next = AtomicU64::new(0);
    let stop = AtomicBool::new(false);
    let merged: Mutex<Vec<Report>> = Mutex::new(vec![]);
    let part_seed = ctx.seed ^ hash_str(part).rotate_left(17);
    let known = load_known();
    let threads = ctx.threads.max(1);
    std::thread::scope(|s| {
        for _ in 0..threads {
            s.spawn(|| {
                let mut local = Report::new();
                loop {
                    if stop.load(Ordering::Relaxed) {
                        break;
                    }
                    let i = next.fetch_add(1, Ordering::Relaxed);
                    if i >= n {
                        break;
                    }
                    let mut tape = Tape::fresh(part_seed, i);
                    let out = match guarded(|| prop(&mut tape)) {
                        Ok(o) => o,
                        Err(p) => {
                            let mut o = CaseOut::new();
                            o.fail(format!("harness-or-sut-panic: {}", strip_line(&p)), p);
                            o
                        }
                    };
                    let is_v = out.violation.is_some();
                    let rec = tape.recorded();
                    // keep sample list small per thread
                    let mut out = out;
                    if local.samples.len() >= MAX_SAMPLE_NONTRIV && !is_v {
                        out.render = Value::Null;
                    }
                    local.absorb(out, &rec);
                    if is_v {
                        // stop early only if this violation is not a known finding
                        let (v, _, _) = local.violations.last().unwrap();
                        if !known.iter().any(|k| k.status == "known" && k.property == ctx.prop && v.sig.contains(&k.signature)) {
                            if local.violations.len() >= 3 {
                                stop.store(true, Ordering::Relaxed);
                            }
                        }
                    }
                }
                merged.lock().unwrap().push(local);
            });
        }
    });
    let mut evals = 0;
    let mut viols = vec![];
    for r in merged.into_inner().unwrap() {
        evals += r.evaluations;
        rep.evaluations += r.evaluations;
        for h in r.nontrivial {
            rep.nontrivial.insert(h);
        }
        for (k, v) in r.labels {
            *rep.labels.entry(format!("{}:{}", part, k)).or_insert(0) += v;
        }
        for s in r.samples {
            if rep.samples.len() < 12 && !s.is_null() {
                rep.samples.push(s);
            }
        }
        viols.extend(r.violations);
    }
    // classify violations: known vs new; shrink one per distinct signature
    let mut seen: HashSet<String> = HashSet::new();
    for (v, tape, render) in viols {
        if let Some(k) = known.iter().find(|k| k.status == "known" && k.property == ctx.prop && v.sig.contains(&k.signature)) {
            *rep.known_hits.entry(k.signature.clone()).or_insert(0) += 1;
            continue;
        }
        if !seen.insert(v.sig.clone()) {
            continue;
        }
        if rep.violations.len() >= 5 {
            continue;
        }
        let (stape, sv, srender) = shrink(&prop, tape, v, render);
        rep.violations.push((sv, stape, srender));
        rep.viol_parts.push(part.to_string());
    }
    rep.parts.push(json!({"part": part, "cases": evals, "wall_s": t0.elapsed().as_secs_f64()}));
}

fn strip_line(p: &str) -> String {
    // "msg @ file:line" -> "msg @ file" (line numbers are not stable signatures)
    match p.rfind(':') {
        Some(i) if p[i + 1..].chars().all(|c| c.is_ascii_digit()) => p[..i].to_string(),
        _ => p.to_string(),
    }
}

pub fn run_one<F>(prop: &F, tape: Vec<u64>) -> (CaseOut, Vec<u64>)
where
    F: Fn(&mut Tape) -> CaseOut,
{
    PROGRESS.fetch_add(1, std::sync::atomic::Ordering::Relaxed);
    let mut t = Tape::replay(tape);
    let out = match guarded(|| prop(&mut t)) {
        Ok(o) => o,
        Err(p) => {
            let mut o = CaseOut::new();
            o.fail(format!("harness-or-sut-panic: {}", strip_line(&p)), p);
            o
        }
    };
    let used = t.used();
    let mut rec = t.data;
    rec.truncate(used);
    (out, rec)
}

/// Shrink a failing choice list, keeping the same violation signature class.
pub fn shrink<F>(prop: &F, tape: Vec<u64>, v: Violation, render: Value) -> (Vec<u64>, Violation, Value)
where
    F: Fn(&mut Tape) -> CaseOut,
{
    let class = sig_class(&v.sig);
    let mut best = tape;
    let mut best_v = v;
    let mut best_r = render;
    let mut budget: i64 = std::env::var("VERIF_SHRINK_BUDGET").ok().and_then(|s| s.parse().ok()).unwrap_or(3000);
    let deadline = Instant::now() + std::time::Duration::from_secs(120);
    let try_tape = |cand: Vec<u64>, best: &mut Vec<u64>, best_v: &mut Violation, best_r: &mut Value, budget: &mut i64| -> bool {
        if *budget <= 0 || Instant::now() > deadline {
            return false;
        }
        *budget -= 1;
        let (out, rec) = run_one(prop, cand);
        if let Some(nv) = out.violation {
            if sig_class(&nv.sig) == class && (rec.len() < best.len() || (rec.len() == best.len() && rec < *best)) {
                *best = rec;
                *best_v = nv;
                *best_r = out.render;
                return true;
            }
        }
        false
    };
    // normalise: the recorded prefix actually used
    let b0 = best.clone();
    try_tape(b0, &mut best, &mut best_v, &mut best_r, &mut budget);
    let mut progress = true;
    while progress && budget > 0 {
        progress = false;
        // delete spans
        for span in [32usize, 16, 8, 4, 2, 1] {
            let mut i = best.len();
            while i >= span {
                i -= 1;
                if i + 1 < span {
                    break;
                }
                let start = i + 1 - span;
                let mut cand = best.clone();
                cand.drain(start..start + span);
                if try_tape(cand, &mut best, &mut best_v, &mut best_r, &mut budget) {
                    progress = true;
                    i = i.min(best.len());
                }
            }
        }
        // zero / minimise values
        let mut i = 0;
        while i < best.len() {
            if best[i] != 0 {
                let mut cand = best.clone();
                cand[i] = 0;
                if try_tape(cand, &mut best, &mut best_v, &mut best_r, &mut budget) {
                    progress = true;
                } else {
                    // binary search smaller value
                    let mut lo = 0u64;
                    let mut hi = best[i];
                    while lo + 1 < hi && budget > 0 {
                        let mid = lo + (hi - lo) / 2;
                        let mut cand = best.clone();
                        if i >= cand.len() {
                            break;
                        }
                        cand[i] = mid;
                        if try_tape(cand, &mut best, &mut best_v, &mut best_r, &mut budget) {
                            progress = true;
                            hi = mid;
                        } else {
                            lo = mid;
                        }
                    }
                }
            }
            i += 1;
        }
    }
    (best, best_v, best_r)
}

fn sig_class(sig: &str) -> String {
    sig.split('|').next().unwrap_or(sig).to_string()
}

// ---------------------------------------------------------------------------
// finishing: evidence + exit code

pub struct Finish<'a> {
    pub ctx: &'a Ctx,
    pub level: &'a str,
    pub rule: &'a str,
    pub assumptions: Vec<String>,
    /// minimum number of distinct non-trivial cases below which the run is
    /// reported as vacuous (exit 2)
    pub min_nontrivial: usize,
}

pub fn finish(fin: Finish, rep: Report) -> i32 {
    let ctx = fin.ctx;
    let known = load_known();
    let mut code = 0;
    let dir = verif_dir();
    std::fs::create_dir_all(dir.join("evidence")).ok();
    std::fs::create_dir_all(dir.join("replays")).ok();
    let mut viol_json = vec![];
    for (k, n) in &rep.known_hits {
        let what = known.iter().find(|x| &x.signature == k).map(|x| x.what.clone()).unwrap_or_default();
        println!("KNOWN-FINDING: property={} {} [signature {} hit {} times]", ctx.prop, what, k, n);
    }
    for (i, (v, tape, render)) in rep.violations.iter().enumerate() {
        let path = dir.join("replays").join(format!("{}-{}{}-seed{}-{}.json", ctx.prop, ctx.tier, if ctx.build == "checked" { String::new() } else { format!("-{}", ctx.build) }, ctx.seed, i));
        let body = json!({
            "property": ctx.prop, "signature": v.sig, "detail": v.detail,
            "part": rep.viol_parts.get(i), "tape": tape, "case": render,
            "build": ctx.build, "seed": ctx.seed,
        });
        std::fs::write(&path, serde_json::to_string_pretty(&body).unwrap()).ok();
        println!("VIOLATION property={} replay={}", ctx.prop, path.display());
        println!("  signature: {}", v.sig);
        println!("  detail: {}", v.detail);
        viol_json.push(json!({"signature": v.sig, "detail": v.detail, "replay": path}));
        code = 1;
    }
    let distinct = rep.nontrivial.len();
    let mut coverage = serde_json::Map::new();
    coverage.insert("evaluations".into(), json!(rep.evaluations));
    coverage.insert("distinct_nontrivial".into(), json!(distinct));
    coverage.insert("rule".into(), json!(fin.rule));
    coverage.insert("samples".into(), json!(rep.samples));
    coverage.insert("labels".into(), json!(rep.labels));
    coverage.insert("parts".into(), json!(rep.parts));
    coverage.insert("known_finding_hits".into(), json!(rep.known_hits));
    coverage.insert("violations_found".into(), json!(viol_json));
    coverage.insert("build_profile".into(), json!(ctx.build));
    if rep.exhaustive {
        coverage.insert("exhaustive".into(), json!(true));
    }
    for (k, v) in rep.extra {
        coverage.insert(k, v);
    }
    let ev = json!({
        "property_id": ctx.prop,
        "tier": ctx.tier,
        "seed": ctx.seed,
        "level": fin.level,
        "coverage": coverage,
        "assumptions": fin.assumptions,
        "wall_s": rep.start.elapsed().as_secs_f64(),
        "violations": rep.violations.len(),
    });
    let suffix = if ctx.build == "checked" { String::new() } else { format!(".{}", ctx.build) };
    let evp = dir.join("evidence").join(format!("{}{}.json", ctx.prop, suffix));
    std::fs::write(&evp, serde_json::to_string_pretty(&ev).unwrap()).expect("write evidence");
    println!(
        "{} [{} {} seed={}]: {} evaluations, {} distinct non-trivial, {} violations, {:.1}s",
        ctx.prop,
        ctx.tier,
        ctx.build,
        ctx.seed,
        rep.evaluations,
        distinct,
        rep.violations.len(),
        rep.start.elapsed().as_secs_f64()
    );
    if code == 0 && distinct < fin.min_nontrivial.max(2) {
        println!("VACUOUS: only {} distinct non-trivial cases (need {}) - harness health problem, not a verdict", distinct, fin.min_nontrivial);
        code = 2;
    }
    code
}

/// replay a saved case file against `prop`; returns exit code
pub fn replay_file<F>(ctx: &Ctx, path: &str, prop: F) -> i32
where
    F: Fn(&mut Tape) -> CaseOut,
{
    let s = std::fs::read_to_string(path).expect("read replay file");
    let v: Value = serde_json::from_str(&s).expect("parse replay file");
    let tape: Vec<u64> = v["tape"].as_array().expect("tape").iter().map(|x| x.as_u64().unwrap()).collect();
    let (out, _) = run_one(&prop, tape);
    println!("case: {}", serde_json::to_string(&out.render).unwrap());
    match out.violation {
        Some(v) => {
            println!("VIOLATION property={} replay={}", ctx.prop, path);
            println!("  signature: {}", v.sig);
            println!("  detail: {}", v.detail);
            1
        }
        None => {
            println!("replay passed");
            0
        }
    }
}
