#!/bin/bash
# tools/run_all.sh <tier> <seed...> : run every registered check for the given seeds; print one line per run
TIER=$1; shift
cd /verif
for S in "$@"; do
  for ID in $(python3 -c "import json;print(' '.join(c['property_id'] for c in json.load(open('MANIFEST.json'))['checks']))"); do
    T0=$(date +%s.%N)
    OUT=$(VERIF_SEED=$S ./vcheck $ID --tier $TIER 2>&1); RC=$?
    T1=$(date +%s.%N)
    printf "%s seed=%s rc=%s %.1fs %s\n" $ID $S $RC $(echo "$T1 - $T0" | bc) "$(echo "$OUT" | grep -E "VIOLATION|VACUOUS|INFRA|BUILD" | head -2 | tr '\n' ' ' | cut -c1-200)"
  done
done
