//! C11 — Announces advertise the instance's current view of the hierarchy.

use crate::engine::*;
use crate::host::*;
use crate::refcodec::*;
use serde_json::json;

pub const KNOWN_RESTART: &str = "after a sequence-id discontinuity of the parent a BMCA run reinstates the pre-restart Announce contents";
const OWN: [u8; 8] = [0, 0, 0, 0, 0, 0, 0, 0x10];
const PARENT: PortId = PortId { clock: [0, 0, 0, 0, 0, 0, 0, 0x02], port: 1 };
const RIVAL: PortId = PortId { clock: [0, 0, 0, 0, 0, 0, 0, 0x03], port: 1 };

#[derive(Clone, Debug)]
struct Content {
    ann: RAnnounce,
    flags1: u8,
}

fn gen_content(t: &mut Tape, gm: u8, p1: u8) -> Content {
    let mut g = [0u8; 8];
    g[7] = gm;
    Content {
        ann: RAnnounce {
            origin: RTs::default(),
            utc_offset: *t.pick(&[37i16, 0, -1, i16::MAX, i16::MIN]),
            reserved: 0,
            gm_priority1: p1,
            gm_class: *t.pick(&[6u8, 7, 13, 52]),
            gm_accuracy: *t.pick(&[0x20u8, 0x21, 0x31, 0xfe]),
            gm_variance: *t.pick(&[0u16, 0x4e5d, 0xffff]),
            gm_priority2: *t.pick(&[128u8, 0, 255]),
            gm_identity: g,
            steps_removed: *t.pick(&[0u16, 1, 2, 5, 100, 253, 254]),
            time_source: *t.pick(&[0x10u8, 0x20, 0x40, 0xa0, 0xf3, 0x77]),
        },
        flags1: t.below(64) as u8,
    }
}

fn ann_matches_ds(a: &RAnnounce, flags1: u8, ds: &DsSnapshot) -> Option<String> {
    macro_rules! cmp {
        ($n:expr, $x:expr, $y:expr) => {
            if ($x) != ($y) {
                return Some(format!("{}: announce {:?} vs data set {:?}", $n, $x, $y));
            }
        };
    }
    cmp!("grandmasterIdentity", a.gm_identity, ds.gm_identity);
    cmp!("grandmasterClockQuality.clockClass", a.gm_class, ds.gm_class);
    cmp!("grandmasterClockQuality.clockAccuracy", a.gm_accuracy, ds.gm_accuracy);
    cmp!("grandmasterClockQuality.offsetScaledLogVariance", a.gm_variance, ds.gm_variance);
    cmp!("grandmasterPriority1", a.gm_priority1, ds.gm_priority1);
    cmp!("grandmasterPriority2", a.gm_priority2, ds.gm_priority2);
    cmp!("stepsRemoved", a.steps_removed, ds.steps_removed);
    cmp!("timeSource", a.time_source, ds.time_source);
    cmp!("leap59", flags1 & 2 != 0, ds.leap59);
    cmp!("leap61", flags1 & 1 != 0, ds.leap61);
    cmp!("currentUtcOffsetValid", flags1 & 4 != 0, ds.utc_offset.is_some());
    if let Some(u) = ds.utc_offset {
        cmp!("currentUtcOffset", a.utc_offset, u);
    }
    cmp!("ptpTimescale", flags1 & 8 != 0, ds.ptp_timescale);
    cmp!("timeTraceable", flags1 & 16 != 0, ds.time_traceable);
    cmp!("frequencyTraceable", flags1 & 32 != 0, ds.frequency_traceable);
    None
}

pub fn case(t: &mut Tape) -> CaseOut {
    let mut out = CaseOut::new();
    let mut cfg = NodeCfg::default();
    cfg.identity = OWN;
    cfg.priority1 = 128;
    cfg.class = 248;
    let nports = 2 + t.below(2) as usize;
    cfg.ports = vec![PortCfg::default(); nports];
    cfg.filter = FilterKind::Rec;
    let mut node = Node::new(cfg);
    let mut own_q = (248u8, 0xfeu8, 0x8000u16 - 23 * 256);
    let mut q_effective: Option<(u8, u8, u16)> = None; // quality in force at the last completed BMCA
    let mut gm_confirmed = false; // the last BMCA left a port master and none slave => decision code M1/M2 was applied
    // per (port, source): last delivered announce content and next sequence id
    let mut last: std::collections::HashMap<(usize, PortId), Content> = Default::default();
    let mut seqs: std::collections::HashMap<(usize, PortId), u16> = Default::default();
    let mut cur_parent = gen_content(t, 0x02, 100);
    let rp0 = *t.pick(&[90u8, 110]);
    let mut cur_rival = gen_content(t, 0x03, rp0);
    let nops = t.urange(4, 40);
    let mut rendered = vec![];
    let mut emitted_while_slave = 0;
    let mut changes = 0;
    let mut takeovers = 0;
    let mut was_slave = false;
    let mut restarted = false;
    let mut bmca_after_restart = false; // a BMCA ran while the pre-restart foreign-master record may still be alive
    let mut parent_hist: Vec<Content> = vec![];
    for _ in 0..nops {
        let op = t.weighted(&[8, 3, 6, 8, 2, 2, 2, 1]);
        if restarted && (op == 2 || op == 6) {
            bmca_after_restart = true;
        }
        match op {
            0 | 1 => {
                // clean Announce from the parent stream (port 0) or the rival stream (port 1)
                let (p, src, content) = if op == 0 {
                    match t.weighted(&[4, 1, 2]) {
                        0 => {}
                        1 => {
                            let g = if t.chance(1, 4) { 0x05 } else { 0x02 };
                            cur_parent = gen_content(t, g, 100);
                            changes += 1;
                        }
                        _ => {
                            // exactly one field changes (e.g. only stepsRemoved after a topology change upstream)
                            let c = &mut cur_parent;
                            match t.below(10) {
                                0 => c.ann.steps_removed = (c.ann.steps_removed + 1 + t.below(3) as u16) % 255,
                                1 => c.ann.utc_offset = c.ann.utc_offset.wrapping_add(1),
                                2 => c.ann.time_source = *t.pick(&[0x10u8, 0x20, 0x40, 0x50, 0x60]),
                                3 => c.flags1 ^= 1 << t.below(6),
                                4 => c.ann.gm_class = c.ann.gm_class.wrapping_add(1),
                                5 => c.ann.gm_accuracy = if c.ann.gm_accuracy == 0x21 { 0x22 } else { 0x21 },
                                6 => c.ann.gm_variance = c.ann.gm_variance.wrapping_add(1),
                                7 => c.ann.gm_priority2 = c.ann.gm_priority2.wrapping_add(1),
                                8 => c.ann.gm_identity[7] ^= 4,
                                _ => c.ann.gm_priority1 = if c.ann.gm_priority1 == 100 { 99 } else { 100 },
                            }
                            changes += 1;
                            out.label("single-field-change");
                        }
                    }
                    (0usize, PARENT, cur_parent.clone())
                } else {
                    if t.chance(1, 3) {
                        let rp = *t.pick(&[90u8, 110]);
                        cur_rival = gen_content(t, 0x03, rp);
                    }
                    (1usize, RIVAL, cur_rival.clone())
                };
                let s0 = t.below(65536) as u16;
                let s = seqs.entry((p, src)).or_insert(s0);
                if op == 0 && t.chance(1, 12) {
                    // the parent restarts: its sequence ids start again somewhere behind the last one used
                    *s = s.wrapping_sub(1 + t.below(32768) as u16);
                    cur_parent = gen_content(t, 0x02, 100);
                    changes += 1;
                    restarted = true;
                    out.label("parent-restart(sequence id jumps back)");
                    rendered.push("parent restarts".into());
                } else {
                    *s = s.wrapping_add(1);
                }
                let content = if op == 0 { cur_parent.clone() } else { content };
                let mut m = announce_from(src, *s, content.ann, 0, 0);
                m.header.flags[1] = content.flags1;
                node.recv_general(p, &m.encode());
                last.insert((p, src), content.clone());
                if op == 0 {
                    parent_hist.push(content.clone());
                }
                rendered.push(format!("p{} announce from {:?} seq {} steps {} gm {:x} flags {:02x}", p + 1, src.clock[7], *s, content.ann.steps_removed, content.ann.gm_identity[7], content.flags1));
            }
            2 => {
                node.bmca();
                q_effective = Some(own_q);
                let st = node.states();
                gm_confirmed = !st.contains(&PS::Slave) && st.contains(&PS::Master);
                if gm_confirmed && was_slave {
                    takeovers += 1;
                }
                rendered.push("bmca".into());
            }
            3 => {
                let p = t.below(nports as u64) as usize;
                let before = node.ds();
                let states = node.states();
                let acts = node.timer(p, TimerKind::Announce);
                rendered.push(format!("p{} announce-timer", p + 1));
                for a in &acts {
                    let OAction::SendGeneral { data, .. } = a else { continue };
                    let Ok(m) = decode(data) else {
                        out.fail("emitted Announce not decodable", "");
                        continue;
                    };
                    let Some(a) = m.announce() else { continue };
                    let f1 = m.header.flags[1];
                    // (A) always: the Announce carries what the data sets hold
                    if let Some(d) = ann_matches_ds(a, f1, &before) {
                        out.fail(format!("Announce differs from the data sets ({})", d.split(':').next().unwrap_or("")), format!("{} ; ops {:?}", d, rendered));
                    }
                    // (B) while a port is slave: the parent's last Announce, stepsRemoved + 1
                    if let Some(sp) = states.iter().position(|s| *s == PS::Slave) {
                        emitted_while_slave += 1;
                        if let Some(c) = last.get(&(sp, before.parent)) {
                            let matches = |c: &Content| {
                                let leap59 = c.flags1 & 2 != 0;
                                let mut want_f = c.flags1 & 0x3f;
                                if leap59 {
                                    want_f &= !1; // both leap flags: the data set keeps Leap59 only
                                }
                                let mut ok = a.gm_identity == c.ann.gm_identity
                                    && a.gm_class == c.ann.gm_class
                                    && a.gm_accuracy == c.ann.gm_accuracy
                                    && a.gm_variance == c.ann.gm_variance
                                    && a.gm_priority1 == c.ann.gm_priority1
                                    && a.gm_priority2 == c.ann.gm_priority2
                                    && a.steps_removed == c.ann.steps_removed + 1
                                    && a.time_source == c.ann.time_source
                                    && (f1 & 0x3f) == want_f;
                                if c.flags1 & 4 != 0 {
                                    ok &= a.utc_offset == c.ann.utc_offset;
                                }
                                ok
                            };
                            if !matches(c) {
                                if bmca_after_restart && sp == 0 && parent_hist.iter().any(|h| matches(h)) {
                                    // known finding: the BMCA reinstated what the parent announced before its restart
                                    out.fail(KNOWN_RESTART, format!("emitted {:?} flags {:02x} ; parent's last {:?} flags {:02x} ; ops {:?}", a, f1, c.ann, c.flags1, rendered));
                                } else {
                                    out.fail("Announce sent while a port is slave does not carry the parent's last Announce contents (stepsRemoved + 1)", format!("emitted {:?} flags {:02x} ; parent's last {:?} flags {:02x} ; ops {:?}", a, f1, c.ann, c.flags1, rendered));
                                }
                            }
                        } else {
                            out.fail("harness: slave of a parent without recorded Announce", format!("{:?}", before.parent));
                        }
                    }
                    // (C) an Announce that names the instance itself as grandmaster carries its own attributes
                    let is_slave = states.contains(&PS::Slave);
                    if gm_confirmed && !is_slave && a.gm_identity != OWN {
                        out.fail("instance is grandmaster (BMCA made a port master and none slave) but announces another grandmaster", format!("emitted {:?} ; ops {:?}", a, rendered));
                    }
                    if a.gm_identity == OWN && !is_slave {
                        let aq = (a.gm_class, a.gm_accuracy, a.gm_variance);
                        // quality: the one in force at the last completed BMCA; one set since then may already show
                        let q = q_effective.unwrap_or((248, 0xfe, 0x8000 - 23 * 256));
                        if !(a.steps_removed == 0 && a.gm_priority1 == 128 && a.gm_priority2 == 128 && (aq == q || aq == own_q)) {
                            out.fail("Announce of a grandmaster does not carry its own attributes / the clock quality in force at the last BMCA", format!("emitted {:?} ; want own identity, steps 0, quality {:?} or {:?} ; ops {:?}", a, q, own_q, rendered));
                        }
                        // time properties: the configured ones or the library's grandmaster defaults, never a former parent's
                        if gm_confirmed && !((f1 & 0x37) == 0 && a.time_source == 0xa0) {
                            out.fail("Announce of a grandmaster carries time properties that are not its own", format!("flags {:02x} time source {:02x} ; ops {:?}", f1, a.time_source, rendered));
                        }
                    }
                }
            }
            4 => {
                let p = t.below(nports as u64) as usize;
                node.timer(p, TimerKind::Receipt);
                rendered.push(format!("p{} receipt-timeout", p + 1));
            }
            5 => {
                own_q = (*t.pick(&[248u8, 6, 7, 187, 255]), *t.pick(&[0xfeu8, 0x20, 0x25]), *t.pick(&[0xffffu16, 0x4e5d, 1]));
                node.set_clock_quality(own_q.0, own_q.1, own_q.2);
                rendered.push(format!("set_clock_quality {:?}", own_q));
            }
            6 => {
                // parent silence: enough BMCA rounds for its records to expire
                for _ in 0..6 {
                    node.bmca();
                }
                q_effective = Some(own_q);
                let st = node.states();
                gm_confirmed = !st.contains(&PS::Slave) && st.contains(&PS::Master);
                if gm_confirmed && was_slave {
                    takeovers += 1;
                }
                rendered.push("6 x bmca (silence)".into());
            }
            _ => {
                let p = t.below(nports as u64) as usize;
                node.timer(p, TimerKind::Sync);
                for c in node.pending_contexts() {
                    node.tx_timestamp(c, time_from_bits(1_700_000_000_000_000_000u128 << 32));
                }
                rendered.push(format!("p{} sync-timer", p + 1));
            }
        }
        let slave_now = node.states().contains(&PS::Slave);
        if slave_now {
            gm_confirmed = false;
        }
        was_slave = slave_now;
        if !node.monitor.is_empty() {
            out.fail("monitor", node.monitor.join("; "));
        }
        if out.violation.is_some() {
            break;
        }
    }
    let lm = lock_mon_take();
    if !lm.nested.is_empty() {
        out.fail("nested lock acquisition", lm.nested.join("; "));
    }
    out.render = json!({"ports": nports, "ops": rendered});
    if emitted_while_slave > 0 {
        out.label("announce-while-slave");
    }
    if takeovers > 0 {
        out.label("takeover");
    }
    if emitted_while_slave > 0 && (changes > 0 || takeovers > 0) {
        out.nontrivial = Some(hash_of(&rendered));
    }
    out
}

pub fn run(ctx: &Ctx) -> i32 {
    let mut rep = Report::new();
    run_cases(ctx, &mut rep, "histories", ctx.cases(200_000, 5_000_000), case);
    // the real daemon: what its master port announces after the parent changed its contents / after a take-over
    let workers = (ctx.threads as u64 / 2).clamp(2, 8);
    let sum = crate::daemon::run_part(ctx, &mut rep, ctx.cases(6 * workers, 100 * workers), workers);
    if let Some(why) = &sum.skipped {
        println!("note: end-to-end daemon part skipped ({}); the other parts are unaffected", why);
    }
    finish(
        Finish {
            ctx,
            level: "exploration",
            rule: "boundary clock with 2-3 ports; a synthetic parent on port 1 and a rival master on port 2 emit clean Announce streams (increasing ids; in 1/12 of the parent's Announces a restart: the id jumps back by 1..32768 and the contents change ; a BMCA run after that and before the old record has aged out is the regime of the known finding) whose contents change over time (all six time-properties flags, UTC offset incl. extremes, time source, quality, priorities, grandmaster identity, stepsRemoved 0..254), parent silence long enough for the records to expire (take-over as grandmaster), receipt time-outs, SetClockQuality at random points, BMCA and announce timers in generated order. Oracle for every emitted Announce: (A) equals the data set getters read immediately before the call, (B) while a port is slave equals the parent's last Announce with stepsRemoved+1, (C) as grandmaster (after a completed BMCA) own attributes and the clock quality in force at that BMCA. Part daemon: the real statime daemon (two-port boundary clock, private network namespace): the parent changes what it announces; every Announce of the daemon's master port from 40 ms after the changed Announce left the harness must carry exactly those contents with stepsRemoved + 1; in a third of the cases the parent then falls silent and, once both ports report master, the Announces must name the daemon itself with stepsRemoved 0 and its own priorities. Non-trivial = an Announce emitted while slave and a content change or take-over; distinct by op list.",
            assumptions: vec!["both leap flags set by the parent: the data set keeps Leap59; UTC offset is only compared when currentUtcOffsetValid".into()],
            min_nontrivial: 100,
        },
        rep,
    )
}

pub fn replay(ctx: &Ctx, path: &str) -> i32 {
    let part = std::fs::read_to_string(path).ok().and_then(|s| serde_json::from_str::<serde_json::Value>(&s).ok()).and_then(|v| v["part"].as_str().map(|x| x.to_string()));
    if part.as_deref() == Some("daemon") {
        return crate::daemon::replay_part(ctx, path, 3);
    }
    replay_file(ctx, path, case)
}
