//! Driver for the statime-metrics-exporter binary (built from /repo): spawns
//! the process, serves the observation Unix socket with scripted behaviours,
//! talks HTTP over loopback TCP. Used by C19 (stage 3) and C20.

use std::collections::VecDeque;
use std::io::{Read, Write};
use std::net::{SocketAddr, TcpListener, TcpStream};
use std::os::unix::net::UnixListener;
use std::path::PathBuf;
use std::process::{Child, Command, Stdio};
use std::sync::atomic::{AtomicBool, AtomicU64, Ordering};
use std::sync::{Arc, Mutex};
use std::time::{Duration, Instant};

#[derive(Clone, Debug, PartialEq)]
pub enum SockBehaviour {
    /// write this payload in one write and close
    Payload(Vec<u8>),
    /// wait this many milliseconds, then write the payload and close
    DelayedPayload(Vec<u8>, u64),
    /// accept and close without writing
    EmptyClose,
    /// the socket file is absent for this request (connection refused / not found)
    Refused,
}

pub struct ObsServer {
    pub path: PathBuf,
    pub script: Arc<Mutex<VecDeque<SockBehaviour>>>,
    pub default_payload: Arc<Mutex<Vec<u8>>>,
    pub served: Arc<AtomicU64>,
    refused: Arc<AtomicBool>,
    /// the listener is bound *and listening* (the socket file appears at bind(2), a few microseconds before listen(2):
    /// a connect in between is refused)
    ready: Arc<AtomicBool>,
    stop: Arc<AtomicBool>,
    handle: Option<std::thread::JoinHandle<()>>,
}

impl ObsServer {
    pub fn start(path: PathBuf) -> ObsServer {
        let script: Arc<Mutex<VecDeque<SockBehaviour>>> = Arc::new(Mutex::new(VecDeque::new()));
        let default_payload = Arc::new(Mutex::new(Vec::new()));
        let served = Arc::new(AtomicU64::new(0));
        let refused = Arc::new(AtomicBool::new(false));
        let ready = Arc::new(AtomicBool::new(false));
        let stop = Arc::new(AtomicBool::new(false));
        let (s2, d2, sv2, r2, st2, p2) = (script.clone(), default_payload.clone(), served.clone(), refused.clone(), stop.clone(), path.clone());
        let rd2 = ready.clone();
        let handle = std::thread::spawn(move || {
            let mut listener: Option<UnixListener> = None;
            loop {
                if st2.load(Ordering::Relaxed) {
                    break;
                }
                // the head of the script decides whether the socket exists at all
                let head_refused = matches!(s2.lock().unwrap().front(), Some(SockBehaviour::Refused));
                r2.store(head_refused, Ordering::Relaxed);
                if head_refused {
                    if listener.is_some() {
                        rd2.store(false, Ordering::SeqCst);
                        listener = None;
                        let _ = std::fs::remove_file(&p2);
                    }
                    std::thread::sleep(Duration::from_micros(300));
                    continue;
                }
                if listener.is_none() {
                    let _ = std::fs::remove_file(&p2);
                    match UnixListener::bind(&p2) {
                        Ok(l) => {
                            l.set_nonblocking(true).ok();
                            listener = Some(l);
                            rd2.store(true, Ordering::SeqCst);
                        }
                        Err(_) => {
                            std::thread::sleep(Duration::from_millis(1));
                            continue;
                        }
                    }
                }
                match listener.as_ref().unwrap().accept() {
                    Ok((mut stream, _)) => {
                        stream.set_nonblocking(false).ok();
                        let b = s2.lock().unwrap().pop_front();
                        match b {
                            Some(SockBehaviour::Payload(p)) => {
                                let _ = stream.write_all(&p);
                            }
                            Some(SockBehaviour::DelayedPayload(p, ms)) => {
                                std::thread::sleep(Duration::from_millis(ms));
                                let _ = stream.write_all(&p);
                            }
                            Some(SockBehaviour::EmptyClose) => {}
                            Some(SockBehaviour::Refused) => {}
                            None => {
                                let p = d2.lock().unwrap().clone();
                                let _ = stream.write_all(&p);
                            }
                        }
                        drop(stream);
                        sv2.fetch_add(1, Ordering::Relaxed);
                    }
                    Err(_) => std::thread::sleep(Duration::from_micros(200)),
                }
            }
            let _ = std::fs::remove_file(&p2);
        });
        ObsServer { path, script, default_payload, served, refused, ready, stop, handle: Some(handle) }
    }
    /// a "Refused" entry is consumed by the driver once the corresponding HTTP request is over
    pub fn consume_refused(&self) {
        let mut s = self.script.lock().unwrap();
        if matches!(s.front(), Some(SockBehaviour::Refused)) {
            s.pop_front();
        }
    }
    pub fn wait_settled(&self) {
        // wait until the server thread has applied the head-of-script decision
        let want = matches!(self.script.lock().unwrap().front(), Some(SockBehaviour::Refused));
        let t0 = Instant::now();
        while t0.elapsed() < Duration::from_millis(500) {
            let exists = self.path.exists();
            let ready = self.ready.load(Ordering::SeqCst);
            if self.refused.load(Ordering::Relaxed) == want && exists != want && ready != want {
                return;
            }
            std::thread::sleep(Duration::from_micros(200));
        }
    }
}

impl Drop for ObsServer {
    fn drop(&mut self) {
        self.stop.store(true, Ordering::Relaxed);
        if let Some(h) = self.handle.take() {
            let _ = h.join();
        }
    }
}

pub struct Exporter {
    pub child: Child,
    pub addr: SocketAddr,
    pub dir: PathBuf,
    pub obs: ObsServer,
}

pub fn exporter_binary() -> PathBuf {
    std::env::var("VERIF_EXPORTER_BIN").map(PathBuf::from).unwrap_or_else(|_| PathBuf::from("/verif/target/repo/debug/statime-metrics-exporter"))
}

static COUNTER: AtomicU64 = AtomicU64::new(0);

impl Exporter {
    pub fn start(default_payload: Vec<u8>) -> Result<Exporter, String> {
        let bin = exporter_binary();
        if !bin.exists() {
            return Err(format!("exporter binary {} not built", bin.display()));
        }
        let n = COUNTER.fetch_add(1, Ordering::Relaxed);
        let dir = std::env::temp_dir().join(format!("vcheck-exp-{}-{}", std::process::id(), n));
        std::fs::create_dir_all(&dir).map_err(|e| e.to_string())?;
        let sock = dir.join("obs.sock");
        let obs = ObsServer::start(sock.clone());
        *obs.default_payload.lock().unwrap() = default_payload;
        // free port
        let port = {
            let l = TcpListener::bind("127.0.0.1:0").map_err(|e| e.to_string())?;
            l.local_addr().map_err(|e| e.to_string())?.port()
        };
        let addr: SocketAddr = format!("127.0.0.1:{}", port).parse().unwrap();
        let cfg = dir.join("statime.toml");
        std::fs::write(&cfg, format!("loglevel = \"error\"\n[[port]]\ninterface = \"lo\"\n\n[observability]\nobservation-path = \"{}\"\nmetrics-exporter-listen = \"{}\"\n", sock.display(), addr)).map_err(|e| e.to_string())?;
        let child = Command::new(&bin).arg("-c").arg(&cfg).stdin(Stdio::null()).stdout(Stdio::null()).stderr(Stdio::null()).spawn().map_err(|e| e.to_string())?;
        let mut e = Exporter { child, addr, dir, obs };
        // wait until it accepts connections
        let t0 = Instant::now();
        loop {
            if let Ok(Some(st)) = e.child.try_wait() {
                return Err(format!("exporter exited at start-up: {:?}", st));
            }
            // readiness probe = a complete well-formed request (a bare connect+close would itself be one of the
            // client behaviours under test)
            if let Ok(raw) = http_get(&e.addr, Duration::from_millis(500)) {
                if parse_http(&raw).is_some() {
                    break;
                }
            }
            if t0.elapsed() > Duration::from_secs(10) {
                return Err("exporter did not start listening within 10 s".into());
            }
            std::thread::sleep(Duration::from_millis(5));
        }
        Ok(e)
    }

    pub fn alive(&mut self) -> bool {
        matches!(self.child.try_wait(), Ok(None))
    }

    /// CPU time (user+system) of the exporter process in clock ticks
    pub fn cpu_ticks(&self) -> u64 {
        let s = std::fs::read_to_string(format!("/proc/{}/stat", self.child.id())).unwrap_or_default();
        // fields after the closing paren of comm
        let rest = s.rsplit_once(')').map(|x| x.1).unwrap_or("");
        let f: Vec<&str> = rest.split_whitespace().collect();
        // utime is field 14, stime 15 (1-based); after ')' the index shifts by 2
        let ut: u64 = f.get(11).and_then(|x| x.parse().ok()).unwrap_or(0);
        let st: u64 = f.get(12).and_then(|x| x.parse().ok()).unwrap_or(0);
        ut + st
    }
}

impl Drop for Exporter {
    fn drop(&mut self) {
        let _ = self.child.kill();
        let _ = self.child.wait();
        let _ = std::fs::remove_dir_all(&self.dir);
    }
}

#[derive(Debug, Clone)]
pub struct HttpResp {
    pub status: u16,
    pub headers: Vec<(String, String)>,
    pub body: Vec<u8>,
    pub complete: bool,
}

/// Parse an HTTP/1.1 response; `complete` = header terminator seen and body length equals Content-Length.
pub fn parse_http(raw: &[u8]) -> Option<HttpResp> {
    let pos = raw.windows(4).position(|w| w == b"\r\n\r\n")?;
    let head = std::str::from_utf8(&raw[..pos]).ok()?;
    let mut lines = head.split("\r\n");
    let status_line = lines.next()?;
    let mut sp = status_line.split(' ');
    let proto = sp.next()?;
    if !proto.starts_with("HTTP/1.") {
        return None;
    }
    let status: u16 = sp.next()?.parse().ok()?;
    let mut headers = vec![];
    for l in lines {
        let (k, v) = l.split_once(':')?;
        headers.push((k.trim().to_ascii_lowercase(), v.trim().to_string()));
    }
    let body = raw[pos + 4..].to_vec();
    let cl = headers.iter().find(|(k, _)| k == "content-length").and_then(|(_, v)| v.parse::<usize>().ok());
    let complete = cl.map(|n| n == body.len()).unwrap_or(false);
    Some(HttpResp { status, headers, body, complete })
}

/// Well-formed GET; returns the raw response bytes read until EOF / deadline.
pub fn http_get(addr: &SocketAddr, deadline: Duration) -> Result<Vec<u8>, String> {
    let t0 = Instant::now();
    let mut s = TcpStream::connect_timeout(addr, deadline).map_err(|e| format!("connect: {}", e))?;
    s.set_read_timeout(Some(Duration::from_millis(50))).ok();
    s.write_all(b"GET /metrics HTTP/1.1\r\nHost: localhost\r\nUser-Agent: vcheck\r\n\r\n").map_err(|e| format!("write: {}", e))?;
    read_response(&mut s, t0, deadline)
}

pub fn read_response(s: &mut TcpStream, t0: Instant, deadline: Duration) -> Result<Vec<u8>, String> {
    let mut buf = vec![];
    let mut tmp = [0u8; 8192];
    loop {
        match s.read(&mut tmp) {
            Ok(0) => return Ok(buf),
            Ok(n) => {
                buf.extend_from_slice(&tmp[..n]);
                if let Some(r) = parse_http(&buf) {
                    if r.complete {
                        return Ok(buf);
                    }
                }
            }
            Err(e) if e.kind() == std::io::ErrorKind::WouldBlock || e.kind() == std::io::ErrorKind::TimedOut => {}
            Err(e) => return Err(format!("read: {}", e)),
        }
        if t0.elapsed() > deadline {
            return Err(format!("deadline: {} bytes so far", buf.len()));
        }
    }
}

pub fn set_linger_zero(s: &TcpStream) {
    use std::os::fd::AsRawFd;
    let l = libc::linger { l_onoff: 1, l_linger: 0 };
    unsafe {
        libc::setsockopt(s.as_raw_fd(), libc::SOL_SOCKET, libc::SO_LINGER, &l as *const _ as *const libc::c_void, std::mem::size_of::<libc::linger>() as libc::socklen_t);
    }
}

/// A client that sends a complete GET and resets the connection while the exporter is still fetching the state
/// (the observation socket answers only after `obs_delay_ms`), so that the exporter's response write fails.
pub fn aborted_scrape(exp: &Exporter, payload: Vec<u8>, obs_delay_ms: u64) {
    exp.obs.script.lock().unwrap().push_back(SockBehaviour::DelayedPayload(payload, obs_delay_ms));
    let served0 = exp.obs.served.load(Ordering::Relaxed);
    if let Ok(mut s) = TcpStream::connect_timeout(&exp.addr, Duration::from_secs(2)) {
        let _ = s.write_all(b"GET /metrics HTTP/1.1\r\nHost: localhost\r\n\r\n");
        std::thread::sleep(Duration::from_millis(obs_delay_ms / 2));
        set_linger_zero(&s);
        drop(s);
    }
    // wait until the observation server has finished that exchange (or give up: the script entry is then removed)
    let t0 = Instant::now();
    while exp.obs.served.load(Ordering::Relaxed) == served0 && t0.elapsed() < Duration::from_millis(obs_delay_ms + 500) {
        std::thread::sleep(Duration::from_millis(1));
    }
    let mut sc = exp.obs.script.lock().unwrap();
    if matches!(sc.front(), Some(SockBehaviour::DelayedPayload(..))) {
        sc.pop_front();
    }
    drop(sc);
    std::thread::sleep(Duration::from_millis(15));
}
