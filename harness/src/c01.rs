//! C01 — a network of real instances converges to one grandmaster and a
//! loop-free master/slave tree; re-converges after single faults; no flapping.
//! Discrete-event simulation of real PtpInstances with generated topologies,
//! rankings, delays, BMCA phases and fault scripts.

use crate::engine::*;
use crate::host::*;
use crate::refcodec::PortId;
use serde_json::json;
use std::collections::{BTreeSet, BinaryHeap};

#[derive(Clone, Debug)]
struct NodeSpec {
    p1: u8,
    class: u8,
    acc: u8,
    var: u16,
    p2: u8,
    slave_only: bool,
    nports: usize,
    bmca_phase_pm: u64,
}

#[derive(Clone, Debug)]
enum Fault {
    None,
    Cut { node: usize, port: usize },
    CutRestore { node: usize, port: usize },
    Silence { node: usize },
    Quality { node: usize, class: u8, p_acc: u8 },
    SlaveOnly { node: usize, on: bool },
}

#[derive(Clone, Debug)]
struct Scenario {
    ann_log: i8,
    receipt_timeout: u8,
    nodes: Vec<NodeSpec>,
    /// segment -> endpoints (node, port)
    segments: Vec<Vec<(usize, usize)>>,
    delay_ns: u64,
    jitter_ns: u64,
    fault: Fault,
    seed: u64,
    /// path trace option (and TLV forwarding through the daemon's forwarder) on every node
    path_trace: bool,
    /// host timers (port timers and the BMCA timer) fire up to this many thousandths of an announce interval late
    /// and are re-armed from the moment they fired, as on a real host: periods of equal length then drift against
    /// each other (0 = exact timers)
    timer_late_pm: u64,
}

fn ident(i: usize) -> [u8; 8] {
    [0, 0, 0, 0, 0, 0, 1, 0x10 + i as u8]
}

fn gen_scenario(t: &mut Tape, max_nodes: usize) -> Scenario {
    let n = 2 + t.below(max_nodes as u64 - 1) as usize;
    let mut nodes: Vec<NodeSpec> = (0..n)
        .map(|_| NodeSpec {
            p1: *t.pick(&[128u8, 127, 129]),
            class: *t.pick(&[248u8, 248, 248, 6, 7, 127, 128, 255]),
            acc: *t.pick(&[0xfeu8, 0x21, 0x22]),
            var: *t.pick(&[0xffffu16, 0x4e5d]),
            p2: *t.pick(&[128u8, 127]),
            slave_only: false,
            nports: 0,
            bmca_phase_pm: 1 + t.below(998),
        })
        .collect();
    for nd in nodes.iter_mut() {
        if nd.class >= 128 && t.chance(1, 6) {
            // IEEE 1588-2019 7.6.2.5: a slave-only instance has clockClass 255
            nd.slave_only = true;
            nd.class = 255;
            // and must rank behind every master-capable instance, otherwise it never synchronises (its own data set wins)
            nd.p1 = 200;
        }
    }
    // at least one node must be able to be master
    if nodes.iter().all(|x| x.slave_only) {
        nodes[0].slave_only = false;
        nodes[0].p1 = 128;
        nodes[0].class = 248;
    }
    // connected topology: random spanning tree of segments, then extras
    let mut segments: Vec<Vec<(usize, usize)>> = vec![];
    let attach = |nodes: &mut Vec<NodeSpec>, i: usize| -> Option<(usize, usize)> {
        if nodes[i].nports >= 3 {
            return None;
        }
        nodes[i].nports += 1;
        Some((i, nodes[i].nports - 1))
    };
    let mut order: Vec<usize> = (0..n).collect();
    for i in (1..n).rev() {
        let j = t.below(i as u64 + 1) as usize;
        order.swap(i, j);
    }
    for k in 1..n {
        let new = order[k];
        // join an existing segment (shared) or create a new link to an already placed node
        let join_shared = !segments.is_empty() && t.chance(1, 3);
        let mut done = false;
        if join_shared {
            let s = t.below(segments.len() as u64) as usize;
            if segments[s].len() < 4 {
                if let Some(ep) = attach(&mut nodes, new) {
                    segments[s].push(ep);
                    done = true;
                }
            }
        }
        if !done {
            // pick a placed node with a free port
            let placed: Vec<usize> = order[..k].iter().copied().filter(|&i| nodes[i].nports < 3).collect();
            let peer = if placed.is_empty() { order[0] } else { placed[t.below(placed.len() as u64) as usize] };
            match (attach(&mut nodes, new), attach(&mut nodes, peer)) {
                (Some(a), Some(b)) => segments.push(vec![a, b]),
                (Some(a), None) => {
                    // peer full: join one of its segments
                    let s = segments.iter().position(|seg| seg.iter().any(|e| e.0 == peer)).unwrap_or(0);
                    segments[s].push(a);
                }
                _ => {}
            }
        }
    }
    // extras: rings, same-instance second port on a segment
    let extras = t.weighted(&[3, 2, 1]);
    for _ in 0..extras {
        match t.below(2) {
            0 => {
                // extra link between two nodes (ring)
                let a = t.below(n as u64) as usize;
                let b = t.below(n as u64) as usize;
                if a != b && nodes[a].nports < 3 && nodes[b].nports < 3 {
                    let ea = attach(&mut nodes, a).unwrap();
                    let eb = attach(&mut nodes, b).unwrap();
                    segments.push(vec![ea, eb]);
                }
            }
            _ => {
                // a second port of an instance on a segment it is already on
                let s = t.below(segments.len() as u64) as usize;
                let a = segments[s][t.below(segments[s].len() as u64) as usize].0;
                if nodes[a].nports < 3 && segments[s].len() < 4 {
                    let e = attach(&mut nodes, a).unwrap();
                    segments[s].push(e);
                }
            }
        }
    }
    for nd in nodes.iter_mut() {
        if nd.nports == 0 {
            nd.nports = 1; // isolated port (should not happen)
        }
    }
    let fault = match t.weighted(&[2, 2, 1, 2, 2, 1]) {
        0 => Fault::None,
        1 => {
            let s = t.below(segments.len() as u64) as usize;
            let (node, port) = segments[s][t.below(segments[s].len() as u64) as usize];
            Fault::Cut { node, port }
        }
        2 => {
            let s = t.below(segments.len() as u64) as usize;
            let (node, port) = segments[s][t.below(segments[s].len() as u64) as usize];
            Fault::CutRestore { node, port }
        }
        3 => Fault::Silence { node: t.below(n as u64) as usize },
        4 => Fault::Quality { node: t.below(n as u64) as usize, class: *t.pick(&[6u8, 248, 187, 255, 127]), p_acc: *t.pick(&[0x20u8, 0xfe]) },
        _ => {
            let node = t.below(n as u64) as usize;
            if nodes[node].p1 == 200 {
                Fault::SlaveOnly { node, on: !nodes[node].slave_only }
            } else {
                Fault::None
            }
        }
    };
    Scenario { ann_log: t.range(-2, 1) as i8, receipt_timeout: *t.pick(&[3u8, 2, 4]), nodes, segments, delay_ns: t.urange(1_000, 400_000), jitter_ns: t.below(20_000), fault, seed: t.below(1 << 30), path_trace: t.chance(1, 3), timer_late_pm: if t.chance(1, 2) { 0 } else { *t.pick(&[2u64, 10, 30, 80]) } }
}

#[derive(PartialEq, Eq, PartialOrd, Ord)]
struct Ev {
    t: std::cmp::Reverse<u64>,
    tie: std::cmp::Reverse<u64>,
    kind: u8, // 0 deliver 1 bmca
    node: usize,
    port: usize,
    idx: usize,
}

struct Sim {
    sc: Scenario,
    nodes: Vec<Node>,
    specs: Vec<NodeSpec>,
    interval: u64,
    heap: BinaryHeap<Ev>,
    frames: Vec<Option<(Vec<u8>, bool)>>,
    cut: BTreeSet<(usize, usize)>,
    silenced: BTreeSet<usize>,
    rng: u64,
    now: u64,
    seg_of: Vec<Vec<usize>>,
    events: u64,
}

impl Sim {
    fn new(sc: Scenario) -> Sim {
        let interval: u64 = if sc.ann_log >= 0 { 1_000_000_000u64 << sc.ann_log } else { 1_000_000_000u64 >> (-sc.ann_log) };
        let mut nodes = vec![];
        for (i, s) in sc.nodes.iter().enumerate() {
            let mut cfg = NodeCfg::default();
            cfg.identity = ident(i);
            cfg.priority1 = s.p1;
            cfg.priority2 = s.p2;
            cfg.class = s.class;
            cfg.accuracy = s.acc;
            cfg.variance = s.var;
            cfg.slave_only = s.slave_only;
            cfg.filter = FilterKind::Rec;
            cfg.path_trace = sc.path_trace;
            cfg.prov = if sc.path_trace { ProvKind::Daemon } else { ProvKind::None };
            cfg.rng_seed = sc.seed + i as u64;
            cfg.ports = (0..s.nports)
                .map(|_| {
                    let mut p = PortCfg::default();
                    p.announce_log = sc.ann_log;
                    p.sync_log = sc.ann_log;
                    p.delay_log = sc.ann_log + 1;
                    p.receipt_timeout = sc.receipt_timeout;
                    p
                })
                .collect();
            nodes.push(Node::new(cfg));
        }
        let mut seg_of: Vec<Vec<usize>> = sc.nodes.iter().map(|s| vec![usize::MAX; s.nports]).collect();
        for (si, seg) in sc.segments.iter().enumerate() {
            for (n, p) in seg {
                seg_of[*n][*p] = si;
            }
        }
        let mut sim = Sim { specs: sc.nodes.clone(), rng: sc.seed | 1, sc, nodes, interval, heap: BinaryHeap::new(), frames: vec![], cut: BTreeSet::new(), silenced: BTreeSet::new(), now: 0, seg_of, events: 0 };
        for i in 0..sim.nodes.len() {
            let period = sim.nodes[i].bmca_interval_ns();
            let t = period * sim.specs[i].bmca_phase_pm / 1000;
            sim.push(t, 1, i, 0, 0);
        }
        sim
    }
    fn lateness(&self, who: u64, t: u64) -> u64 {
        if self.sc.timer_late_pm == 0 {
            return 0;
        }
        let max = self.interval * self.sc.timer_late_pm / 1000;
        let mut x = t ^ (who.wrapping_mul(0x9e3779b97f4a7c15)) ^ self.sc.seed;
        x ^= x >> 33;
        x = x.wrapping_mul(0xff51afd7ed558ccd);
        x ^= x >> 33;
        x % (max + 1)
    }
    fn rnd(&mut self) -> u64 {
        // xorshift: deterministic function of the scenario seed (drawn by the generator)
        let mut x = self.rng;
        x ^= x << 13;
        x ^= x >> 7;
        x ^= x << 17;
        self.rng = x;
        x
    }
    fn push(&mut self, t: u64, kind: u8, node: usize, port: usize, idx: usize) {
        let tie = self.rnd();
        self.heap.push(Ev { t: std::cmp::Reverse(t), tie: std::cmp::Reverse(tie), kind, node, port, idx });
    }
    fn emit(&mut self, n: usize, p: usize, acts: Vec<OAction>) {
        if self.silenced.contains(&n) {
            return;
        }
        for a in acts {
            let (data, is_event) = match a {
                OAction::SendEvent { data, .. } => (data, true),
                OAction::SendGeneral { data, .. } => (data, false),
                _ => continue,
            };
            if self.cut.contains(&(n, p)) {
                continue;
            }
            let si = self.seg_of[n][p];
            if si == usize::MAX {
                continue;
            }
            let eps = self.sc.segments[si].clone();
            for (dn, dp) in eps {
                if (dn, dp) == (n, p) || self.cut.contains(&(dn, dp)) {
                    continue;
                }
                let j = if self.sc.jitter_ns > 0 { self.rnd() % self.sc.jitter_ns } else { 0 };
                let t = self.now + self.sc.delay_ns + j;
                self.frames.push(Some((data.clone(), is_event)));
                let idx = self.frames.len() - 1;
                self.push(t, 0, dn, dp, idx);
            }
        }
    }
    fn flush_tx(&mut self, n: usize) {
        loop {
            let pend = self.nodes[n].pending_contexts();
            if pend.is_empty() {
                break;
            }
            for c in pend {
                let ts = time_from_bits(((1_700_000_000_000_000_000u128 + self.now as u128) << 32) | 5);
                if let Some((p, acts)) = self.nodes[n].tx_timestamp(c, ts) {
                    self.emit(n, p, acts);
                }
            }
        }
    }
    /// run until `until`; `on_bmca` is called after every BMCA of every node
    fn run(&mut self, until: u64, mut on_bmca: impl FnMut(&mut Sim, usize)) {
        loop {
            // next timer among all nodes
            let mut tt = u64::MAX;
            let mut tn = 0;
            for (i, nd) in self.nodes.iter().enumerate() {
                if self.silenced.contains(&i) {
                    continue;
                }
                if let Some((t, _, _)) = nd.next_timer() {
                    // lateness of this firing: a deterministic function of (node, deadline)
                    let t = t + self.lateness(i as u64, t);
                    if t < tt {
                        tt = t;
                        tn = i;
                    }
                }
            }
            let te = self.heap.peek().map(|e| e.t.0).unwrap_or(u64::MAX);
            let t = tt.min(te);
            if t > until {
                self.now = until;
                return;
            }
            self.now = self.now.max(t);
            self.events += 1;
            if tt <= te {
                let n = tn;
                self.nodes[n].now_ns = self.now;
                let (_, p, k) = self.nodes[n].next_timer().unwrap();
                let acts = self.nodes[n].timer(p, k);
                self.emit(n, p, acts);
                self.flush_tx(n);
            } else {
                let e = self.heap.pop().unwrap();
                let n = e.node;
                if e.kind == 1 {
                    let period = self.nodes[n].bmca_interval_ns();
                    // re-armed from the moment it ran, plus the lateness of the next firing
                    let late = self.lateness(1000 + n as u64, e.t.0);
                    self.push(e.t.0 + period + late, 1, n, 0, 0);
                    if self.silenced.contains(&n) {
                        continue;
                    }
                    self.nodes[n].now_ns = self.now;
                    self.nodes[n].bmca();
                    on_bmca(self, n);
                } else {
                    let Some((data, is_event)) = self.frames[e.idx].take() else { continue };
                    if self.silenced.contains(&n) || self.cut.contains(&(n, e.port)) {
                        continue;
                    }
                    self.nodes[n].now_ns = self.now;
                    let acts = if is_event {
                        let ts = time_from_bits(((1_700_000_000_000_000_000u128 + self.now as u128) << 32) | 9);
                        self.nodes[n].recv_event(e.port, &data, ts)
                    } else {
                        self.nodes[n].recv_general(e.port, &data)
                    };
                    self.emit(n, e.port, acts);
                    self.flush_tx(n);
                }
            }
        }
    }

    fn key(&self, i: usize) -> (u8, u8, u8, u16, u8, [u8; 8]) {
        let s = &self.specs[i];
        (s.p1, s.class, s.acc, s.var, s.p2, ident(i))
    }

    /// port states and the hierarchy part of the data sets (time properties may still be refreshed by a later BMCA)
    fn snapshot(&self) -> Vec<(Vec<PS>, (u16, PortId, [u8; 8]))> {
        self.nodes
            .iter()
            .map(|n| {
                let d = n.ds();
                (n.states(), (d.steps_removed, d.parent, d.gm_identity))
            })
            .collect()
    }

    /// Evaluate predicates G, T, S on the current state. Returns the first problem.
    fn evaluate(&self) -> Option<String> {
        let n = self.nodes.len();
        let active = |i: usize| !self.silenced.contains(&i);
        // connected components over active endpoints
        let mut comp = vec![usize::MAX; n];
        let mut nc = 0;
        for s in 0..n {
            if comp[s] != usize::MAX || !active(s) {
                continue;
            }
            let mut stack = vec![s];
            comp[s] = nc;
            while let Some(x) = stack.pop() {
                for seg in &self.sc.segments {
                    let eps: Vec<&(usize, usize)> = seg.iter().filter(|e| !self.cut.contains(e) && active(e.0)).collect();
                    if eps.iter().any(|e| e.0 == x) {
                        for e in &eps {
                            if comp[e.0] == usize::MAX {
                                comp[e.0] = nc;
                                stack.push(e.0);
                            }
                        }
                    }
                }
            }
            nc += 1;
        }
        let states: Vec<Vec<PS>> = self.nodes.iter().map(|x| x.states()).collect();
        let dss: Vec<DsSnapshot> = self.nodes.iter().map(|x| x.ds()).collect();
        // weak, always-true part
        for i in 0..n {
            if !active(i) {
                continue;
            }
            if states[i].iter().filter(|s| **s == PS::Slave).count() > 1 {
                return Some(format!("node {} has more than one slave port", i));
            }
            if let Some(sp) = states[i].iter().position(|s| *s == PS::Slave) {
                // the parent must be a live, connected node
                let parent = dss[i].parent;
                let pn = (0..n).find(|&j| ident(j) == parent.clock);
                let connected = pn.map(|j| active(j) && comp[j] == comp[i] && !self.cut.contains(&(i, sp)) && !self.cut.contains(&(j, parent.port as usize - 1))).unwrap_or(false);
                if !connected {
                    return Some(format!("node {} is still slave of a parent that is gone: {:?}", i, parent));
                }
            }
        }
        for c in 0..nc {
            let members: Vec<usize> = (0..n).filter(|&i| comp[i] == c).collect();
            let capable: Vec<usize> = members.iter().copied().filter(|&i| !self.specs[i].slave_only).collect();
            if capable.is_empty() {
                continue;
            }
            let b = *capable.iter().min_by_key(|&&i| self.key(i)).unwrap();
            // R(B): reachable from B through segments and relay nodes
            let relay = |i: usize| self.specs[i].class >= 128 && !self.specs[i].slave_only;
            let mut reach = BTreeSet::new();
            reach.insert(b);
            let mut frontier = vec![b];
            while let Some(x) = frontier.pop() {
                if x != b && !relay(x) {
                    continue;
                }
                for seg in &self.sc.segments {
                    let eps: Vec<&(usize, usize)> = seg.iter().filter(|e| !self.cut.contains(e) && active(e.0)).collect();
                    if eps.iter().any(|e| e.0 == x) {
                        for e in eps {
                            if reach.insert(e.0) {
                                frontier.push(e.0);
                            }
                        }
                    }
                }
            }
            // (G)
            if states[b].contains(&PS::Slave) {
                return Some(format!("best node {} has a slave port: {:?}", b, states[b]));
            }
            if dss[b].gm_identity != ident(b) || dss[b].steps_removed != 0 {
                return Some(format!("best node {} does not advertise itself as grandmaster: gm {:?} steps {}", b, dss[b].gm_identity, dss[b].steps_removed));
            }
            for &x in &reach {
                if x == b {
                    continue;
                }
                let may_be_slave = self.specs[x].class >= 128;
                if !may_be_slave {
                    continue;
                }
                if dss[x].gm_identity == ident(x) {
                    return Some(format!("node {} reachable from the best node {} names itself grandmaster (states {:?})", x, b, states[x]));
                }
                // (T)
                if states[x].iter().filter(|s| **s == PS::Slave).count() != 1 {
                    return Some(format!("node {} does not have exactly one slave port: {:?}", x, states[x]));
                }
                if dss[x].gm_identity != ident(b) {
                    return Some(format!("node {} follows grandmaster {:?} instead of the best node {}", x, dss[x].gm_identity, b));
                }
                // chain
                let mut cur = x;
                let mut hops = 0;
                while cur != b {
                    let parent: PortId = dss[cur].parent;
                    let Some(pn) = (0..n).find(|&i| ident(i) == parent.clock) else {
                        return Some(format!("node {} has an unknown parent {:?}", cur, parent));
                    };
                    if dss[cur].steps_removed != dss[pn].steps_removed + 1 {
                        return Some(format!("stepsRemoved does not decrease by one along the parent chain: node {} ({}) -> node {} ({})", cur, dss[cur].steps_removed, pn, dss[pn].steps_removed));
                    }
                    cur = pn;
                    hops += 1;
                    if hops > n {
                        return Some(format!("parent chain of node {} loops", x));
                    }
                }
            }
        }
        // an instance with clockClass 1..127 may never be a slave (decision codes M1/P1 only)
        for x in 0..n {
            if active(x) && self.specs[x].class < 128 && states[x].contains(&PS::Slave) {
                return Some(format!("node {} with clockClass {} (< 128, may not be a slave) has a slave port: {:?}", x, self.specs[x].class, states[x]));
            }
        }
        // (S) one master per segment with a master-capable attached port
        for (si, seg) in self.sc.segments.iter().enumerate() {
            let eps: Vec<&(usize, usize)> = seg.iter().filter(|e| !self.cut.contains(e) && active(e.0)).collect();
            if eps.is_empty() {
                continue;
            }
            let capable = eps.iter().any(|e| !self.nodes[e.0].ds().slave_only && states[e.0][e.1] != PS::Faulty);
            if !capable {
                continue;
            }
            let masters = eps.iter().filter(|e| states[e.0][e.1] == PS::Master).count();
            if masters != 1 {
                return Some(format!("segment {} {:?} has {} ports in the master state: {:?}", si, seg, masters, eps.iter().map(|e| (e.0, e.1, states[e.0][e.1])).collect::<Vec<_>>()));
            }
        }
        // a cut port hears nothing: it is a segment of its own
        for (nd, p) in &self.cut {
            if active(*nd) && !self.nodes[*nd].ds().slave_only && states[*nd][*p] != PS::Faulty && states[*nd][*p] != PS::Master {
                return Some(format!("isolated port {} of node {} is {:?}, not master", p, nd, states[*nd][*p]));
            }
        }
        None
    }

    /// does the (post-fault) bipartite graph of active nodes and segments contain a cycle?
    fn has_cycle(&self) -> bool {
        let n = self.nodes.len();
        let mut edges = 0usize;
        let mut verts = 0usize;
        let mut parent: Vec<usize> = (0..n + self.sc.segments.len()).collect();
        fn find(p: &mut Vec<usize>, x: usize) -> usize {
            let mut r = x;
            while p[r] != r {
                r = p[r];
            }
            p[x] = r;
            r
        }
        let mut used = vec![false; n + self.sc.segments.len()];
        for (si, seg) in self.sc.segments.iter().enumerate() {
            for e in seg {
                if self.cut.contains(e) || self.silenced.contains(&e.0) {
                    continue;
                }
                edges += 1;
                used[e.0] = true;
                used[n + si] = true;
                let (a, b) = (find(&mut parent, e.0), find(&mut parent, n + si));
                if a != b {
                    parent[a] = b;
                }
            }
        }
        let mut comps = BTreeSet::new();
        for v in 0..used.len() {
            if used[v] {
                verts += 1;
                comps.insert(find(&mut parent, v));
            }
        }
        edges > verts - comps.len()
    }

    fn diameter(&self) -> u64 {
        // segment-graph diameter (in node hops) of the whole network, an upper bound for every component
        let n = self.nodes.len();
        let mut best = 1;
        for s in 0..n {
            let mut dist = vec![u64::MAX; n];
            dist[s] = 0;
            let mut q = std::collections::VecDeque::from([s]);
            while let Some(x) = q.pop_front() {
                for seg in &self.sc.segments {
                    if seg.iter().any(|e| e.0 == x) {
                        for e in seg {
                            if dist[e.0] == u64::MAX {
                                dist[e.0] = dist[x] + 1;
                                q.push_back(e.0);
                            }
                        }
                    }
                }
            }
            best = best.max(dist.iter().filter(|d| **d != u64::MAX).max().copied().unwrap_or(1));
        }
        best
    }
}

fn phase(sim: &mut Sim, what: &str, out: &mut CaseOut, rendered: &serde_json::Value) -> Option<f64> {
    // run until converged (at most t_conv), then require stability for 12 intervals
    let d = sim.diameter();
    let mut mult: u64 = std::env::var("VERIF_C01_BOUND_MULT").ok().and_then(|x| x.parse().ok()).unwrap_or(1);
    if what.contains("fault") {
        // diagnosis aid: stretch only the post-fault phase (the history up to the fault stays the same)
        mult *= std::env::var("VERIF_C01_FAULT_MULT").ok().and_then(|x| x.parse::<u64>().ok()).unwrap_or(1);
    }
    let mut t_conv = mult * (2 * sim.sc.receipt_timeout as u64 + 4 + 3) * (d + 2) * sim.interval;
    // The path trace option does not shorten this in statime: the looping test is applied to Announces of the
    // *current parent* only, so the stale data set of a lost grandmaster is still re-selected through the other
    // port of a cycle and counts up to 255 (thorough tier: 3 nodes, two parallel segments, path trace on, 5-interval
    // oscillation for 321 intervals) - same bound with and without path trace.
    if what.contains("fault") && sim.has_cycle() {
        // IEEE 1588 without path trace: after the grandmaster is lost, its stale data set keeps circulating in a
        // cycle of boundary clocks with stepsRemoved growing by the cycle length per round until it reaches 255
        // ("count to infinity"). Each hop costs up to one announce interval plus one BMCA period, so the bound
        // for topologies with a cycle is 255 hops x 2 intervals (+ the normal bound).
        t_conv += 2 * 255 * sim.interval;
        out.label("count-to-infinity-bound");
    }
    let start = sim.now;
    // the predicates must hold from some point before the bound onwards: run the whole bound and
    // remember the last moment they did not hold (transient re-convergence flaps inside the bound are allowed)
    let mut last_fail: Option<(u64, String)> = None;
    let trace = std::env::var("VERIF_C01_TRACE").is_ok();
    let mut prev_trace: Option<String> = Some(String::new());
    let step = sim.interval / 2;
    while sim.now < start + t_conv {
        let until = sim.now + step;
        sim.run(until, |_, _| {});
        let ev = sim.evaluate();
        if trace {
            let cur = ev.clone().map(|p| p.chars().take(90).collect::<String>());
            if cur != prev_trace {
                eprintln!("C01-TRACE {} t={:.1} intervals: {}", what, (sim.now - start) as f64 / sim.interval as f64, cur.clone().unwrap_or_else(|| "predicates hold".into()));
                prev_trace = cur;
            }
        }
        if let Some(p) = ev {
            last_fail = Some((sim.now, p));
        }
    }
    if let Some(why) = sim.evaluate() {
        out.fail(
            format!("network not converged within the bound {} ({})", what, why.split(|c: char| c.is_ascii_digit()).next().unwrap_or("").trim()),
            format!("after {} announce intervals: {} ; scenario {}", t_conv / sim.interval, why, rendered),
        );
        return None;
    }
    let ca = last_fail.map(|x| x.0).unwrap_or(start);
    // no-flap window
    let snap = sim.snapshot();
    let mut flap: Option<String> = None;
    let until = sim.now + 12 * sim.interval;
    sim.run(until, |s, n| {
        if flap.is_none() {
            if let Some(p) = s.evaluate() {
                flap = Some(format!("predicate broken after convergence at node {}'s BMCA: {}", n, p));
            } else {
                let now = s.snapshot();
                if now != snap {
                    let i = (0..now.len()).find(|&i| now[i] != snap[i]).unwrap();
                    flap = Some(format!("node {} changed after convergence: {:?} -> {:?} ; data sets {:?} -> {:?}", i, snap[i].0, now[i].0, snap[i].1, now[i].1));
                }
            }
        }
    });
    if let Some(f) = flap {
        out.fail(format!("steady state flaps {}", what), format!("{} ; scenario {}", f, rendered));
        return None;
    }
    Some((ca - start) as f64 / sim.interval as f64)
}

pub fn case_with(t: &mut Tape, max_nodes: usize) -> CaseOut {
    let mut out = CaseOut::new();
    let sc = gen_scenario(t, max_nodes);
    let rendered = json!({"announce_log": sc.ann_log, "receipt_timeout": sc.receipt_timeout, "delay_ns": sc.delay_ns, "jitter_ns": sc.jitter_ns,
        "nodes": sc.nodes.iter().map(|n| format!("p1={} class={} acc={:x} var={:x} p2={} slave_only={} ports={} phase={}", n.p1, n.class, n.acc, n.var, n.p2, n.slave_only, n.nports, n.bmca_phase_pm)).collect::<Vec<_>>(),
        "segments": format!("{:?}", sc.segments), "fault": format!("{:?}", sc.fault), "path_trace": sc.path_trace, "timer_lateness_permille": sc.timer_late_pm});
    out.render = rendered.clone();
    let n = sc.nodes.len();
    let shared = sc.segments.iter().any(|s| s.len() > 2);
    let same_inst = sc.segments.iter().any(|s| {
        let mut v: Vec<usize> = s.iter().map(|e| e.0).collect();
        v.sort();
        v.windows(2).any(|w| w[0] == w[1])
    });
    let boundary = sc.nodes.iter().any(|x| x.nports >= 2);
    let fault = sc.fault.clone();
    let mut sim = Sim::new(sc);
    let c1 = phase(&mut sim, "after start", &mut out, &rendered);
    if let (Some(c1), true) = (c1, out.violation.is_none()) {
        out.label(format!("conv-start-intervals:{}", (c1 as u64 / 4) * 4));
        match &fault {
            Fault::None => {}
            Fault::Cut { node, port } => {
                sim.cut.insert((*node, *port));
            }
            Fault::CutRestore { node, port } => {
                sim.cut.insert((*node, *port));
                let until = sim.now + 10 * sim.interval;
                sim.run(until, |_, _| {});
                sim.cut.remove(&(*node, *port));
            }
            Fault::Silence { node } => {
                sim.silenced.insert(*node);
            }
            Fault::Quality { node, class, p_acc } => {
                sim.nodes[*node].set_clock_quality(*class, *p_acc, sim.specs[*node].var);
                sim.specs[*node].class = *class;
                sim.specs[*node].acc = *p_acc;
                if *class < 128 {
                    // a low-class clock is never slave-only in the generator's model
                }
            }
            Fault::SlaveOnly { node, on } => {
                // the host keeps clockClass 255 <=> slave-only (IEEE 1588-2019 7.6.2.5)
                let class = if *on { 255 } else { 248 };
                if sim.specs[*node].class >= 128 {
                    sim.nodes[*node].set_clock_quality(class, sim.specs[*node].acc, sim.specs[*node].var);
                    sim.specs[*node].class = class;
                }
                sim.nodes[*node].set_slave_only(*on);
                sim.specs[*node].slave_only = *on;
            }
        }
        if !matches!(fault, Fault::None) {
            // a slave-only flag on a low-class clock or an all-slave-only network makes the predicates moot
            let ok_model = sim.specs.iter().all(|s| !(s.slave_only && s.class < 128));
            if ok_model {
                if let Some(c2) = phase(&mut sim, "after the fault", &mut out, &rendered) {
                    out.label(format!("conv-fault-intervals:{}", (c2 as u64 / 4) * 4));
                }
            }
            out.label(format!("fault:{}", format!("{:?}", fault).split(|c| c == ' ' || c == '{').next().unwrap_or("")));
        }
    }
    for nd in &sim.nodes {
        if !nd.monitor.is_empty() {
            out.fail("monitor", nd.monitor.join("; "));
        }
    }
    let lm = lock_mon_take();
    if !lm.nested.is_empty() {
        out.fail("nested lock acquisition", lm.nested.join("; "));
    }
    if shared {
        out.label("has-shared-segment");
    }
    if sim.sc.path_trace {
        out.label("path-trace-on");
    }
    if sim.sc.timer_late_pm > 0 {
        out.label("late-timers");
    }
    if same_inst {
        out.label("same-instance-segment");
    }
    if sim.specs.iter().any(|s| s.class < 128) {
        out.label("has-lowclass");
    }
    if sim.specs.iter().any(|s| s.slave_only) {
        out.label("has-slave-only");
    }
    if n >= 3 && (boundary || shared) {
        out.nontrivial = Some(hash_of(&rendered.to_string()));
    }
    out
}

pub fn case(t: &mut Tape) -> CaseOut {
    let max = if std::env::var("VERIF_TIER").map(|v| v == "thorough").unwrap_or(false) { 7 } else { 4 };
    case_with(t, max)
}

pub fn run(ctx: &Ctx) -> i32 {
    std::env::set_var("VERIF_TIER", &ctx.tier);
    let mut rep = Report::new();
    run_cases(ctx, &mut rep, "networks", ctx.cases(8000, 300_000), case);
    // networks of real daemons (processes built from /repo) on bridges and veth pairs in a private network namespace
    std::env::set_var("VERIF_C01_E2E_NODES", if ctx.quick() { "3" } else { "4" });
    let workers = (ctx.threads as u64 / 2).clamp(2, 8);
    let sum = crate::daemon::run_part(ctx, &mut rep, ctx.cases(2 * workers, 40 * workers), workers);
    if let Some(why) = &sum.skipped {
        println!("note: end-to-end daemon part skipped ({}); the other parts are unaffected", why);
    }
    finish(
        Finish {
            ctx,
            level: "exploration",
            rule: "networks of 2-4 (thorough 2-7) real PtpInstances with 1-3 ports on segments (point-to-point links, shared segments of up to 4 endpoints, rings, two ports of one instance on one segment), built constructively so that they are connected; per node priority1/clockClass (6,7,127,128,248,255)/accuracy/variance/priority2 from small domains, distinct identities, slave-only on some nodes; one announce interval per network (log -2..1), receipt timeout 2..4; path trace + TLV forwarding on all nodes in a third of the networks; per delivery a delay of 1..400 us plus jitter up to 20 us; per node a BMCA phase; in half of the networks host timers (port timers and the BMCA timer) fire up to 0.2-8 % of an announce interval late and are re-armed from the moment they fired, so that equal periods drift against each other as on a real host; event ties broken by a generated seed; after convergence one fault (cut one endpoint, cut and restore, silence a node, change a node's quality, toggle slave-only). Predicates G/T/S of DESIGN.md C01 evaluated every half interval until they hold (bound (2*timeout+7)*(D+2) announce intervals) and then at every BMCA of every node over 12 intervals together with constancy of all port states and data sets (no flap). Part daemon: networks of 2-3 (thorough 2-4) real statime daemons in a private network namespace - every segment a Linux bridge, every port a veth pair, trees of point-to-point and shared segments, generated priority1 ranking (or all equal: the identity decides), path trace on/off, PTP over Ethernet, announce interval 125 ms; after convergence one fault (kill the grandmaster or another daemon, cut an endpoint out of its bridge, cut and restore); the same predicates evaluated on what the daemons publish on their observation sockets, polled every 60 ms, within the in-process bound x 1.5 in real time (+1.5 s process start), then 12 intervals without any change. Non-trivial = >= 3 instances and (a boundary clock or a shared segment); distinct by scenario.",
            assumptions: vec!["servo irrelevant here: recording filter, ideal clocks".into(), "master_only ports are left to C08".into(), "liveness checked as bounded-horizon safety".into()],
            min_nontrivial: 50,
        },
        rep,
    )
}

pub fn replay(ctx: &Ctx, path: &str) -> i32 {
    std::env::set_var("VERIF_TIER", &ctx.tier);
    let part = std::fs::read_to_string(path).ok().and_then(|s| serde_json::from_str::<serde_json::Value>(&s).ok()).and_then(|v| v["part"].as_str().map(|x| x.to_string()));
    if part.as_deref() == Some("daemon") {
        std::env::set_var("VERIF_C01_E2E_NODES", "4");
        return crate::daemon::replay_part(ctx, path, 3);
    }
    replay_file(ctx, path, case)
}
