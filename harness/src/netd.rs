//! C01 end to end: small networks of *real* statime daemons (built from /repo)
//! inside the worker's private network namespace. Every network segment is a
//! Linux bridge, every daemon port a veth pair whose far end is enslaved to the
//! segment's bridge; an endpoint is cut by taking its far end out of the bridge
//! (the daemon's own interface stays up, so it sees silence, not send errors).
//! The harness sends no PTP traffic at all here: it only starts, cuts, kills
//! and reads the daemons' observation sockets.

use crate::daemon::{daemon_binary, observe_at, sh, E2eOut, PSock};
use crate::refcodec::{decode, T_ANNOUNCE};
use crate::engine::*;
use serde_json::json;
use std::collections::BTreeSet;
use std::path::PathBuf;
use std::process::{Child, Command, Stdio};
use std::time::{Duration, Instant};

const ANN_LOG: i8 = -3;
const ANN_MS: u64 = 125;
const TIMEOUT: u64 = 3;

struct NodeD {
    child: Option<Child>,
    dir: PathBuf,
    id: [u8; 8],
    p1: u8,
    nports: usize,
}

#[derive(Clone, Debug)]
enum Fault {
    None,
    Kill(usize),
    Cut(usize, usize),
    CutRestore(usize, usize),
    /// the node is started only after the others have run for this many milliseconds
    LateJoin(usize, u64),
    /// the endpoint is out of its bridge from the start and joins after convergence
    JoinLater(usize, usize),
}

#[derive(Clone, Debug)]
struct Scenario {
    p1: Vec<u8>,
    nports: Vec<usize>,
    /// segments: endpoints (node, port)
    segments: Vec<Vec<(usize, usize)>>,
    path_trace: bool,
    fault: Fault,
}

fn node_id(i: usize) -> [u8; 8] {
    [0x00, 0x1b, 0x19, 0xa0, 0x00, i as u8 + 1, 0x00, 0x00]
}

fn gen_scenario(t: &mut Tape, max_nodes: usize) -> Scenario {
    if t.chance(1, 6) {
        // the one cyclic shape: two boundary clocks in parallel between two shared segments, the grandmaster on the
        // first and an ordinary clock on the second; the grandmaster is never the one that fails (a lost grandmaster
        // in a cycle is the count-to-infinity case, minutes in real time)
        let fault = match t.below(6) {
            0 => Fault::Kill(1),
            1 => Fault::Kill(2),
            2 => Fault::Cut(1, 1),
            3 => Fault::CutRestore(1, 1),
            4 => Fault::CutRestore(2, 1),
            _ => Fault::JoinLater(1, 1),
        };
        return Scenario { p1: vec![100, 128, 128, 128], nports: vec![1, 2, 2, 1], segments: vec![vec![(0, 0), (1, 0), (2, 0)], vec![(1, 1), (2, 1), (3, 0)]], path_trace: t.bool(), fault };
    }
    let n = 2 + t.below(max_nodes as u64 - 1) as usize;
    // priority1: distinct values in generated order, or all equal (identity decides)
    let mut p1: Vec<u8> = if t.chance(1, 4) { vec![128; n] } else { (0..n).map(|i| 100 + 10 * i as u8).collect() };
    for i in (1..n).rev() {
        let j = t.below(i as u64 + 1) as usize;
        p1.swap(i, j);
    }
    // a tree of segments: node k > 0 joins an existing segment (shared segment, at most 3 endpoints) or opens a new
    // one together with a new port of an earlier node
    let mut nports = vec![0usize; n];
    let mut segments: Vec<Vec<(usize, usize)>> = vec![];
    for k in 1..n {
        let joinable: Vec<usize> = (0..segments.len()).filter(|s| segments[*s].len() < 3).collect();
        if !joinable.is_empty() && t.chance(1, 3) {
            let s = *t.pick(&joinable);
            segments[s].push((k, nports[k]));
            nports[k] += 1;
        } else {
            let candidates: Vec<usize> = (0..k).filter(|j| nports[*j] < 2).collect();
            let j = if candidates.is_empty() { 0 } else { *t.pick(&candidates) };
            segments.push(vec![(j, nports[j]), (k, nports[k])]);
            nports[j] += 1;
            nports[k] += 1;
        }
    }
    // sometimes a node has a second port on one of its segments (the higher-numbered one must go passive)
    if t.chance(1, 4) {
        let cands: Vec<(usize, usize)> = segments.iter().enumerate().flat_map(|(si, s)| s.iter().filter(|e| nports[e.0] < 2).map(move |e| (si, e.0))).filter(|(si, _)| segments[*si].len() < 4).collect();
        if !cands.is_empty() {
            let (si, nd) = *t.pick(&cands);
            segments[si].push((nd, nports[nd]));
            nports[nd] += 1;
        }
    }
    let best = (0..n).min_by_key(|i| (p1[*i], node_id(*i))).unwrap();
    let fault = match t.weighted(&[1, 3, 2, 3, 2, 1]) {
        0 => Fault::None,
        1 => Fault::Kill(best),
        2 => Fault::Kill(t.below(n as u64) as usize),
        3 => {
            let s = t.below(segments.len() as u64) as usize;
            let e = *t.pick(&segments[s]);
            Fault::Cut(e.0, e.1)
        }
        4 => {
            let s = t.below(segments.len() as u64) as usize;
            let e = *t.pick(&segments[s]);
            Fault::CutRestore(e.0, e.1)
        }
        // the best node joins a network that has been running without it for 10-18 s
        _ => Fault::LateJoin(best, t.urange(10_000, 18_000)),
    };
    Scenario { p1, nports, segments, path_trace: t.bool(), fault }
}

struct NetD {
    sc: Scenario,
    nodes: Vec<NodeD>,
    cut: BTreeSet<(usize, usize)>,
    tag: String,
    /// one packet socket per segment, on the bridge device: what is really on the wire
    sniffers: Vec<Option<PSock>>,
}

impl NetD {
    fn ifname(&self, node: usize, port: usize) -> String {
        format!("{}n{}p{}", self.tag, node, port)
    }
    fn start(sc: Scenario, tag: String) -> Result<NetD, String> {
        let mut net = NetD { sc: sc.clone(), nodes: vec![], cut: BTreeSet::new(), tag, sniffers: vec![] };
        for (k, seg) in sc.segments.iter().enumerate() {
            let br = format!("{}sg{}", net.tag, k);
            sh(&format!("ip link add {} type bridge && ip link set {} type bridge stp_state 0 forward_delay 0 && ip link set {} up", br, br, br))?;
            for (nd, p) in seg {
                let a = net.ifname(*nd, *p);
                sh(&format!("ip link add {a} type veth peer name {a}b && ip link set {a} address 00:1b:19:a1:{:02x}:{:02x} && ip link set {a}b master {br} && ip link set {a} up && ip link set {a}b up", nd, p, a = a, br = br))?;
            }
            net.sniffers.push(PSock::open(&br, false).ok());
        }
        if let Fault::JoinLater(a, b) = sc.fault {
            net.set_cut((a, b), true);
        }
        static GEN: std::sync::atomic::AtomicU64 = std::sync::atomic::AtomicU64::new(0);
        let g = GEN.fetch_add(1, std::sync::atomic::Ordering::Relaxed);
        let late = if let Fault::LateJoin(i, _) = sc.fault { Some(i) } else { None };
        for i in 0..sc.p1.len() {
            let dir = std::env::temp_dir().join(format!("vcheck-net-{}-{}-{}", std::process::id(), g, i));
            std::fs::create_dir_all(&dir).map_err(|e| e.to_string())?;
            let id = node_id(i);
            let mut cfg = format!(
                "loglevel = \"warn\"\nsdo-id = 0\ndomain = 0\npriority1 = {}\nidentity = \"{}\"\nvirtual-system-clock = true\npath-trace = {}\n",
                sc.p1[i],
                id.iter().map(|b| format!("{:02x}", b)).collect::<String>(),
                sc.path_trace
            );
            for p in 0..sc.nports[i] {
                cfg += &format!("\n[[port]]\ninterface = \"{}\"\nnetwork-mode = \"ethernet\"\nhardware-clock = \"none\"\nannounce-interval = {l}\nsync-interval = {l}\ndelay-interval = -2\n", net.ifname(i, p), l = ANN_LOG);
            }
            cfg += &format!("\n[observability]\nobservation-path = \"{}\"\n", dir.join("obs.sock").display());
            std::fs::write(dir.join("statime.toml"), cfg).map_err(|e| e.to_string())?;
            net.nodes.push(NodeD { child: None, dir, id, p1: sc.p1[i], nports: sc.nports[i] });
            if late != Some(i) {
                net.spawn(i)?;
            }
        }
        Ok(net)
    }

    fn spawn(&mut self, i: usize) -> Result<(), String> {
        let dir = self.nodes[i].dir.clone();
        let log = std::fs::File::create(dir.join("daemon.log")).map_err(|e| e.to_string())?;
        let mut cmd = Command::new(daemon_binary());
        unsafe {
            use std::os::unix::process::CommandExt;
            cmd.pre_exec(|| {
                libc::prctl(libc::PR_SET_PDEATHSIG, libc::SIGKILL);
                Ok(())
            });
        }
        let child = cmd.arg("-c").arg(dir.join("statime.toml")).stdin(Stdio::null()).stdout(log.try_clone().map_err(|e| e.to_string())?).stderr(log).spawn().map_err(|e| format!("spawn daemon: {}", e))?;
        self.nodes[i].child = Some(child);
        Ok(())
    }

    /// Announce senders seen on every segment since the last call (source port identities)
    fn announce_senders(&mut self) -> Vec<BTreeSet<([u8; 8], u16)>> {
        let mut v = vec![];
        for s in &self.sniffers {
            let mut set = BTreeSet::new();
            if let Some(s) = s {
                while let Some(f) = s.recv() {
                    if let Ok(m) = decode(&f) {
                        if m.header.msg_type == T_ANNOUNCE {
                            set.insert((m.header.source.clock, m.header.source.port));
                        }
                    }
                }
            }
            v.push(set);
        }
        v
    }

    fn alive(&mut self, i: usize) -> bool {
        match self.nodes[i].child.as_mut() {
            None => false,
            Some(c) => matches!(c.try_wait(), Ok(None)),
        }
    }

    fn kill(&mut self, i: usize) {
        if let Some(mut c) = self.nodes[i].child.take() {
            let _ = c.kill();
            let _ = c.wait();
        }
    }

    fn set_cut(&mut self, e: (usize, usize), cut: bool) {
        let seg = self.sc.segments.iter().position(|s| s.contains(&e)).unwrap();
        let a = self.ifname(e.0, e.1);
        if cut {
            let _ = sh(&format!("ip link set {}b nomaster", a));
            self.cut.insert(e);
        } else {
            let _ = sh(&format!("ip link set {}b master {}sg{}", a, self.tag, seg));
            self.cut.remove(&e);
        }
    }

    /// None = the predicates of the property hold for what the daemons report; Some(why) otherwise
    fn evaluate(&mut self) -> Option<String> {
        let n = self.nodes.len();
        let mut obs = vec![];
        for i in 0..n {
            if !self.alive(i) {
                if self.nodes[i].child.is_some() {
                    return Some(format!("daemon {} exited", i));
                }
                obs.push(None);
                continue;
            }
            match observe_at(&self.nodes[i].dir.join("obs.sock")) {
                None => return Some(format!("daemon {} does not answer on its observation socket", i)),
                Some(o) => {
                    if o.instance.port_ds.len() != self.nodes[i].nports {
                        return Some(format!("daemon {} has not published its ports yet", i));
                    }
                    obs.push(Some(o))
                }
            }
        }
        let active = |i: usize| obs[i].is_some();
        let state = |i: usize, p: usize| format!("{:?}", obs[i].as_ref().unwrap().instance.port_ds[p].port_state);
        // components over active nodes and uncut endpoints
        let mut comp: Vec<usize> = (0..n).collect();
        loop {
            let mut changed = false;
            for seg in &self.sc.segments {
                let eps: Vec<usize> = seg.iter().filter(|e| !self.cut.contains(e) && active(e.0)).map(|e| e.0).collect();
                if let Some(m) = eps.iter().map(|x| comp[*x]).min() {
                    for x in eps {
                        if comp[x] != m {
                            comp[x] = m;
                            changed = true;
                        }
                    }
                }
            }
            if !changed {
                break;
            }
        }
        for c in 0..n {
            let members: Vec<usize> = (0..n).filter(|i| active(*i) && comp[*i] == c).collect();
            if members.is_empty() {
                continue;
            }
            let b = *members.iter().min_by_key(|i| (self.nodes[**i].p1, self.nodes[**i].id)).unwrap();
            let ob = &obs[b].as_ref().unwrap().instance;
            if (0..self.nodes[b].nports).any(|p| state(b, p).starts_with("Slave")) {
                return Some(format!("best node {} has a slave port: {:?}", b, (0..self.nodes[b].nports).map(|p| state(b, p)).collect::<Vec<_>>()));
            }
            if ob.parent_ds.grandmaster_identity.0 != self.nodes[b].id || ob.current_ds.steps_removed != 0 {
                return Some(format!("best node {} does not report itself as grandmaster: gm {:02x?} steps {}", b, ob.parent_ds.grandmaster_identity.0, ob.current_ds.steps_removed));
            }
            for &x in &members {
                if x == b {
                    continue;
                }
                let ox = &obs[x].as_ref().unwrap().instance;
                let slaves = (0..self.nodes[x].nports).filter(|p| state(x, *p).starts_with("Slave")).count();
                if slaves != 1 {
                    return Some(format!("node {} does not have exactly one slave port: {:?}", x, (0..self.nodes[x].nports).map(|p| state(x, p)).collect::<Vec<_>>()));
                }
                if ox.parent_ds.grandmaster_identity.0 != self.nodes[b].id {
                    return Some(format!("node {} follows grandmaster {:02x?} instead of the best node {}", x, ox.parent_ds.grandmaster_identity.0, b));
                }
                // the parent is a port in the master state on a segment shared with this node's slave port
                let sp = (0..self.nodes[x].nports).find(|p| state(x, *p).starts_with("Slave")).unwrap();
                let pp = ox.parent_ds.parent_port_identity;
                match (0..n).find(|i| self.nodes[*i].id == pp.clock_identity.0 && active(*i)) {
                    None => return Some(format!("node {} names a parent that is not an active node: {:02x?}", x, pp.clock_identity.0)),
                    Some(pn) => {
                        let pi = pp.port_number as usize;
                        let shares = pi >= 1 && pi <= self.nodes[pn].nports && self.sc.segments.iter().any(|s| s.contains(&(pn, pi - 1)) && s.contains(&(x, sp)) && !self.cut.contains(&(pn, pi - 1)) && !self.cut.contains(&(x, sp)));
                        if !shares {
                            return Some(format!("node {} names port {} of node {} as its parent, which is not on the segment of its slave port", x, pi, pn));
                        }
                        if !state(pn, pi - 1).starts_with("Master") {
                            return Some(format!("node {} names port {} of node {} as its parent, but that port is {}", x, pi, pn, state(pn, pi - 1)));
                        }
                    }
                }
                // parent chain with stepsRemoved decreasing by one
                let mut cur = x;
                let mut hops = 0;
                while cur != b {
                    let oc = &obs[cur].as_ref().unwrap().instance;
                    let pid = oc.parent_ds.parent_port_identity.clock_identity.0;
                    let Some(pn) = (0..n).find(|i| self.nodes[*i].id == pid && active(*i)) else {
                        return Some(format!("node {} names a parent that is not an active node: {:02x?}", cur, pid));
                    };
                    let op = &obs[pn].as_ref().unwrap().instance;
                    if oc.current_ds.steps_removed != op.current_ds.steps_removed + 1 {
                        return Some(format!("stepsRemoved does not decrease by one along the parent chain: node {} ({}) -> node {} ({})", cur, oc.current_ds.steps_removed, pn, op.current_ds.steps_removed));
                    }
                    cur = pn;
                    hops += 1;
                    if hops > n {
                        return Some(format!("parent chain of node {} loops", x));
                    }
                }
            }
        }
        // one master port per segment; cut endpoints of active nodes are masters of their own (empty) segment
        for (si, seg) in self.sc.segments.iter().enumerate() {
            let eps: Vec<&(usize, usize)> = seg.iter().filter(|e| !self.cut.contains(e) && active(e.0)).collect();
            if eps.is_empty() {
                continue;
            }
            let masters = eps.iter().filter(|e| state(e.0, e.1).starts_with("Master")).count();
            if masters != 1 {
                return Some(format!("segment {} has {} ports in the master state: {:?}", si, masters, eps.iter().map(|e| (e.0, e.1, state(e.0, e.1))).collect::<Vec<_>>()));
            }
        }
        for e in self.cut.clone() {
            if active(e.0) && !state(e.0, e.1).starts_with("Master") {
                return Some(format!("isolated port {} of node {} is {}, not master", e.1, e.0, state(e.0, e.1)));
            }
        }
        None
    }

    /// what must not change during the no-flap window
    fn fingerprint(&mut self) -> String {
        let mut s = String::new();
        for i in 0..self.nodes.len() {
            if !self.alive(i) {
                continue;
            }
            if let Some(o) = observe_at(&self.nodes[i].dir.join("obs.sock")) {
                s += &format!("{}:{:?}/{:02x?}/{:02x?}/{};", i, o.instance.port_ds.iter().map(|p| format!("{:?}", p.port_state)).collect::<Vec<_>>(), o.instance.parent_ds.parent_port_identity.clock_identity.0, o.instance.parent_ds.grandmaster_identity.0, o.instance.current_ds.steps_removed);
            }
        }
        s
    }
}

impl Drop for NetD {
    fn drop(&mut self) {
        for i in 0..self.nodes.len() {
            self.kill(i);
        }
        for (nd, np) in self.sc.nports.iter().enumerate() {
            for p in 0..*np {
                let _ = sh(&format!("ip link del {}", self.ifname(nd, p)));
            }
        }
        for k in 0..self.sc.segments.len() {
            let _ = sh(&format!("ip link del {}sg{}", self.tag, k));
        }
        if std::env::var("VERIF_E2E_KEEP").is_err() {
            for nd in &self.nodes {
                let _ = std::fs::remove_dir_all(&nd.dir);
            }
        }
    }
}

/// run until the predicates hold from some point inside the bound onwards, then require 12 announce intervals
/// without any change; returns the convergence time in announce intervals
fn phase(net: &mut NetD, what: &str, bound_ms: u64, out: &mut CaseOut, rendered: &serde_json::Value) -> Option<f64> {
    let t0 = Instant::now();
    let mut last_fail: Option<(Duration, String)> = Some((Duration::ZERO, "not evaluated yet".into()));
    // the whole bound is observed: transient flaps while converging are allowed, the last failure counts
    while t0.elapsed() < Duration::from_millis(bound_ms) {
        std::thread::sleep(Duration::from_millis(60));
        match net.evaluate() {
            Some(p) => {
                if p.contains("exited") {
                    let i: usize = p.split_whitespace().nth(1).and_then(|x| x.parse().ok()).unwrap_or(0);
                    let log = std::fs::read_to_string(net.nodes[i].dir.join("daemon.log")).unwrap_or_default();
                    out.fail(format!("daemons: a daemon of the network exited {}", what), format!("{} ; {} ; {}", p, log.lines().filter(|l| l.contains("panicked") || l.contains("rror")).take(3).collect::<Vec<_>>().join(" | "), rendered));
                    return None;
                }
                last_fail = Some((t0.elapsed(), p));
            }
            None => {
                // converged for now; stop early once it has held for 8 intervals
                if let Some((at, _)) = &last_fail {
                    if t0.elapsed() > *at + Duration::from_millis(8 * ANN_MS) {
                        break;
                    }
                }
            }
        }
    }
    if let Some(p) = net.evaluate() {
        out.fail(format!("daemons: network not converged within the bound {} ({})", what, p.split(|c: char| c.is_ascii_digit()).next().unwrap_or("").trim()), format!("after {} ms (bound {} ms): {} ; {}", t0.elapsed().as_millis(), bound_ms, p, rendered));
        return None;
    }
    let conv = last_fail.map(|x| x.0).unwrap_or(Duration::ZERO);
    let fp = net.fingerprint();
    let _ = net.announce_senders();
    let f0 = Instant::now();
    // two ports of one instance on one segment keep each other passive by their Announces, once per interval: the
    // no-flap window is ten times longer there (a beat between announce and BMCA timers needs time to show)
    let same_inst = net.sc.segments.iter().any(|s| {
        let mut v: Vec<usize> = s.iter().filter(|e| !net.cut.contains(e) && net.nodes[e.0].child.is_some()).map(|e| e.0).collect();
        v.sort();
        v.windows(2).any(|w| w[0] == w[1])
    });
    let window = if same_inst { 120 } else { 12 };
    while f0.elapsed() < Duration::from_millis(window * ANN_MS) {
        std::thread::sleep(Duration::from_millis(50));
        if let Some(p) = net.evaluate() {
            out.fail(format!("daemons: steady state flaps {}", what), format!("{} ; {}", p, rendered));
            return None;
        }
        let now = net.fingerprint();
        if now != fp {
            out.fail(format!("daemons: steady state flaps {}", what), format!("{} -> {} ; {}", fp, now, rendered));
            return None;
        }
    }
    // on the wire: during those 12 intervals every segment carried the Announces of exactly one port
    let senders = net.announce_senders();
    for (si, set) in senders.iter().enumerate() {
        if net.sniffers[si].is_none() {
            continue;
        }
        let live = net.sc.segments[si].iter().filter(|e| !net.cut.contains(e) && net.nodes[e.0].child.is_some()).count();
        let lost = net.sniffers[si].as_ref().map(|s| s.dropped()).unwrap_or(0);
        if lost > 0 {
            continue; // the sniffer missed frames (machine overloaded): no verdict from the wire for this segment
        }
        if live > 0 && set.len() != 1 {
            out.fail(format!("daemons: a segment carries the Announces of {} ports in the steady state {}", if set.len() == 0 { "no" } else { "several" }, what), format!("segment {}: {:02x?} ; {}", si, set.iter().map(|x| (x.0[5], x.1)).collect::<Vec<_>>(), rendered));
            return None;
        }
    }
    Some(conv.as_millis() as f64 / ANN_MS as f64)
}

pub fn case_c01(t: &mut Tape, max_nodes: usize, tag: &str) -> E2eOut {
    let mut out = CaseOut::new();
    let sc = gen_scenario(t, max_nodes);
    let rendered = json!({"priority1": sc.p1, "ports": sc.nports, "segments": format!("{:?}", sc.segments), "path_trace": sc.path_trace, "fault": format!("{:?}", sc.fault)});
    out.render = rendered.clone();
    let n = sc.p1.len();
    let mut net = match NetD::start(sc.clone(), tag.to_string()) {
        Ok(x) => x,
        Err(e) => return E2eOut { out, inconclusive: Some(format!("network set-up failed: {}", e)) },
    };
    // the in-process bound (2*timeout+7)*(D+2) announce intervals with D <= n-1, in real time with 50 % slack,
    // plus 1.5 s for the start of the processes
    let bound = |extra_ms: u64| (2 * TIMEOUT + 7) * (n as u64 + 1) * ANN_MS * 3 / 2 + extra_ms;
    // late join: the processes of the second phase need their start-up time, too
    let extra2 = if matches!(sc.fault, Fault::LateJoin(..)) { 1500 } else { 0 };
    let Some(c1) = phase(&mut net, "after start", bound(1500), &mut out, &rendered) else {
        return E2eOut { out, inconclusive: None };
    };
    out.label(format!("daemons:conv-start<={}", ((c1 / 8.0).ceil() * 8.0) as u64));
    match sc.fault.clone() {
        Fault::None => {}
        Fault::Kill(i) => net.kill(i),
        Fault::Cut(a, b) => net.set_cut((a, b), true),
        Fault::CutRestore(a, b) => {
            net.set_cut((a, b), true);
            std::thread::sleep(Duration::from_millis(10 * ANN_MS));
            net.set_cut((a, b), false);
        }
        Fault::LateJoin(i, idle_ms) => {
            std::thread::sleep(Duration::from_millis(idle_ms));
            if let Err(e) = net.spawn(i) {
                return E2eOut { out, inconclusive: Some(e) };
            }
        }
        Fault::JoinLater(a, b) => net.set_cut((a, b), false),
    }
    if !matches!(sc.fault, Fault::None) {
        if (0..n).all(|i| !net.alive(i)) {
            return E2eOut { out, inconclusive: None };
        }
        let Some(c2) = phase(&mut net, "after the fault", bound(extra2), &mut out, &rendered) else {
            return E2eOut { out, inconclusive: None };
        };
        out.label(format!("daemons:conv-fault<={}", ((c2 / 8.0).ceil() * 8.0) as u64));
        out.label(format!("daemons:fault:{}", format!("{:?}", sc.fault).split('(').next().unwrap_or("")));
    }
    if n >= 3 || sc.segments.iter().any(|s| s.len() > 2) {
        out.nontrivial = Some(hash_of(&rendered.to_string()));
    }
    out.label("daemons:network");
    E2eOut { out, inconclusive: None }
}
