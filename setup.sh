#!/bin/bash
# Cold build of the verification harness (offline). Run once after a restore.
set -e
cd "$(dirname "$0")"
export CARGO_NET_OFFLINE=true
mkdir -p target evidence replays
( cd harness && cargo build --quiet --profile checked && cargo build --quiet --profile unchecked )
HERE=$(pwd)
( cd /repo && cargo build --quiet --offline -p statime-linux --bin statime-metrics-exporter --bin statime --target-dir "$HERE/target/repo" )
echo "setup ok"
