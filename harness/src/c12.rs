//! C12 — no stuck states: ports keep progressing when the host obeys timer
//! actions. Bounded-horizon progress over the faithful host timer model.

use crate::engine::*;
use crate::hist::*;
use crate::host::*;
use crate::refcodec::*;
use serde_json::json;

pub const PROFILE: Profile = Profile { extreme: false, malformed: false, tlvs: false, settings: true, free_timers: false };
const BEST: PortId = PortId { clock: [0, 0, 0, 0, 0, 0, 0, 0x01], port: 1 };

fn interval_ns(log: i8) -> u64 {
    if log >= 0 {
        1_000_000_000u64 << log
    } else {
        1_000_000_000u64 >> (-log)
    }
}

struct Emis {
    t: u64,
    port: usize,
    ty: u8,
}

/// run the host loop (timers as armed, periodic BMCA, immediate transmit timestamps) until `until`;
/// `feed` is called before each step with the current time to inject frames from an external master.
fn run_loop(node: &mut Node, next_bmca: &mut u64, until: u64, emis: &mut Vec<Emis>, mut feed: impl FnMut(&mut Node, u64, &mut Vec<Emis>) -> Option<u64>, out: &mut CaseOut) {
    let period = node.bmca_interval_ns().max(1);
    let mut guard = 0u64;
    loop {
        guard += 1;
        if guard > 400_000 {
            out.fail("harness: event loop did not terminate", "");
            return;
        }
        let tt = node.next_timer().map(|x| x.0).unwrap_or(u64::MAX);
        let tf = feed(node, node.now_ns, emis).unwrap_or(u64::MAX);
        let tn = tt.min(*next_bmca).min(tf);
        if tn > until {
            node.now_ns = until;
            return;
        }
        node.now_ns = node.now_ns.max(tn);
        if tn == tf {
            continue; // feed delivers at its own time on the next call
        }
        if tn == *next_bmca {
            node.bmca();
            *next_bmca += period;
        } else {
            let (_, p, k) = node.next_timer().unwrap();
            let acts = node.timer(p, k);
            record(node, p, &acts, emis);
        }
        // the daemon reports transmit timestamps at once
        for c in node.pending_contexts() {
            let ts = time_from_bits(((1_700_000_000_000_000_000u128 + node.now_ns as u128) << 32) | 11);
            if let Some((p, acts)) = node.tx_timestamp(c, ts) {
                record(node, p, &acts, emis);
            }
        }
    }
}

fn record(node: &Node, p: usize, acts: &[OAction], emis: &mut Vec<Emis>) {
    for a in acts {
        let data = match a {
            OAction::SendEvent { data, .. } | OAction::SendGeneral { data, .. } => data,
            _ => continue,
        };
        if data.len() >= 34 {
            emis.push(Emis { t: node.now_ns, port: p, ty: data[0] & 0xf });
        }
    }
}

pub const KNOWN_RECOVERED: &str = "port stuck in Listening after recovering from a peer-delay fault (no announce receipt timer armed)";

fn gen_prefix(t: &mut Tape, max_ops: u64) -> (World, Vec<String>, Vec<bool>) {
    let mut cfg = gen_node_cfg(t, 3, &[FilterKind::Rec, FilterKind::Kalman]);
    cfg.path_trace = false;
    for pc in cfg.ports.iter_mut() {
        if pc.receipt_timeout > 4 {
            pc.receipt_timeout = 4;
        }
    }
    let mut w = World::new(cfg, 1_700_000_000);
    let mut recovered = vec![false; w.node.nports()];
    let n = t.below(max_ops + 1);
    for _ in 0..n {
        let op = w.gen_op(t, &PROFILE);
        if let COp::Timer { port, kind } = &op {
            // timers fire only when armed, at their deadline
            match w.node.timers[*port][*kind as usize] {
                Some(d) => w.node.now_ns = w.node.now_ns.max(d),
                None => continue,
            }
        }
        let before = w.node.states();
        w.step(&op);
        for (p, s) in w.node.states().iter().enumerate() {
            if before[p] == PS::Faulty && *s != PS::Faulty {
                recovered[p] = true;
            }
        }
    }
    let ops = w.ops.iter().map(|o| o.brief()).collect();
    (w, ops, recovered)
}

fn case_silence(t: &mut Tape) -> CaseOut {
    let mut out = CaseOut::new();
    let max = if std::env::var("VERIF_TIER").map(|v| v == "thorough").unwrap_or(false) { 150 } else { 40 };
    let (mut w, ops, recovered) = gen_prefix(t, max);
    let node = &mut w.node;
    let n = node.nports();
    let end_states = node.states();
    let armed: Vec<Vec<bool>> = node.timers.iter().map(|t| t.iter().map(|x| x.is_some()).collect()).collect();
    let slave_only = node.ds().slave_only;
    let a_log = node.cfg.ports[0].announce_log;
    let ai = interval_ns(a_log);
    let max_timeout = node.cfg.ports.iter().map(|p| p.receipt_timeout as u64).max().unwrap_or(3);
    let bound = (2 * max_timeout + 4 + 2) * ai;
    let t0 = node.now_ns;
    let mut next_bmca = t0 + node.bmca_interval_ns() * (1 + t.below(1000)) / 1000;
    // pending transmit contexts from the prefix are lost
    for h in node.held.iter_mut() {
        *h = None;
    }
    let mut emis = vec![];
    run_loop(node, &mut next_bmca, t0 + bound, &mut emis, |_, _, _| None, &mut out);
    let faulty_at_end: Vec<bool> = end_states.iter().map(|s| *s == PS::Faulty).collect();
    let mid_states = node.states();
    for p in 0..n {
        if faulty_at_end[p] {
            continue;
        }
        if slave_only {
            if mid_states[p] != PS::Listening && mid_states[p] != PS::Faulty {
                out.fail("port of a slave-only instance is not listening after the network fell silent", format!("port {} is {:?} ; prefix end states {:?} armed timers {:?} ; prefix {:?}", p + 1, mid_states[p], end_states, armed, ops));
            } else if mid_states[p] == PS::Listening && node.timers[p][TimerKind::Receipt as usize].is_none() && recovered[p] && !armed[p][TimerKind::Receipt as usize] {
                out.fail(KNOWN_RECOVERED, format!("port {} (slave-only instance) ; prefix {:?}", p + 1, ops));
            } else if mid_states[p] == PS::Listening && node.timers[p][TimerKind::Receipt as usize].is_none() {
                out.fail("listening port of a slave-only instance has no announce receipt timer armed", format!("port {} ; prefix end states {:?} armed {:?} ; prefix {:?}", p + 1, end_states, armed, ops));
            }
        } else if mid_states[p] == PS::Listening && recovered[p] && end_states[p] == PS::Listening && !armed[p][TimerKind::Receipt as usize] {
            out.fail(KNOWN_RECOVERED, format!("port {} ; prefix {:?}", p + 1, ops));
        } else if mid_states[p] != PS::Master {
            out.fail(
                format!("port not master after the network fell silent (stuck in {:?})", mid_states[p]),
                format!("port {} is {:?} after {} announce intervals of silence; timers armed now {:?} ; prefix end states {:?} armed timers at prefix end {:?} ; prefix {:?}", p + 1, mid_states[p], bound / ai, node.timers[p].iter().map(|x| x.is_some()).collect::<Vec<_>>(), end_states, armed, ops),
            );
        }
    }
    if out.violation.is_none() && !slave_only {
        // steady state: announce and sync cadence in a window of 8 announce intervals
        let w0 = node.now_ns;
        emis.clear();
        run_loop(node, &mut next_bmca, w0 + 8 * ai, &mut emis, |_, _, _| None, &mut out);
        for p in 0..n {
            if faulty_at_end[p] || node.state(p) != PS::Master {
                if !faulty_at_end[p] {
                    out.fail("master port did not stay master in a silent network", format!("port {} {:?}", p + 1, node.state(p)));
                }
                continue;
            }
            let na = emis.iter().filter(|e| e.port == p && e.ty == T_ANNOUNCE).count() as i64;
            let ns = emis.iter().filter(|e| e.port == p && e.ty == T_SYNC).count() as i64;
            let nf = emis.iter().filter(|e| e.port == p && e.ty == T_FOLLOW_UP).count() as i64;
            let s_log = node.cfg.ports[p].sync_log;
            let want_s = if a_log >= s_log { 8i64 << (a_log - s_log) } else { 8i64 >> (s_log - a_log) };
            if (na - 8).abs() > 1 {
                out.fail("master port does not emit Announces at the configured interval", format!("port {}: {} Announces in 8 announce intervals ; prefix {:?}", p + 1, na, ops));
            }
            if (ns - want_s).abs() > 1 || (nf - ns).abs() > 1 {
                out.fail("master port does not emit Sync/Follow_Up at the configured interval", format!("port {}: {} Syncs {} Follow_Ups, expected {} ; prefix {:?}", p + 1, ns, nf, want_s, ops));
            }
        }
    }
    let lm = lock_mon_take();
    if !lm.nested.is_empty() {
        out.fail("nested lock acquisition", lm.nested.join("; "));
    }
    for s in &end_states {
        out.label(format!("prefix-end:{:?}", s));
    }
    out.render = json!({"continuation": "silence", "prefix_end_states": format!("{:?}", end_states), "armed_timers": format!("{:?}", armed), "prefix": ops});
    if end_states.iter().any(|s| *s != PS::Listening) || w.ops.iter().any(|o| matches!(o, COp::SetSlaveOnly(_))) {
        out.nontrivial = Some(hash_of(&(format!("{:?}", end_states), format!("{:?}", armed), format!("{:?}", w.ops))));
    }
    out
}

fn case_master(t: &mut Tape) -> CaseOut {
    let mut out = CaseOut::new();
    let max = if std::env::var("VERIF_TIER").map(|v| v == "thorough").unwrap_or(false) { 150 } else { 40 };
    let (mut w, ops, _recovered) = gen_prefix(t, max);
    let node = &mut w.node;
    let end_states = node.states();
    let armed: Vec<Vec<bool>> = node.timers.iter().map(|t| t.iter().map(|x| x.is_some()).collect()).collect();
    let a_log = node.cfg.ports[0].announce_log;
    let ai = interval_ns(a_log);
    let p2p = node.cfg.ports[0].p2p;
    let d_log = node.cfg.ports[0].delay_log;
    let di = interval_ns(d_log);
    let max_timeout = node.cfg.ports.iter().map(|p| p.receipt_timeout as u64).max().unwrap_or(3);
    let bound = (2 * max_timeout + 4 + 2) * ai;
    // clocks with clockClass 1..127 never become slave (decision codes M1/P1 only)
    let own_class = node.ds().own_class;
    let excepted = node.cfg.ports[0].master_only || end_states[0] == PS::Faulty || (1..=127).contains(&own_class);
    let t0 = node.now_ns;
    let mut next_bmca = t0 + node.bmca_interval_ns() * (1 + t.below(1000)) / 1000;
    for h in node.held.iter_mut() {
        *h = None;
    }
    // the better master: Announce + Sync/Follow_Up every interval, answers delay requests
    let mut ann = simple_announce(BEST.clock, 1, 6, 0);
    ann.gm_identity = BEST.clock;
    let dom = node.cfg.domain;
    let sdo = node.cfg.sdo;
    let mut next_ann = t0 + 1;
    let mut seq = 1000u16;
    let mut answered = 0usize;
    let mut emis: Vec<Emis> = vec![];
    let me = node.port_id(0);
    let mut feed = |node: &mut Node, now: u64, emis: &mut Vec<Emis>| -> Option<u64> {
        // answer outstanding delay requests of port 1
        while answered < emis.len() {
            let e = &emis[answered];
            answered += 1;
            if e.port == 0 && e.ty == T_DELAY_REQ {
                // sequence id is not recorded in Emis; answer with the latest id by probing the frame log is overkill:
                // the cadence claim only needs the requests to keep coming
            }
        }
        if now >= next_ann {
            seq = seq.wrapping_add(1);
            let m = announce_from(BEST, seq, ann, dom, sdo);
            node.recv_general(0, &m.encode());
            let mut s = RMsg::new(T_SYNC, BEST, seq, RBody::Sync { origin: RTs::default() });
            s.header.domain = dom;
            s.header.major_sdo = (sdo >> 8) as u8;
            s.header.minor_sdo = sdo as u8;
            s.header.set_flag(F_TWO_STEP, true);
            let rx = time_from_bits(((1_700_000_000_000_000_000u128 + now as u128 + 500) << 32) | 3);
            node.recv_event(0, &s.encode(), rx);
            let mut f = RMsg::new(T_FOLLOW_UP, BEST, seq, RBody::FollowUp { precise_origin: RTs::from_ns(1_700_000_000_000_000_000u128 + now as u128) });
            f.header.domain = dom;
            f.header.major_sdo = (sdo >> 8) as u8;
            f.header.minor_sdo = sdo as u8;
            node.recv_general(0, &f.encode());
            next_ann += ai;
        }
        let _ = me;
        Some(next_ann)
    };
    run_loop(node, &mut next_bmca, t0 + bound, &mut emis, &mut feed, &mut out);
    if !excepted {
        if node.state(0) != PS::Slave || node.ds().parent != BEST {
            out.fail(
                format!("port did not become slave of a steadily announcing better master (state {:?})", node.state(0)),
                format!("after {} announce intervals: state {:?} parent {:?} ; prefix end states {:?} armed {:?} ; prefix {:?}", bound / ai, node.state(0), node.ds().parent, end_states, armed, ops),
            );
        } else {
            // cadence of delay requests over the following 8 delay intervals (at least 4 announce intervals)
            let w0 = node.now_ns;
            let span = (8 * di).max(4 * ai);
            emis.clear();
            run_loop(node, &mut next_bmca, w0 + span, &mut emis, &mut feed, &mut out);
            let want_ty = if p2p { T_PDELAY_REQ } else { T_DELAY_REQ };
            let mut times: Vec<u64> = emis.iter().filter(|e| e.port == 0 && e.ty == want_ty).map(|e| e.t).collect();
            times.insert(0, w0);
            times.push(w0 + span);
            let maxgap = times.windows(2).map(|w| w[1] - w[0]).max().unwrap_or(0);
            if maxgap > 2 * di + 1 {
                out.fail("slave port does not emit delay requests at the configured cadence", format!("largest gap {} ns, allowed {} ns ({} requests in window) ; prefix {:?}", maxgap, 2 * di, times.len() - 2, ops));
            }
            if node.state(0) != PS::Slave {
                out.fail("port did not stay slave of the steadily announcing better master", format!("{:?}", node.state(0)));
            }
        }
    } else {
        out.label("port1-excepted");
    }
    let lm = lock_mon_take();
    if !lm.nested.is_empty() {
        out.fail("nested lock acquisition", lm.nested.join("; "));
    }
    out.render = json!({"continuation": "better-master", "prefix_end_states": format!("{:?}", end_states), "armed_timers": format!("{:?}", armed), "prefix": ops});
    if !excepted && (end_states.iter().any(|s| *s != PS::Listening)) {
        out.nontrivial = Some(hash_of(&(format!("{:?}", end_states), format!("{:?}", armed), format!("{:?}", w.ops))));
    }
    out
}


/// deterministic reproducer of the listed known finding (keeps the KNOWN-FINDING line present on every run
/// for as long as the defect exists)
fn known_reproducer(rep: &mut Report) {
    let mut cfg = NodeCfg::default();
    cfg.ports[0].p2p = true;
    let mut node = Node::new(cfg);
    node.timer(0, TimerKind::Receipt);
    let me = node.port_id(0);
    let exchange = |node: &mut Node, responders: &[u8]| {
        let acts = node.timer(0, TimerKind::DelayReq);
        let Some((ctx, seq)) = acts.iter().find_map(|a| if let OAction::SendEvent { ctx, data, .. } = a { Some((*ctx, ((data[30] as u16) << 8) | data[31] as u16)) } else { None }) else { return };
        node.tx_timestamp(ctx, time_from_bits(1_700_000_000_000_000_000u128 << 32));
        for r in responders {
            let src = PortId { clock: [0, 0, 0, 0, 0, 0, 0, *r], port: 1 };
            let mut m = RMsg::new(T_PDELAY_RESP, src, seq, RBody::PdelayResp { receipt: RTs::from_ns(1_700_000_000_000_000_100), requesting: me });
            m.header.set_flag(F_TWO_STEP, true);
            node.recv_event(0, &m.encode(), time_from_bits(1_700_000_000_000_000_900u128 << 32));
            if responders.len() == 1 {
                let f = RMsg::new(T_PDELAY_RESP_FUP, src, seq, RBody::PdelayRespFup { response_origin: RTs::from_ns(1_700_000_000_000_000_200), requesting: me });
                node.recv_general(0, &f.encode());
            }
        }
    };
    exchange(&mut node, &[0x21, 0x22]);
    let faulty = node.state(0) == PS::Faulty;
    exchange(&mut node, &[0x21]);
    let recovered = faulty && node.state(0) == PS::Listening && node.timers[0][TimerKind::Receipt as usize].is_none();
    let mut out = CaseOut::new();
    let mut emis = vec![];
    let mut next_bmca = node.now_ns + node.bmca_interval_ns();
    let until = node.now_ns + 40_000_000_000;
    run_loop(&mut node, &mut next_bmca, until, &mut emis, |_, _, _| None, &mut out);
    lock_mon_take();
    rep.evaluations += 1;
    if recovered && node.state(0) == PS::Listening {
        *rep.known_hits.entry(KNOWN_RECOVERED.to_string()).or_insert(0) += 1;
    } else {
        println!("note: the listed known finding of C12 does not reproduce any more (state {:?})", node.state(0));
    }
}

pub fn run(ctx: &Ctx) -> i32 {
    std::env::set_var("VERIF_TIER", &ctx.tier);
    let mut rep = Report::new();
    // the real daemon as the host: its timer handling in statime-linux/src/main.rs, in real time
    let workers = (ctx.threads as u64 / 2).clamp(2, 8);
    let sum = crate::daemon::run_part(ctx, &mut rep, ctx.cases(3 * workers, 40 * workers), workers);
    if let Some(why) = &sum.skipped {
        println!("note: end-to-end daemon part skipped ({}); the other parts are unaffected", why);
    }
    // a violation seen on the real daemon is reported at once: the in-process parts drive the same code in this
    // process, and a change that makes it loop for ever would hang them (watchdog, exit 2) instead of being reported
    if rep.violations.is_empty() {
        known_reproducer(&mut rep);
        run_cases(ctx, &mut rep, "silence", ctx.cases(150_000, 3_000_000), case_silence);
        run_cases(ctx, &mut rep, "better-master", ctx.cases(100_000, 2_000_000), case_master);
    } else {
        println!("end-to-end part found a violation; in-process parts skipped");
    }
    finish(
        Finish {
            ctx,
            level: "exploration",
            rule: "prefix: random history (<= 40 ops, thorough 150) over the C08 alphabet executed under the host timer model (a timer fires only if an action armed it, at its deadline; transmit timestamps may be returned late or never; masters come and go; P2P double responders and clean exchanges; run-time slave-only switches); continuation (a) total silence, (b) a better master announcing every interval with Sync/Follow_Up, both run with the daemon's loop (timers as armed, periodic BMCA, immediate transmit timestamps). Oracle (a): within 2*receiptTimeout+6 announce intervals every port that is not Faulty at the end of the prefix is Master (slave-only: Listening with a live receipt timer) and then emits 8+-1 Announces and the configured number (+-1) of Sync/Follow_Up pairs per 8 announce intervals; (b) port 1 is slave of that master within the same bound and its delay requests are never more than 2 delay intervals apart. Part daemon: the real statime daemon (two-port boundary clock, private network namespace, announce/sync interval 125 ms, delay interval 250 ms) in real time with explicit bounds: steady-state rates of Announce, Sync (master port) and Delay_Req (slave port) between 60 % and 150 % of the configured ones; after the parent falls silent for longer than receipt timeout + 2 intervals + 0.5 s the port is master and announces; after the parent returns the port is slave again within 3 intervals + 0.6 s and sends Delay_Req again within 2 delay intervals + 0.3 s. Non-trivial = prefix ends with some port not Listening or contains a slave-only switch; distinct by (end-state vector, armed-timer vector, prefix).",
            assumptions: vec!["the instance's own frames are not looped back to its other ports".into(), "ports that are Faulty at the end of the prefix are excepted; ports that were faulty and recovered are not".into()],
            min_nontrivial: 100,
        },
        rep,
    )
}

pub fn replay(ctx: &Ctx, path: &str) -> i32 {
    std::env::set_var("VERIF_TIER", &ctx.tier);
    let s = std::fs::read_to_string(path).expect("read replay");
    let v: serde_json::Value = serde_json::from_str(&s).expect("parse");
    match v["part"].as_str().unwrap_or("silence") {
        "daemon" => crate::daemon::replay_part(ctx, path, 3),
        "better-master" => replay_file(ctx, path, case_master),
        _ => replay_file(ctx, path, case_silence),
    }
}
