//! C19 — observability data reaches the metrics endpoint unaltered.
//! Stage 1: observable state (assembled as the daemon does) vs the live
//! instance seen through its emitted Announces and behaviour; stage 2: JSON hop
//! round trip; stage 3: the exporter binary, black box.

use crate::engine::*;
use crate::exporter::*;
use crate::host::*;
use crate::refcodec::*;
use serde_json::json;
use statime_linux::metrics::exporter::{ObservableState, ProgramData};
use statime_linux::observer::ObservableInstanceState;
use std::time::Duration;

const OWN: [u8; 8] = [0x00, 0x1b, 0x21, 0xff, 0xfe, 0x3c, 0x4d, 0x10];
const PARENT: PortId = PortId { clock: [0x00, 0x1b, 0x21, 0xff, 0xfe, 0x00, 0x00, 0x02], port: 1 };

fn id_str(c: &[u8; 8]) -> String {
    c.iter().map(|b| format!("{:02x}", b)).collect::<Vec<_>>().join(":")
}

pub fn observable_full(node: &Node) -> ObservableInstanceState {
    let inst = node.inst();
    ObservableInstanceState {
        default_ds: inst.default_ds(),
        current_ds: inst.current_ds(node.current_contribution()),
        parent_ds: inst.parent_ds(),
        time_properties_ds: inst.time_properties_ds(),
        path_trace_ds: inst.path_trace_ds(),
        port_ds: (0..node.nports()).map(|p| node.port_ds(p)).collect(),
    }
}

struct Scn {
    node: Node,
    rendered: Vec<String>,
    /// what the filter of the slave port last reported (model)
    last_offset_bits: Option<i128>,
    last_delay_bits: Option<i128>,
    cfg_quality: (u8, u8, u16),
}

/// reach a generated instance state by simulation
fn gen_state(t: &mut Tape) -> Scn {
    let mut cfg = NodeCfg::default();
    cfg.identity = OWN;
    let nports = 1 + t.below(3) as usize;
    cfg.ports = vec![PortCfg::default(); nports];
    cfg.path_trace = t.chance(1, 2);
    cfg.priority1 = t.below(256) as u8;
    cfg.priority2 = t.below(256) as u8;
    cfg.domain = t.below(256) as u8;
    cfg.sdo = if t.bool() { t.below(0x1000) as u16 } else { 0 };
    cfg.slave_only = t.chance(1, 8);
    for pc in cfg.ports.iter_mut() {
        pc.p2p = t.chance(1, 3);
        pc.announce_log = t.range(-3, 4) as i8;
        pc.sync_log = t.range(-7, 4) as i8;
        pc.delay_log = t.range(-7, 5) as i8;
        pc.receipt_timeout = t.urange(2, 255) as u8;
        pc.master_only = !cfg.slave_only && t.chance(1, 6);
        pc.minor_version = t.below(2) as u8;
        pc.asymmetry_bits = if t.bool() { 0 } else { t.log_i128(60) };
    }
    cfg.ports[0].master_only = false;
    // announce interval must be the same within the instance for the BMCA interval; fine either way
    let mut node = Node::new(cfg);
    let mut rendered = vec![];
    let mut q = (248u8, 0xfeu8, 0x8000u16 - 23 * 256);
    let mut last_offset_bits = None;
    let mut last_delay_bits = None;
    if t.chance(1, 3) {
        q = (t.below(256) as u8, *t.pick(&[0x20u8, 0x31, 0xfe, 0x17, 0x85]), t.below(65536) as u16);
        node.set_clock_quality(q.0, q.1, q.2);
        rendered.push(format!("set_clock_quality {:?}", q));
    }
    let role = t.weighted(&[2, 5, 1]);
    if role >= 1 {
        // slave of a parent with generated contents, optional path trace
        let mut ann = simple_announce(PARENT.clock, 1, 6, 0);
        ann.gm_identity = [0x00, 0x80, 0xea, 0xff, 0xfe, t.below(256) as u8, t.below(256) as u8, t.below(256) as u8];
        ann.gm_priority1 = t.below(100) as u8;
        ann.gm_priority2 = t.below(256) as u8;
        ann.gm_class = *t.pick(&[6u8, 7, 13, 14, 52]);
        ann.gm_accuracy = *t.pick(&[0x20u8, 0x21, 0x22, 0x31, 0xfe, 0x90]);
        ann.gm_variance = t.below(65536) as u16;
        ann.steps_removed = *t.pick(&[0u16, 1, 7, 253, 254]);
        ann.utc_offset = *t.pick(&[37i16, 0, -1, i16::MAX, i16::MIN]);
        ann.time_source = *t.pick(&[0x10u8, 0x20, 0x30, 0x39, 0x40, 0x50, 0x60, 0x90, 0xa0, 0xf5, 0xff, 0x77]);
        let flags1 = t.below(64) as u8;
        let dom = node.cfg.domain;
        let sdo = node.cfg.sdo;
        let path_len = if node.cfg.path_trace { *t.pick(&[0usize, 1, 2, 5, 17, 60, 100, 118, 127, 128]) } else { 0 };
        let path_len = if role == 2 { 100 + t.below(29) as usize } else { path_len };
        for k in 0..3u16 {
            let mut m = announce_from(PARENT, 10 + k, ann, dom, sdo);
            m.header.flags[1] = flags1;
            if node.cfg.path_trace && path_len > 0 {
                let mut v = vec![];
                for i in 0..path_len {
                    v.extend([0x02, 0x42, 0xac, 0xff, 0xfe, (i >> 8) as u8, i as u8, 0x01]);
                }
                m.tlvs.push(RTlv { typ: 0x0008, value: v });
            }
            node.recv_general(0, &m.encode());
            if k == 1 {
                node.bmca();
            }
        }
        rendered.push(format!("slave of parent (steps {}, flags {:02x}, path {})", ann.steps_removed, flags1, path_len));
        if node.state(0) == PS::Slave {
            // a sync and a delay exchange so that the filter has estimates; values up to +-10 s
            let off = match t.weighted(&[1, 2, 2]) {
                0 => 0i128,
                1 => t.log_i128(40),
                _ => t.range(-10_000_000_000, 10_000_000_000) as i128 * (1i128 << 32) + t.below(1 << 32) as i128,
            };
            let delay = t.range(0, 400_000) as i128 * (1i128 << 32) + t.below(1 << 32) as i128;
            node.rec_reply.set(MeanDelayReply::Fixed(delay));
            let base: i128 = (1_700_000_000i128 * 1_000_000_000) << 32;
            let t1 = base;
            let t2 = base + off + delay;
            if t2 > 0 {
                let mut s = RMsg::new(T_SYNC, PARENT, 77, RBody::Sync { origin: RTs::from_ns((t1 >> 32) as u128) });
                in_domain(&node, &mut s);
                node.recv_event(0, &s.encode(), time_from_bits(t2 as u128));
                // second sync so that offset = raw - mean_delay is reported
                let mut s = RMsg::new(T_SYNC, PARENT, 78, RBody::Sync { origin: RTs::from_ns((t1 >> 32) as u128) });
                in_domain(&node, &mut s);
                node.recv_event(0, &s.encode(), time_from_bits(t2 as u128));
                let ms = node.measurements();
                if let Some((_, m)) = ms.last() {
                    last_offset_bits = m.offset.map(dbits);
                }
                last_delay_bits = Some(delay);
                rendered.push(format!("sync exchanges: offset bits {:?} mean delay bits {}", last_offset_bits, delay));
            }
        }
    }
    // other ports
    for p in 1..nports {
        match t.weighted(&[3, 2, 1]) {
            0 => {
                node.timer(p, TimerKind::Receipt);
                rendered.push(format!("p{} receipt timeout", p + 1));
            }
            1 => {}
            _ => {
                if node.cfg.ports[p].p2p {
                    // two responders: faulty
                    let acts = node.timer(p, TimerKind::DelayReq);
                    if let Some(seq) = acts.iter().find_map(|a| if let OAction::SendEvent { data, .. } = a { Some(((data[30] as u16) << 8) | data[31] as u16) } else { None }) {
                        for r in [0x21u8, 0x22] {
                            let src = PortId { clock: [0, 0, 0, 0, 0, 0, 0, r], port: 1 };
                            let mut m = RMsg::new(T_PDELAY_RESP, src, seq, RBody::PdelayResp { receipt: RTs::from_ns(1_700_000_000_000_000_000), requesting: node.port_id(p) });
                            in_domain(&node, &mut m);
                            m.header.set_flag(F_TWO_STEP, true);
                            node.recv_event(p, &m.encode(), time_from_bits(1_700_000_000_000_000_500u128 << 32));
                        }
                        rendered.push(format!("p{} pdelay double response", p + 1));
                    }
                }
            }
        }
    }
    // a p2p port with a measured link delay
    for p in 0..nports {
        if node.cfg.ports[p].p2p && node.state(p) != PS::Faulty && t.chance(1, 2) {
            let acts = node.timer(p, TimerKind::DelayReq);
            if let Some((ctx, seq)) = acts.iter().find_map(|a| if let OAction::SendEvent { ctx, data, .. } = a { Some((*ctx, ((data[30] as u16) << 8) | data[31] as u16)) } else { None }) {
                let d = t.range(0, 5_000_000) as u128;
                let base = 1_700_000_000_000_000_000u128;
                node.tx_timestamp(ctx, time_from_bits(base << 32));
                let src = PortId { clock: [0, 0, 0, 0, 0, 0, 0, 0x21], port: 1 };
                let mut m = RMsg::new(T_PDELAY_RESP, src, seq, RBody::PdelayResp { receipt: RTs::from_ns(base + d), requesting: node.port_id(p) });
                in_domain(&node, &mut m);
                node.rec_reply.set(MeanDelayReply::Echo);
                node.recv_event(p, &m.encode(), time_from_bits(((base + 2 * d) << 32) | t.below(1 << 32) as u128));
                rendered.push(format!("p{} one-step peer delay exchange ({} ns)", p + 1, d));
                if p == 0 && node.state(0) == PS::Slave {
                    // the shared recording filter state changed: re-read the model from the log
                    last_delay_bits = None;
                }
            }
        }
    }
    if t.chance(1, 3) {
        node.bmca();
        rendered.push("bmca".into());
    }
    Scn { node, rendered, last_offset_bits, last_delay_bits, cfg_quality: q }
}

fn stage1(sc: &mut Scn, obs: &ObservableInstanceState, out: &mut CaseOut) {
    let node = &mut sc.node;
    let cfg = node.cfg.clone();
    // default data set = configuration + run-time quality
    let d = &obs.default_ds;
    let ok = d.clock_identity.0 == cfg.identity
        && d.number_ports as usize == cfg.ports.len()
        && d.priority_1 == cfg.priority1
        && d.priority_2 == cfg.priority2
        && d.domain_number == cfg.domain
        && d.slave_only == cfg.slave_only
        && u16::from(d.sdo_id) == cfg.sdo
        && (d.clock_quality.clock_class, d.clock_quality.clock_accuracy.to_primitive(), d.clock_quality.offset_scaled_log_variance) == sc.cfg_quality;
    if !ok {
        out.fail("observable defaultDS differs from the instance configuration", format!("{:?} vs cfg {:?} quality {:?}", d, cfg.identity, sc.cfg_quality));
    }
    // port data sets: configuration and behaviourally observed state
    for (p, pd) in obs.port_ds.iter().enumerate() {
        let pc = &cfg.ports[p];
        let ok = pd.port_identity.port_number as usize == p + 1
            && pd.port_identity.clock_identity.0 == cfg.identity
            && pd.log_announce_interval == pc.announce_log
            && pd.log_sync_interval == pc.sync_log
            && pd.announce_receipt_timeout == pc.receipt_timeout
            && pd.master_only == pc.master_only
            && pd.version_number == 2
            && pd.minor_version_number == pc.minor_version;
        if !ok {
            out.fail("observable portDS differs from the port configuration", format!("port {}: {:?}", p + 1, pd));
        }
        use statime::observability::port::{DelayMechanism as DM, PortState as O};
        match pd.delay_mechanism {
            DM::E2E { log_min_delay_req_interval } if !pc.p2p && log_min_delay_req_interval == pc.delay_log => {}
            DM::P2P { log_min_p_delay_req_interval, .. } if pc.p2p && log_min_p_delay_req_interval == pc.delay_log => {}
            _ => out.fail("observable portDS delay mechanism differs from the port configuration", format!("port {}: {:?}", p + 1, pd.delay_mechanism)),
        }
        let asym = serde_json::to_value(pd.delay_asymmetry).ok().and_then(|v| v.as_i64()).unwrap_or(i64::MIN);
        if asym as i128 != pc.asymmetry_bits >> 16 {
            out.fail("observable delay asymmetry differs from the configured one", format!("port {}: {} vs {}", p + 1, asym, pc.asymmetry_bits >> 16));
        }
        // behaviour: only a master port answers its announce timer; is_steering marks the slave
        let acts = node.timer(p, TimerKind::Announce);
        let emits = acts.iter().any(|a| matches!(a, OAction::SendGeneral { .. }));
        let behav_master = emits;
        let says_master = pd.port_state == O::Master;
        if behav_master != says_master || (pd.port_state == O::Slave) != node.is_steering(p) {
            out.fail("observable port state differs from the port's behaviour", format!("port {}: reported {:?}, emits Announce: {}, steering: {}", p + 1, pd.port_state, emits, node.is_steering(p)));
        }
        // the Announce of a master port is an independent view of parentDS/currentDS/timePropertiesDS/pathTraceDS
        for a in &acts {
            let OAction::SendGeneral { data, .. } = a else { continue };
            let Ok(m) = decode(data) else { continue };
            let Some(an) = m.announce() else { continue };
            let f1 = m.header.flags[1];
            let pds = &obs.parent_ds;
            let tp = &obs.time_properties_ds;
            use statime::config::LeapIndicator as L;
            let ok = an.gm_identity == pds.grandmaster_identity.0
                && an.gm_priority1 == pds.grandmaster_priority_1
                && an.gm_priority2 == pds.grandmaster_priority_2
                && an.gm_class == pds.grandmaster_clock_quality.clock_class
                && an.gm_accuracy == pds.grandmaster_clock_quality.clock_accuracy.to_primitive()
                && an.gm_variance == pds.grandmaster_clock_quality.offset_scaled_log_variance
                && an.steps_removed == obs.current_ds.steps_removed
                && an.time_source == tp.time_source.to_primitive()
                && (f1 & 2 != 0) == (tp.leap_indicator == L::Leap59)
                && (f1 & 1 != 0) == (tp.leap_indicator == L::Leap61)
                && (f1 & 4 != 0) == tp.current_utc_offset.is_some()
                && tp.current_utc_offset.map(|u| u == an.utc_offset).unwrap_or(true)
                && (f1 & 8 != 0) == tp.ptp_timescale
                && (f1 & 16 != 0) == tp.time_traceable
                && (f1 & 32 != 0) == tp.frequency_traceable;
            if !ok {
                out.fail("observable data sets differ from what the instance announces", format!("announce {:?} flags {:02x} vs parent {:?} current {:?} tp {:?}", an, f1, pds, obs.current_ds, tp));
            }
            if obs.path_trace_ds.enable {
                if let Some(pt) = m.tlvs.iter().find(|x| x.typ == 0x0008) {
                    let mut want: Vec<u8> = obs.path_trace_ds.list.iter().flat_map(|c| c.0).collect();
                    want.extend(cfg.identity);
                    if pt.value != want {
                        out.fail("observable pathTraceDS differs from the announced path", format!("{} vs {} bytes", pt.value.len(), want.len()));
                    }
                }
            }
        }
    }
    // current data set: the slave port's filter estimates
    match (node.states().iter().position(|s| *s == PS::Slave), sc.last_offset_bits, sc.last_delay_bits) {
        (Some(_), Some(o), Some(dl)) => {
            if dbits(obs.current_ds.offset_from_master) != o || dbits(obs.current_ds.mean_delay) != dl {
                out.fail("observable currentDS offset/delay differ from the slave port's filter estimates", format!("{} / {} vs {} / {}", dbits(obs.current_ds.offset_from_master), dbits(obs.current_ds.mean_delay), o, dl));
            }
        }
        (None, _, _) => {
            if dbits(obs.current_ds.offset_from_master) != 0 || dbits(obs.current_ds.mean_delay) != 0 {
                out.fail("observable currentDS reports an offset although no port is slave", format!("{:?}", obs.current_ds));
            }
        }
        _ => {}
    }
}

fn stage2(st: &ObservableState, out: &mut CaseOut) -> Vec<u8> {
    let bytes = serde_json::to_vec(st).unwrap();
    match serde_json::from_slice::<ObservableState>(&bytes) {
        Err(e) => out.fail("observable state does not survive the JSON hop (deserialisation fails)", format!("{} ; json {}", e, String::from_utf8_lossy(&bytes))),
        Ok(back) => {
            let again = serde_json::to_vec(&back).unwrap();
            if again != bytes {
                out.fail("observable state changes across the JSON hop", format!("{} vs {}", String::from_utf8_lossy(&bytes), String::from_utf8_lossy(&again)));
            }
            if format!("{:?}", back) != format!("{:?}", st) {
                out.fail("observable state changes across the JSON hop (fields differ)", format!("{:?} vs {:?}", st, back));
            }
        }
    }
    bytes
}

pub fn case_inproc(t: &mut Tape) -> CaseOut {
    let mut out = CaseOut::new();
    let mut sc = gen_state(t);
    let obs = observable_full(&sc.node);
    let st = ObservableState { program: ProgramData::with_uptime(t.below(10_000_000) as f64 / 8.0), instance: obs.clone() };
    let _bytes = stage2(&st, &mut out);
    stage1(&mut sc, &obs, &mut out);
    lock_mon_take();
    for s in sc.node.states() {
        out.label(format!("state:{:?}", s));
    }
    if obs.path_trace_ds.list.len() >= 100 {
        out.label("path>=100");
    }
    if dbits(obs.current_ds.offset_from_master).unsigned_abs() >= (1u128 << 64) {
        out.label("offset-bits>64");
    }
    out.render = json!({"ops": sc.rendered, "state": serde_json::to_value(&obs.port_ds).unwrap_or_default()});
    if sc.node.states().iter().any(|s| *s != PS::Listening) {
        out.nontrivial = Some(hash_str(&String::from_utf8_lossy(&serde_json::to_vec(&obs).unwrap())));
    }
    out
}

/// stage 2 with directly generated JSON over the full field ranges
pub fn gen_json_state(t: &mut Tape) -> String {
    let id = |t: &mut Tape| format!("[{}]", (0..8).map(|_| t.below(256).to_string()).collect::<Vec<_>>().join(","));
    let acc = |t: &mut Tape| match t.below(4) {
        0 => "\"Unknown\"".to_string(),
        1 => "\"NS100\"".to_string(),
        2 => "\"Reserved\"".to_string(),
        _ => format!("{{\"ProfileSpecific\":{}}}", t.below(256)),
    };
    let quality = |t: &mut Tape| format!("{{\"clock_class\":{},\"clock_accuracy\":{},\"offset_scaled_log_variance\":{}}}", t.below(256), acc(t), t.below(65536));
    let dur = |t: &mut Tape| match t.below(4) {
        0 => "0".to_string(),
        1 => t.log_i128(127).to_string(),
        2 => i128::MAX.to_string(),
        _ => i128::MIN.to_string(),
    };
    let ts = |t: &mut Tape| match t.below(5) {
        0 => "\"Gnss\"".to_string(),
        1 => "\"InternalOscillator\"".to_string(),
        2 => format!("{{\"ProfileSpecific\":{}}}", t.below(256)),
        3 => format!("{{\"Unknown\":{}}}", t.below(256)),
        _ => "\"Reserved\"".to_string(),
    };
    let nports = t.below(4);
    let mut ports = vec![];
    for p in 0..nports {
        let state = *t.pick(&["Initializing", "Faulty", "Disabled", "Listening", "PreMaster", "Master", "Passive", "Uncalibrated", "Slave"]);
        let dm = match t.below(5) {
            0 => format!("{{\"E2E\":{{\"log_min_delay_req_interval\":{}}}}}", t.range(-128, 127)),
            1 => format!("{{\"P2P\":{{\"log_min_p_delay_req_interval\":{},\"mean_link_delay\":{}}}}}", t.range(-128, 127), t.log_i128(63) as i64),
            2 => "\"NoMechanism\"".to_string(),
            3 => format!("{{\"CommonP2P\":{{\"mean_link_delay\":{}}}}}", t.log_i128(63) as i64),
            _ => "\"Special\"".to_string(),
        };
        ports.push(format!(
            "{{\"port_identity\":{{\"clock_identity\":{},\"port_number\":{}}},\"port_state\":\"{}\",\"log_announce_interval\":{},\"announce_receipt_timeout\":{},\"log_sync_interval\":{},\"delay_mechanism\":{},\"version_number\":{},\"minor_version_number\":{},\"delay_asymmetry\":{},\"master_only\":{}}}",
            id(t), p + 1, state, t.range(-128, 127), t.below(256), t.range(-128, 127), dm, t.below(256), t.below(256), t.log_i128(63) as i64, t.bool()
        ));
    }
    let npath = *t.pick(&[0u64, 1, 3, 128]);
    let path: Vec<String> = (0..npath).map(|_| id(t)).collect();
    format!(
        "{{\"program\":{{\"version\":\"0.4.0\",\"build_commit\":\"abc\\\"def\",\"build_commit_date\":\"2026-01-01\",\"uptime_seconds\":{}}},\"instance\":{{\"default_ds\":{{\"clock_identity\":{},\"number_ports\":{},\"clock_quality\":{},\"priority_1\":{},\"priority_2\":{},\"domain_number\":{},\"slave_only\":{},\"sdo_id\":{}}},\"current_ds\":{{\"steps_removed\":{},\"offset_from_master\":{},\"mean_delay\":{}}},\"parent_ds\":{{\"parent_port_identity\":{{\"clock_identity\":{},\"port_number\":{}}},\"grandmaster_identity\":{},\"grandmaster_clock_quality\":{},\"grandmaster_priority_1\":{},\"grandmaster_priority_2\":{}}},\"time_properties_ds\":{{\"current_utc_offset\":{},\"leap_indicator\":\"{}\",\"time_traceable\":{},\"frequency_traceable\":{},\"ptp_timescale\":{},\"time_source\":{}}},\"path_trace_ds\":{{\"list\":[{}],\"enable\":{}}},\"port_ds\":[{}]}}}}",
        format!("{:?}", t.below(1_000_000) as f64 / 8.0),
        id(t), nports, quality(t), t.below(256), t.below(256), t.below(256), t.bool(), t.below(0x1000),
        t.below(65536), dur(t), dur(t),
        id(t), t.below(65536), id(t), quality(t), t.below(256), t.below(256),
        if t.bool() { "null".to_string() } else { (t.below(65536) as u16 as i16).to_string() }, *t.pick(&["NoLeap", "Leap61", "Leap59"]), t.bool(), t.bool(), t.bool(), ts(t),
        path.join(","), t.bool(), ports.join(",")
    )
}

fn case_json(t: &mut Tape) -> CaseOut {
    let mut out = CaseOut::new();
    let js = gen_json_state(t);
    match serde_json::from_str::<ObservableState>(&js) {
        Err(e) => out.fail("generated observable state JSON rejected", format!("{} ; {}", e, js)),
        Ok(st) => {
            let back = serde_json::to_string(&st).unwrap();
            if back != js {
                out.fail("observable state changes across the JSON hop", format!("in  {}\nout {}", js, back));
            }
            out.nontrivial = Some(hash_str(&js));
        }
    }
    out.render = json!({"json": js.chars().take(600).collect::<String>()});
    out
}

// ---------------------------------------------------------------------------
// stage 3: the exporter

#[derive(Debug, Clone)]
struct Sample {
    name: String,
    labels: Vec<(String, String)>,
    value: String,
}

#[derive(Debug, Clone, Default)]
struct Family {
    name: String,
    help: String,
    typ: String,
    unit: Option<String>,
    samples: Vec<Sample>,
}

fn parse_labels(s: &str) -> Result<Vec<(String, String)>, String> {
    let mut out = vec![];
    let b: Vec<char> = s.chars().collect();
    let mut i = 0;
    while i < b.len() {
        let mut name = String::new();
        while i < b.len() && b[i] != '=' {
            name.push(b[i]);
            i += 1;
        }
        if i >= b.len() || name.is_empty() || !name.chars().all(|c| c.is_ascii_alphanumeric() || c == '_') {
            return Err(format!("bad label name in {{{}}}", s));
        }
        i += 1;
        if i >= b.len() || b[i] != '"' {
            return Err(format!("label value not quoted in {{{}}}", s));
        }
        i += 1;
        let mut val = String::new();
        loop {
            if i >= b.len() {
                return Err(format!("unterminated label value in {{{}}}", s));
            }
            match b[i] {
                '\\' => {
                    i += 1;
                    match b.get(i) {
                        Some('n') => val.push('\n'),
                        Some('"') => val.push('"'),
                        Some('\\') => val.push('\\'),
                        _ => return Err(format!("bad escape in {{{}}}", s)),
                    }
                }
                '"' => break,
                '\n' => return Err("raw newline in label".into()),
                c => val.push(c),
            }
            i += 1;
        }
        i += 1;
        out.push((name, val));
        if i < b.len() {
            if b[i] != ',' {
                return Err(format!("missing comma in {{{}}}", s));
            }
            i += 1;
        }
    }
    Ok(out)
}

fn parse_exposition(body: &str) -> Result<Vec<Family>, String> {
    let mut fams: Vec<Family> = vec![];
    let lines: Vec<&str> = body.split('\n').collect();
    if lines.last() != Some(&"") {
        return Err("body does not end with a newline".into());
    }
    let lines = &lines[..lines.len() - 1];
    if lines.last() != Some(&"# EOF") {
        return Err("last line is not '# EOF'".into());
    }
    for l in &lines[..lines.len() - 1] {
        if let Some(rest) = l.strip_prefix("# ") {
            let mut it = rest.splitn(3, ' ');
            let kind = it.next().unwrap_or("");
            let name = it.next().unwrap_or("").to_string();
            let text = it.next().unwrap_or("").to_string();
            match kind {
                "HELP" => {
                    if fams.iter().any(|f| f.name == name) {
                        return Err(format!("family {} declared twice", name));
                    }
                    fams.push(Family { name, help: text, ..Default::default() });
                }
                "TYPE" | "UNIT" => {
                    let Some(f) = fams.last_mut() else { return Err("metadata before HELP".into()) };
                    if f.name != name || !f.samples.is_empty() {
                        return Err(format!("{} line for {} out of place", kind, name));
                    }
                    if kind == "TYPE" {
                        f.typ = text
                    } else {
                        f.unit = Some(text)
                    }
                }
                _ => return Err(format!("unknown comment line: {}", l)),
            }
        } else {
            let (name_labels, value) = l.rsplit_once(' ').ok_or_else(|| format!("malformed sample line: {}", l))?;
            let (name, labels) = match name_labels.split_once('{') {
                Some((n, rest)) => {
                    let inner = rest.strip_suffix('}').ok_or_else(|| format!("unterminated label set: {}", l))?;
                    (n.to_string(), parse_labels(inner)?)
                }
                None => (name_labels.to_string(), vec![]),
            };
            if value.parse::<f64>().is_err() {
                return Err(format!("sample value is not a number: {}", l));
            }
            let Some(f) = fams.last_mut() else { return Err("sample before any metadata".into()) };
            if f.name != name {
                return Err(format!("sample {} not contiguous with its family metadata", name));
            }
            f.samples.push(Sample { name, labels, value: value.to_string() });
        }
    }
    for f in &fams {
        if f.typ.is_empty() {
            return Err(format!("family {} without TYPE", f.name));
        }
        if let Some(u) = &f.unit {
            if !f.name.ends_with(&format!("_{}", u)) {
                return Err(format!("family {} does not carry its unit {} as suffix", f.name, u));
            }
        }
    }
    Ok(fams)
}

fn approx(a: f64, b: f64) -> bool {
    (a - b).abs() <= 1e-9 * a.abs().max(b.abs()) + 1e-12
}

/// expected samples: (family, distinguishing labels, value)
fn expected(st: &ObservableState) -> Vec<(String, Vec<(String, String)>, f64)> {
    let i = &st.instance;
    let mut v: Vec<(String, Vec<(String, String)>, f64)> = vec![];
    let ci = ("clock_identity".to_string(), id_str(&i.default_ds.clock_identity.0));
    let b = |x: bool| if x { 1.0 } else { 0.0 };
    let mut add = |n: &str, extra: Vec<(String, String)>, val: f64| {
        let mut l = vec![ci.clone()];
        l.extend(extra);
        v.push((format!("statime_{}", n), l, val));
    };
    add("number_ports", vec![], i.default_ds.number_ports as f64);
    add("quality_class", vec![], i.default_ds.clock_quality.clock_class as f64);
    add("quality_accuracy", vec![], i.default_ds.clock_quality.clock_accuracy.to_primitive() as f64);
    add("quality_offset_scaled_log_variance", vec![], i.default_ds.clock_quality.offset_scaled_log_variance as f64);
    add("priority_1", vec![], i.default_ds.priority_1 as f64);
    add("priority_2", vec![], i.default_ds.priority_2 as f64);
    add("steps_removed", vec![], i.current_ds.steps_removed as f64);
    // unit says nanoseconds
    add("offset_from_master_nanoseconds", vec![], dbits(i.current_ds.offset_from_master) as f64 / 4294967296.0);
    add("mean_delay_nanoseconds", vec![], dbits(i.current_ds.mean_delay) as f64 / 4294967296.0);
    let pl = vec![("parent_clock_identity".to_string(), id_str(&i.parent_ds.parent_port_identity.clock_identity.0)), ("parent_port_number".to_string(), i.parent_ds.parent_port_identity.port_number.to_string())];
    add("grandmaster_clock_quality_class", pl.clone(), i.parent_ds.grandmaster_clock_quality.clock_class as f64);
    add("grandmaster_clock_quality_accuracy", pl.clone(), i.parent_ds.grandmaster_clock_quality.clock_accuracy.to_primitive() as f64);
    add("grandmaster_clock_quality_offset_scaled_log_variance", pl.clone(), i.parent_ds.grandmaster_clock_quality.offset_scaled_log_variance as f64);
    add("grandmaster_priority_1", pl.clone(), i.parent_ds.grandmaster_priority_1 as f64);
    add("grandmaster_priority_2", pl.clone(), i.parent_ds.grandmaster_priority_2 as f64);
    let tp = &i.time_properties_ds;
    if let Some(u) = tp.current_utc_offset {
        add("current_utc_offset_seconds", vec![], u as f64);
    }
    use statime::config::LeapIndicator as L;
    add("upcoming_leap_seconds", vec![], match tp.leap_indicator { L::NoLeap => 60.0, L::Leap61 => 61.0, L::Leap59 => 59.0 });
    add("time_traceable", vec![], b(tp.time_traceable));
    add("frequency_traceable", vec![], b(tp.frequency_traceable));
    add("ptp_timescale", vec![], b(tp.ptp_timescale));
    add("time_source", vec![], tp.time_source.to_primitive() as f64);
    add("path_trace_enable", vec![], b(i.path_trace_ds.enable));
    for (k, c) in i.path_trace_ds.list.iter().enumerate() {
        add("path_trace_list", vec![("node".to_string(), id_str(&c.0))], k as f64);
    }
    add("path_trace_list", vec![("node".to_string(), "self".to_string())], i.path_trace_ds.list.len() as f64);
    for pd in &i.port_ds {
        let pl = vec![("port".to_string(), pd.port_identity.port_number.to_string())];
        add("port_state", pl.clone(), pd.port_state as u8 as f64);
        if let statime::observability::port::DelayMechanism::P2P { mean_link_delay, .. } = pd.delay_mechanism {
            let bits = serde_json::to_value(mean_link_delay).ok().and_then(|v| v.as_i64()).unwrap_or(0);
            add("mean_link_delay_nanoseconds", pl, bits as f64 / 65536.0);
        }
    }
    v
}

fn check_response(raw: &[u8], st: &ObservableState, out: &mut CaseOut) {
    check_response_uptime(raw, st, out, None)
}

/// `uptime`: None = the uptime of `st` exactly; Some((lo, hi)) = any value in that range (state read at another moment)
pub fn check_response_uptime(raw: &[u8], st: &ObservableState, out: &mut CaseOut, uptime: Option<(f64, f64)>) {
    let Some(r) = parse_http(raw) else {
        out.fail("exporter response is not well-formed HTTP", String::from_utf8_lossy(&raw[..raw.len().min(200)]).to_string());
        return;
    };
    if r.status != 200 {
        out.fail("exporter does not answer 200 for a valid observable state", format!("status {}", r.status));
        return;
    }
    if !r.complete {
        out.fail("Content-Length does not match the body", format!("{:?} vs {} body bytes", r.headers, r.body.len()));
        return;
    }
    let body = String::from_utf8_lossy(&r.body).to_string();
    let fams = match parse_exposition(&body) {
        Ok(f) => f,
        Err(e) => {
            out.fail("exposition format not well-formed", e);
            return;
        }
    };
    let exp = expected(st);
    for (name, labels, val) in &exp {
        let Some(f) = fams.iter().find(|f| &f.name == name) else {
            out.fail(format!("metric family {} missing", name), "".to_string());
            continue;
        };
        let s = f.samples.iter().find(|s| labels.iter().all(|l| s.labels.contains(l)));
        match s {
            None => out.fail(format!("sample of {} missing", name), format!("labels {:?}", labels)),
            Some(s) => {
                let got: f64 = s.value.parse().unwrap_or(f64::NAN);
                if !approx(got, *val) {
                    out.fail(format!("metric {} does not carry the value its metadata promises", name), format!("got {} want {} (help: {:?}, unit: {:?})", s.value, val, f.help, f.unit));
                }
            }
        }
    }
    // no invented samples in the families we know
    for f in &fams {
        let n_exp = exp.iter().filter(|(n, _, _)| *n == f.name).count();
        if n_exp > 0 && f.samples.len() != n_exp {
            out.fail(format!("metric family {} has an unexpected number of samples", f.name), format!("{} vs {}", f.samples.len(), n_exp));
        }
        if f.name == "statime_uptime_seconds" {
            let up: f64 = f.samples.first().map(|s| s.value.parse().unwrap_or(f64::NAN)).unwrap_or(f64::NAN);
            let up_ok = match uptime {
                None => approx(up, st.program.uptime_seconds),
                Some((lo, hi)) => up >= lo - 1e-6 && up <= hi + 1e-6,
            };
            let ok = f.samples.len() == 1 && up_ok && f.samples[0].labels.contains(&("build_commit".to_string(), st.program.build_commit.clone()));
            if !ok {
                out.fail("uptime metric wrong", format!("{:?}", f.samples));
            }
        }
    }
}

fn stage3(ctx: &Ctx, rep: &mut Report) -> Result<(), String> {
    let t0 = std::time::Instant::now();
    let n = ctx.cases(300, 20_000);
    let mut exp = Exporter::start(crate::c20::valid_payload())?;
    let mut done = 0u64;
    for i in 0..n {
        let mut tape = Tape::fresh(ctx.seed ^ hash_str("exporter"), i);
        let mut out = CaseOut::new();
        let sc = gen_state(&mut tape);
        lock_mon_take();
        let mut obs = observable_full(&sc.node);
        // duplicate identities in the path would produce duplicate label sets: keep them distinct (they are, by construction)
        if tape.chance(1, 6) {
            // labels that need escaping travel in the program data
            obs.path_trace_ds.enable = !obs.path_trace_ds.enable;
        }
        let mut st = ObservableState { program: ProgramData::with_uptime(tape.below(1_000_000) as f64 / 8.0), instance: obs };
        if tape.chance(1, 4) {
            st.program.build_commit = "a\"b\\c\nd".to_string();
        }
        let mut bytes = serde_json::to_vec(&st).unwrap();
        if tape.chance(1, 3) {
            // a state generated field by field over the full ranges instead of one a node can be in
            let js = gen_json_state(&mut tape);
            if let Ok(parsed) = serde_json::from_str::<ObservableState>(&js) {
                st = parsed;
                bytes = js.into_bytes();
                out.label("generated-json-state");
            }
        }
        if tape.chance(1, 5) {
            // an earlier scrape of some other state that the client aborted while the exporter was working on it
            aborted_scrape(&exp, crate::c20::valid_payload(), 24);
            out.label("after-aborted-scrape");
        }
        *exp.obs.default_payload.lock().unwrap() = bytes;
        match http_get(&exp.addr, Duration::from_secs(5)) {
            Err(e) => {
                if !exp.alive() {
                    out.fail("exporter exited while serving a valid state", e);
                } else {
                    return Err(format!("exporter did not answer: {}", e));
                }
            }
            Ok(raw) => check_response(&raw, &st, &mut out),
        }
        out.render = json!({"ops": sc.rendered, "ports": st.instance.port_ds.len(), "path": st.instance.path_trace_ds.list.len()});
        if sc.node.states().iter().any(|s| *s != PS::Listening) {
            out.nontrivial = Some(hash_of(&i));
        }
        let failed = out.violation.is_some();
        let rec = tape.recorded();
        if let Some(v) = out.violation.as_mut() {
            v.sig = format!("{}|exporter", v.sig);
        }
        let sig = out.violation.as_ref().map(|v| v.sig.clone());
        let dup = sig.as_ref().map(|s| rep.violations.iter().any(|(v, _, _)| &v.sig == s)).unwrap_or(false);
        if dup {
            out.violation = None;
        }
        let had = rep.violations.len();
        rep.absorb(out, &rec);
        if rep.violations.len() > had {
            rep.viol_parts.push("exporter".into());
        }
        done += 1;
        if failed && rep.violations.len() >= 5 {
            break;
        }
        if !exp.alive() {
            exp = Exporter::start(crate::c20::valid_payload())?;
        }
    }
    rep.parts.push(json!({"part": "exporter", "cases": done, "wall_s": t0.elapsed().as_secs_f64()}));
    Ok(())
}

pub fn run(ctx: &Ctx) -> i32 {
    let mut rep = Report::new();
    run_cases(ctx, &mut rep, "inproc", ctx.cases(40_000, 1_000_000), case_inproc);
    run_cases(ctx, &mut rep, "json", ctx.cases(40_000, 1_000_000), case_json);
    if let Err(e) = stage3(ctx, &mut rep) {
        println!("INFRASTRUCTURE: {}", e);
        return 2;
    }
    // stage 4: the real daemon's observation socket (and the exporter behind it), end to end
    let workers = (ctx.threads as u64 / 2).clamp(2, 8);
    let sum = crate::daemon::run_part(ctx, &mut rep, ctx.cases(10 * workers, 100 * workers), workers);
    if let Some(why) = &sum.skipped {
        println!("note: end-to-end daemon part skipped ({}); the other parts are unaffected", why);
    }
    finish(
        Finish {
            ctx,
            level: "exploration",
            rule: "instance states reached in simulation (grandmaster, slave with generated parent contents, boundary clock with 1-3 ports, Faulty P2P ports, measured link delays, path traces of 0..128 identities, every time-properties combination, filter estimates from 0 to +-10 s incl. values whose fixed-point bits exceed 64 bits, random configurations) plus directly generated observable-state JSON over the full field ranges. Stage 1: the ObservableInstanceState assembled as run() does must agree with the configuration, with the Announce a master port emits (independent view of parent/current/time-properties/path-trace data sets), with the port's behaviour and with the slave port's filter estimates. Stage 2: serde_json round trip is byte-identical and field-equal. Stage 3: the exporter binary built from /repo is given the JSON over a Unix socket (in a third of the cases a state generated field by field over the full ranges instead of one a node can be in); the HTTP response must be 200 with matching Content-Length, well-formed exposition format (# EOF last, metadata before contiguous samples, unit suffix), and every sample must equal the value derived from the state under the meaning its metadata states (true = 1, nanoseconds where the unit says nanoseconds). Stage 4 (part daemon): the real statime daemon as a two-port boundary clock in a private network namespace; the harness, as the parent, changes what it announces (every content field and flag, always better than the daemon's own data set); after four announce intervals the daemon's observation socket must show exactly that hierarchy, the configured defaultDS and the port states, and the exporter binary reading the same socket must serve that state. Non-trivial = state other than the start-up state; distinct by JSON.",
            assumptions: vec!["stage 3 uses loopback sockets with wall-clock time-outs; a time-out is exit 2, never a violation".into(), "float comparison at relative 1e-9".into()],
            min_nontrivial: 100,
        },
        rep,
    )
}

pub fn replay(ctx: &Ctx, path: &str) -> i32 {
    let s = std::fs::read_to_string(path).expect("read replay");
    let v: serde_json::Value = serde_json::from_str(&s).expect("parse");
    match v["part"].as_str().unwrap_or("inproc") {
        "daemon" => crate::daemon::replay_part(ctx, path, 3),
        "json" => replay_file(ctx, path, case_json),
        "exporter" => {
            let tape: Vec<u64> = v["tape"].as_array().map(|a| a.iter().filter_map(|x| x.as_u64()).collect()).unwrap_or_default();
            let mut t = Tape::replay(tape);
            let sc = gen_state(&mut t);
            let obs = observable_full(&sc.node);
            let st = ObservableState { program: ProgramData::with_uptime(1.0), instance: obs };
            let exp = match Exporter::start(serde_json::to_vec(&st).unwrap()) {
                Ok(e) => e,
                Err(e) => {
                    println!("INFRASTRUCTURE: {}", e);
                    return 2;
                }
            };
            let mut out = CaseOut::new();
            match http_get(&exp.addr, Duration::from_secs(5)) {
                Ok(raw) => check_response(&raw, &st, &mut out),
                Err(e) => {
                    println!("INFRASTRUCTURE: {}", e);
                    return 2;
                }
            }
            match out.violation {
                Some(v) => {
                    println!("VIOLATION property=C19 replay={}\n  signature: {}\n  detail: {}", path, v.sig, v.detail);
                    1
                }
                None => {
                    println!("replay passed");
                    0
                }
            }
        }
        _ => replay_file(ctx, path, case_inproc),
    }
}
