//! C16 — time arithmetic and wire time conversions are exact.
//! Oracle: exact integer arithmetic on the raw 2^-32 ns bit patterns (all
//! values of the stated domain fit in i128), boundary lattices enumerated
//! exhaustively in pairs, the rest sampled.

use crate::engine::*;
use fixed::types::{I96F32, U96F32};
use serde_json::json;
use statime::time::{Duration, Interval, Time};

const NS: u128 = 1_000_000_000;
const MAX_TIME_BITS: u128 = ((1u128 << 48) * NS) << 32; // 2^48 s

fn time_from_bits(b: u128) -> Time {
    Time::from_fixed_nanos(U96F32::from_bits(b))
}
fn dur_from_bits(b: i128) -> Duration {
    Duration::from_fixed_nanos(I96F32::from_bits(b))
}
fn tbits(t: Time) -> u128 {
    t.nanos().to_bits()
}
fn dbits(d: Duration) -> i128 {
    d.nanos().to_bits()
}

fn time_lattice() -> Vec<u128> {
    let mut v = vec![];
    let fracs: [u128; 6] = [0, 1, 1 << 15, (1 << 16) - 1, 1 << 16, (1u128 << 32) - 1];
    let secs: [u128; 8] = [0, 1, 2, 1_700_000_000, (1 << 32) - 1, 1 << 32, (1 << 48) - 2, (1 << 48) - 1];
    for s in secs {
        for dn in [0i128, 1, 999_999_999, 500_000_000] {
            for f in fracs {
                let ns = s * NS + dn as u128;
                v.push((ns << 32) | f);
            }
        }
    }
    v.sort();
    v.dedup();
    v
}

fn dur_lattice() -> Vec<i128> {
    let mut v = vec![0i128];
    let fracs: [i128; 5] = [0, 1, (1 << 16) - 1, 1 << 16, (1i128 << 32) - 1];
    let mags: [i128; 11] = [0, 1, 999_999_999, 1_000_000_000, 1_000_000_001, (1 << 32) - 1, 1 << 32, (1 << 47) - 1, 1 << 47, (1i128 << 63) - 1, 1i128 << 62];
    for m in mags {
        for f in fracs {
            let b = (m << 32) | f;
            v.push(b);
            v.push(-b);
        }
    }
    v.sort();
    v.dedup();
    v
}

fn gen_time_bits(t: &mut Tape) -> u128 {
    let secs: u128 = match t.weighted(&[3, 2, 2, 1, 1]) {
        0 => t.below(4_000_000_000) as u128,
        1 => t.below(100) as u128,
        2 => t.below(1 << 48) as u128,
        3 => (1u128 << 32) - 2 + t.below(4) as u128,
        _ => (1u128 << 48) - 1 - t.below(3) as u128,
    };
    let nanos: u128 = match t.weighted(&[3, 1, 1, 1]) {
        0 => t.below(1_000_000_000) as u128,
        1 => 0,
        2 => 999_999_999,
        _ => t.below(3) as u128,
    };
    let frac: u128 = match t.weighted(&[2, 2, 1, 1, 1]) {
        0 => 0,
        1 => t.below(1 << 32) as u128,
        2 => (1 << 16) - 1 + t.below(3) as u128,
        3 => (1u128 << 32) - 1,
        _ => 1 << t.below(32),
    };
    ((secs * NS + nanos) << 32) | frac
}

fn gen_dur_bits(t: &mut Tape) -> i128 {
    // within +-2^63 ns at 2^-32 ns resolution => |bits| < 2^95
    let b = t.log_i128(95);
    if t.chance(1, 4) {
        // whole-second / whole-ns shapes
        let s = t.range(-4_000_000, 4_000_000) as i128;
        return (s * NS as i128) << 32;
    }
    b
}

fn check_pair(tb: u128, db: i128) -> Result<bool, (String, String)> {
    // returns Ok(true) if the pair was in-domain (result representable)
    let exact = tb as i128 + db;
    if exact < 0 || exact as u128 >= MAX_TIME_BITS * 2 {
        return Ok(false);
    }
    let t = time_from_bits(tb);
    let d = dur_from_bits(db);
    let r = guarded(|| {
        let s = t + d;
        let back = s - d;
        let diff = s - t;
        let s2 = t - (-d);
        (tbits(s), tbits(back), dbits(diff), tbits(s2))
    });
    match r {
        Err(p) => Err(("panic-in-domain add/sub".into(), format!("T=0x{:x} D={} : {}", tb, db, p))),
        Ok((s, back, diff, s2)) => {
            if s != exact as u128 {
                return Err(("T+D inexact".into(), format!("T=0x{:x} D={} got 0x{:x} want 0x{:x}", tb, db, s, exact)));
            }
            if back != tb {
                return Err(("(T+D)-D != T".into(), format!("T=0x{:x} D={} got 0x{:x}", tb, db, back)));
            }
            if diff != db {
                return Err(("(T+D)-T != D".into(), format!("T=0x{:x} D={} got {}", tb, db, diff)));
            }
            if s2 != exact as u128 {
                return Err(("T-(-D) inexact".into(), format!("T=0x{:x} D={} got 0x{:x}", tb, db, s2)));
            }
            Ok(true)
        }
    }
}

fn check_time_pair(a: u128, b: u128) -> Result<(), (String, String)> {
    let (ta, tb_) = (time_from_bits(a), time_from_bits(b));
    let r = guarded(|| dbits(ta - tb_));
    let exact = a as i128 - b as i128;
    match r {
        Err(p) => Err(("panic-in-domain T1-T2".into(), format!("0x{:x} - 0x{:x}: {}", a, b, p))),
        Ok(v) if v != exact => Err(("T1-T2 inexact".into(), format!("0x{:x} - 0x{:x} got {} want {}", a, b, v, exact))),
        Ok(_) => Ok(()),
    }
}

fn check_accessors(tb: u128) -> Result<(), (String, String)> {
    let t = time_from_bits(tb);
    let r = guarded(|| (t.secs(), t.subsec_nanos(), tbits(t)));
    let ns = tb >> 32;
    match r {
        Err(p) => Err(("panic accessors".into(), format!("T=0x{:x}: {}", tb, p))),
        Ok((s, n, bits)) => {
            if bits != tb {
                return Err(("nanos() identity".into(), format!("T=0x{:x}", tb)));
            }
            if s as u128 != ns / NS {
                return Err(("secs() inexact".into(), format!("T=0x{:x} secs {} want {}", tb, s, ns / NS)));
            }
            if n as u128 != ns % NS || n >= 1_000_000_000 {
                return Err(("subsec_nanos() inexact".into(), format!("T=0x{:x} nanos {} want {}", tb, n, ns % NS)));
            }
            // constructor agreement
            if ns < (1u128 << 64) {
                let c = Time::from_nanos_subnanos(ns as u64, tb as u32);
                if tbits(c) != tb {
                    return Err(("from_nanos_subnanos".into(), format!("T=0x{:x}", tb)));
                }
            }
            Ok(())
        }
    }
}

/// TimeInterval <-> Duration through the only public route: serde into PortDS
/// (TimeInterval bits) -> `.into()` Duration; Duration -> TimeInterval through a
/// PortDS value obtained from the library.
fn ti_to_duration_bits(bits: i64) -> Result<i128, String> {
    use statime::observability::port::PortDS;
    let js = json!({
        "port_identity": {"clock_identity": [0,0,0,0,0,0,0,1], "port_number": 1},
        "port_state": "Listening",
        "log_announce_interval": 0, "announce_receipt_timeout": 3, "log_sync_interval": 0,
        "delay_mechanism": {"E2E": {"log_min_delay_req_interval": 0}},
        "version_number": 2, "minor_version_number": 1,
        "delay_asymmetry": bits, "master_only": false
    });
    let p: PortDS = serde_json::from_value(js).map_err(|e| e.to_string())?;
    let d: Duration = p.delay_asymmetry.into();
    // and the reverse direction: serialise the TimeInterval again
    let back = serde_json::to_value(p.delay_asymmetry).map_err(|e| e.to_string())?;
    if back.as_i64() != Some(bits) {
        return Err(format!("serde round trip of TimeInterval {} gives {}", bits, back));
    }
    Ok(dbits(d))
}

fn duration_to_ti_bits(db: i128) -> Result<i64, String> {
    // Duration -> TimeInterval is observable through Port::port_ds().delay_asymmetry
    crate::host::duration_to_time_interval_bits(dur_from_bits(db))
}

fn check_time_interval(bits: i64) -> Result<(), (String, String)> {
    let r = guarded(|| ti_to_duration_bits(bits));
    match r {
        Err(p) => Err(("panic TimeInterval->Duration".into(), format!("bits {}: {}", bits, p))),
        Ok(Err(e)) => Err(("harness".into(), e)),
        Ok(Ok(d)) => {
            let want = (bits as i128) << 16;
            if d != want {
                return Err(("TimeInterval->Duration inexact".into(), format!("bits {} got {} want {}", bits, d, want)));
            }
            match guarded(|| duration_to_ti_bits(d)) {
                Err(p) => Err(("panic Duration->TimeInterval".into(), format!("bits {}: {}", bits, p))),
                Ok(Err(e)) => Err(("harness".into(), e)),
                Ok(Ok(b)) if b != bits => Err(("TimeInterval->Duration->TimeInterval not identity".into(), format!("bits {} back {}", bits, b))),
                Ok(Ok(_)) => Ok(()),
            }
        }
    }
}

fn check_dur_floor(db: i128) -> Result<(), (String, String)> {
    // |d| < 2^47 ns : floor to 2^-16 ns
    match guarded(|| duration_to_ti_bits(db)) {
        Err(p) => Err(("panic Duration->TimeInterval".into(), format!("d {}: {}", db, p))),
        Ok(Err(e)) => Err(("harness".into(), e)),
        Ok(Ok(b)) => {
            let want = db >> 16; // arithmetic shift = floor
            if b as i128 != want {
                return Err(("Duration->TimeInterval not floor".into(), format!("d {} got {} want {}", db, b, want)));
            }
            Ok(())
        }
    }
}

fn check_log_interval(n: i8) -> Result<(), (String, String)> {
    let iv = Interval::from_log_2(n);
    let want = 2f64.powi(n as i32);
    if iv.seconds() != want || iv.as_log_2() != n {
        return Err(("Interval::seconds != 2^n".into(), format!("n={} got {}", n, iv.seconds())));
    }
    // as_duration / from_log_interval exact where 2^n s is representable at 2^-32 ns: -41 <= n <= 65
    if (-41..=65).contains(&n) {
        let exact: i128 = if n >= 0 { ((NS as i128) << 32) << n } else { ((NS as i128) << 32) >> (-n) };
        for (name, got) in [("as_duration", guarded(|| dbits(iv.as_duration()))), ("from_log_interval", guarded(|| dbits(Duration::from_log_interval(n))))] {
            match got {
                Err(p) => return Err((format!("panic {} representable n", name), format!("n={}: {}", n, p))),
                Ok(g) if g != exact => return Err((format!("{} inexact", name), format!("n={} got {} want {}", n, g, exact))),
                _ => {}
            }
        }
    }
    if (-9..=63).contains(&n) {
        let exact_ns: u128 = if n >= 0 { NS << n } else { NS >> (-n) };
        match guarded(|| iv.as_core_duration().as_nanos()) {
            Err(p) => return Err(("panic as_core_duration".into(), format!("n={}: {}", n, p))),
            Ok(g) if g != exact_ns => return Err(("as_core_duration inexact".into(), format!("n={} got {} want {}", n, g, exact_ns))),
            _ => {}
        }
    } else if (-30..-9).contains(&n) {
        let exact = 1e9 * want;
        match guarded(|| iv.as_core_duration().as_nanos()) {
            Err(p) => return Err(("panic as_core_duration".into(), format!("n={}: {}", n, p))),
            Ok(g) if (g as f64 - exact).abs() > 1.0 => return Err(("as_core_duration off by >1ns".into(), format!("n={} got {} want {}", n, g, exact))),
            _ => {}
        }
    }
    Ok(())
}

fn lattices(rep: &mut Report) {
    let t0 = std::time::Instant::now();
    let tl = time_lattice();
    let dl = dur_lattice();
    let mut n = 0u64;
    let mut first: Option<(String, String)> = None;
    let note = |r: Result<(), (String, String)>, first: &mut Option<(String, String)>| {
        if let Err(e) = r {
            if first.is_none() {
                *first = Some(e);
            }
        }
    };
    for &a in &tl {
        note(check_accessors(a), &mut first);
        n += 1;
        crate::engine::PROGRESS.fetch_add(1, std::sync::atomic::Ordering::Relaxed);
        for &d in &dl {
            match check_pair(a, d) {
                Ok(true) => {
                    rep.nontrivial.insert(hash_of(&("lat", a, d)));
                }
                Ok(false) => {}
                Err(e) => note(Err(e), &mut first),
            }
            n += 1;
            crate::engine::PROGRESS.fetch_add(1, std::sync::atomic::Ordering::Relaxed);
        }
        for &b in &tl {
            note(check_time_pair(a, b), &mut first);
            n += 1;
            crate::engine::PROGRESS.fetch_add(1, std::sync::atomic::Ordering::Relaxed);
        }
    }
    for i in i8::MIN..=i8::MAX {
        note(check_log_interval(i), &mut first);
        n += 1;
        crate::engine::PROGRESS.fetch_add(1, std::sync::atomic::Ordering::Relaxed);
    }
    // TimeInterval lattice
    let mut til: Vec<i64> = vec![0, 1, -1, i64::MAX, i64::MIN, i64::MAX - 1, i64::MIN + 1];
    for k in [16, 32, 47, 48, 62] {
        for d in [-1i64, 0, 1] {
            til.push((1i64 << k) + d);
            til.push(-(1i64 << k) + d);
        }
    }
    for b in til {
        note(check_time_interval(b), &mut first);
        n += 1;
        crate::engine::PROGRESS.fetch_add(1, std::sync::atomic::Ordering::Relaxed);
    }
    for &d in &dl {
        if d.abs() < (1i128 << (47 + 32)) {
            note(check_dur_floor(d), &mut first);
            n += 1;
            crate::engine::PROGRESS.fetch_add(1, std::sync::atomic::Ordering::Relaxed);
        }
    }
    rep.evaluations += n;
    rep.parts.push(json!({"part": "lattices", "cases": n, "exhaustive": true, "wall_s": t0.elapsed().as_secs_f64(),
        "what": format!("{} boundary times x {} boundary durations (add/sub laws), all time pairs (difference), accessors, all 256 log intervals, TimeInterval boundary patterns", tl.len(), dl.len())}));
    if let Some((sig, detail)) = first {
        rep.violations.push((Violation { sig: format!("{}|lattice", sig), detail }, vec![], json!({"kind": "lattice"})));
        rep.viol_parts.push("lattices".into());
    }
}

fn case_sample(t: &mut Tape) -> CaseOut {
    let mut out = CaseOut::new();
    let a = gen_time_bits(t);
    let b = gen_time_bits(t);
    let d = gen_dur_bits(t);
    let ti = match t.weighted(&[2, 2, 1]) {
        0 => t.full() as i64,
        1 => t.log_i128(63) as i64,
        _ => *t.pick(&[i64::MAX, i64::MIN, 0, -1, 1]),
    };
    out.render = json!({"T1_bits": format!("0x{:x}", a), "T2_bits": format!("0x{:x}", b), "D_bits": d.to_string(), "time_interval_bits": ti});
    let fail = |r: Result<(), (String, String)>, out: &mut CaseOut| {
        if let Err((s, dd)) = r {
            out.fail(s, dd);
        }
    };
    fail(check_accessors(a), &mut out);
    match check_pair(a, d) {
        Ok(true) => {
            out.label("add-in-domain");
            let carry = ((a >> 32) % NS) as i128 + (d >> 32) % NS as i128;
            let nt = (a & 0xffff_ffff) != 0 || (d & 0xffff_ffff) != 0 || carry < 0 || carry >= NS as i128 || d < 0;
            if nt {
                out.nontrivial = Some(hash_of(&(a, d)));
            }
        }
        Ok(false) => out.label("add-out-of-domain-skipped"),
        Err((s, dd)) => out.fail(s, dd),
    }
    fail(check_time_pair(a, b), &mut out);
    fail(check_time_interval(ti), &mut out);
    if d.abs() < (1i128 << (47 + 32)) {
        out.label("dur-floor");
        fail(check_dur_floor(d), &mut out);
    }
    out
}

pub fn run(ctx: &Ctx) -> i32 {
    let mut rep = Report::new();
    lattices(&mut rep);
    run_cases(ctx, &mut rep, "sample", ctx.cases(6_000_000, 300_000_000), case_sample);
    crate::c16wire::run_wire(ctx, &mut rep);
    finish(
        Finish {
            ctx,
            level: "exploration",
            rule: "operands: times in [0,2^48 s) and durations within +-2^63 ns at 2^-32 ns resolution, all 64-bit TimeInterval patterns, all 256 log intervals; boundary lattices enumerated exhaustively in pairs, the rest sampled. Oracle: exact integer arithmetic on raw bit patterns. Non-trivial = in-domain pair with a sub-nanosecond part, a nanosecond/second carry or a negative duration; distinct by operand tuple. Part `wire`: Time -> (seconds, nanoseconds, correctionField) observed in Follow_Up frames of a real master port and compared with floor(T*2^16)/2^16.",
            assumptions: vec![
                "pairs whose exact result is negative or >= 2^49 s are outside the statement and skipped (counted in label add-out-of-domain-skipped)".into(),
                "Duration->TimeInterval is observed through Port::port_ds().delay_asymmetry, TimeInterval values are created through serde (the type itself is crate-private)".into(),
            ],
            min_nontrivial: 100,
        },
        rep,
    )
}

pub fn replay(ctx: &Ctx, path: &str) -> i32 {
    let s = std::fs::read_to_string(path).expect("read replay");
    let v: serde_json::Value = serde_json::from_str(&s).expect("parse");
    match v["part"].as_str().unwrap_or("sample") {
        "sample" => replay_file(ctx, path, case_sample),
        "wire" => replay_file(ctx, path, crate::c16wire::case_wire),
        _ => {
            // lattice parts are deterministic: re-run them
            let mut rep = Report::new();
            lattices(&mut rep);
            if rep.violations.is_empty() {
                println!("replay passed");
                0
            } else {
                println!("VIOLATION property=C16 replay={}\n  {}", path, rep.violations[0].0.detail);
                1
            }
        }
    }
}
