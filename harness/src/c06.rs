//! C06 — foreign masters qualify only by sustained Announces and expire when
//! silent. Time-stepped model-based check with an independent, time-based
//! record of receptions.

use crate::engine::*;
use crate::host::*;
use crate::refbmca::*;
use crate::refcodec::*;
use serde_json::json;

const OWN: [u8; 8] = [0, 0, 0, 0, 0, 0, 0, 0x10];

#[derive(Clone, Copy, Debug, PartialEq, Eq)]
enum Pat {
    Absent,
    Once,
    Dup,
    Reordered,
    Stale,
}

#[derive(Clone, Debug)]
struct MSpec {
    id: PortId,
    ann: RAnnounce,
    first_seq: u16,
    pats: Vec<Pat>,
    offs: Vec<u64>, // arrival offset within the interval, per mille
}

#[derive(Clone, Debug)]
struct Scenario {
    ann_log: i8,
    second_port_log: Option<i8>,
    receipt_timeout: u8,
    masters: Vec<MSpec>,
    bmca_phase_pm: u64,
    horizon: usize,
}

fn gen_pattern(t: &mut Tape, horizon: usize) -> Vec<Pat> {
    // runs of presence and absence with occasional irregularities
    let mut v = vec![];
    let style = t.weighted(&[3, 2, 2, 1]);
    let mut i = 0;
    while i < horizon {
        let run = 1 + t.below(7) as usize;
        let present = match style {
            0 => true,
            1 => (v.len() / 3) % 2 == 0 || t.bool(),
            _ => t.chance(2, 3),
        };
        for _ in 0..run {
            if i >= horizon {
                break;
            }
            let p = if !present && style != 0 {
                Pat::Absent
            } else {
                match t.weighted(&[12, 1, 1, 1, 2]) {
                    0 => Pat::Once,
                    1 => Pat::Dup,
                    2 => Pat::Reordered,
                    3 => Pat::Stale,
                    _ => {
                        if style == 0 {
                            Pat::Once
                        } else {
                            Pat::Absent
                        }
                    }
                }
            };
            v.push(p);
            i += 1;
        }
    }
    if style == 3 {
        // a single isolated announce somewhere (never enough to qualify)
        for p in v.iter_mut() {
            *p = Pat::Absent;
        }
        let k = t.below(horizon as u64) as usize;
        v[k] = Pat::Once;
    }
    v
}

fn gen_scenario(t: &mut Tape) -> Scenario {
    let horizon = 16;
    let ann_log = t.range(-2, 1) as i8;
    // a second idle port with a shorter announce interval: the BMCA period (smallest announce interval of the
    // instance) is then 1/2, 1/4 or 1/8 of this port's announce interval
    let second_port_log = if t.chance(1, 3) { Some(ann_log - 1 - t.below(3) as i8) } else { None };
    let nm = match t.weighted(&[3, 3, 2, 1]) {
        0 => 1,
        1 => 2,
        2 => 3,
        _ => 9 + t.below(2) as usize,
    };
    let mut masters = vec![];
    for k in 0..nm {
        let kind = if k < 3 { t.weighted(&[8, 1, 1]) } else { 0 };
        let mut clock = [0u8; 8];
        clock[7] = 0x20 + k as u8;
        let mut id = PortId { clock, port: 1 };
        let mut steps = *t.pick(&[0u16, 1, 3, 254]);
        match kind {
            1 => steps = *t.pick(&[255u16, 300, 65535]),
            2 => id = PortId { clock: OWN, port: *t.pick(&[0u16, 5]) },
            _ => {}
        }
        let p1 = *t.pick(&[100u8, 110, 120, 200]);
        let mut ann = simple_announce(clock, p1, *t.pick(&[6u8, 248]), steps);
        ann.gm_identity = clock;
        masters.push(MSpec {
            id,
            ann,
            first_seq: if t.bool() { 65530 + t.below(6) as u16 } else { t.below(1000) as u16 },
            pats: gen_pattern(t, horizon),
            offs: (0..horizon).map(|_| 1 + t.below(998)).collect(),
        });
    }
    Scenario { ann_log, second_port_log, receipt_timeout: *t.pick(&[3u8, 2, 4]), masters, bmca_phase_pm: t.below(1000), horizon }
}

#[derive(Clone, Debug)]
struct Recv {
    t: u64,
    seq: u16,
    clean: bool, // part of a clean in-order once-per-interval pattern
}

pub fn run_scenario(sc: &Scenario, out: &mut CaseOut) -> (bool, bool, bool) {
    // returns (had qualification, had loss/expiry, crossed wrap)
    let mut cfg = NodeCfg::default();
    cfg.identity = OWN;
    cfg.ports[0].announce_log = sc.ann_log;
    cfg.ports[0].receipt_timeout = sc.receipt_timeout;
    if let Some(l) = sc.second_port_log {
        let mut p2 = PortCfg::default();
        p2.announce_log = l;
        cfg.ports.push(p2);
    }
    let mut node = Node::new(cfg);
    let interval: u64 = if sc.ann_log >= 0 { 1_000_000_000u64 << sc.ann_log } else { 1_000_000_000u64 >> (-sc.ann_log) };
    let bmca_period = node.bmca_interval_ns();
    // arrivals
    let mut arrivals: Vec<(u64, usize, u16, bool)> = vec![]; // (time, master, seq, clean)
    for (mi, m) in sc.masters.iter().enumerate() {
        let mut seq = m.first_seq;
        for k in 0..sc.horizon {
            let base = k as u64 * interval + interval * m.offs[k] / 1000;
            match m.pats[k] {
                Pat::Absent => {}
                Pat::Once => {
                    arrivals.push((base, mi, seq, true));
                    seq = seq.wrapping_add(1);
                }
                Pat::Dup => {
                    arrivals.push((base, mi, seq, false));
                    arrivals.push((base + 1000, mi, seq, false));
                    seq = seq.wrapping_add(1);
                }
                Pat::Reordered => {
                    arrivals.push((base, mi, seq.wrapping_add(1), false));
                    arrivals.push((base + 1000, mi, seq, false));
                    seq = seq.wrapping_add(2);
                }
                Pat::Stale => {
                    arrivals.push((base, mi, seq.wrapping_sub(5), false));
                }
            }
        }
    }
    arrivals.sort();
    let mut recs: Vec<Vec<Recv>> = vec![vec![]; sc.masters.len()];
    let mut ai = 0;
    let mut next_bmca = bmca_period * sc.bmca_phase_pm / 1000 + 1;
    let end = sc.horizon as u64 * interval + 8 * interval;
    let d0 = DsView::d0(OWN, 128, 248, 0xfe, 0x8000 - 23 * 256, 128);
    let me = node.port_id(0);
    let mut qualified_once = false;
    let mut lost = false;
    let mut wrap = false;
    let mut last_parent: Option<usize> = None;
    let mut guard = 0;
    loop {
        guard += 1;
        if guard > 20000 + 40 * sc.horizon {
            out.fail("harness: event loop does not terminate", "");
            break;
        }
        let ta = arrivals.get(ai).map(|a| a.0).unwrap_or(u64::MAX);
        let tt = node.next_timer().map(|x| x.0).unwrap_or(u64::MAX);
        let tn = ta.min(tt).min(next_bmca);
        if tn > end {
            break;
        }
        node.now_ns = tn;
        if tn == next_bmca {
            node.bmca();
            next_bmca += bmca_period;
            // ---- oracle
            let st = node.state(0);
            let parent = node.ds().parent;
            let win = 4 * interval + bmca_period;
            let count_in = |mi: usize, w: u64| recs[mi].iter().filter(|r| r.t + w >= tn).count();
            let eligible = |m: &MSpec| m.id.clock != OWN && m.ann.steps_removed < 255;
            if st == PS::Slave {
                match sc.masters.iter().position(|m| m.id == parent) {
                    None => out.fail("slave of a parent that never announced", format!("{:?}", parent)),
                    Some(mi) => {
                        let m = &sc.masters[mi];
                        if m.id.clock == OWN {
                            out.fail("port is slave of a sender carrying the instance's own clock identity", format!("{:?}", parent));
                        }
                        if m.ann.steps_removed >= 255 {
                            out.fail("port is slave of a master reporting stepsRemoved >= 255", format!("{}", m.ann.steps_removed));
                        }
                        let n = count_in(mi, win);
                        if n < 2 {
                            if recs[mi].len() < 2 {
                                out.fail("master became parent on fewer than two Announces", format!("master {} receptions {:?} at t={}", mi, recs[mi], tn));
                            } else {
                                out.fail("parent has fewer than two Announces within the foreign master window", format!("master {} receptions {:?} at t={} window {}", mi, recs[mi], tn, win));
                            }
                        }
                        // expiry: silent for 6 intervals + one BMCA period => must have been dropped
                        let last = recs[mi].iter().map(|r| r.t).max().unwrap_or(0);
                        if tn > last + 6 * interval + bmca_period {
                            out.fail("silent master still parent after six announce intervals", format!("master {} last heard {} now {}", mi, last, tn));
                        }
                        qualified_once = true;
                        if recs[mi].windows(2).any(|w| w[1].seq < w[0].seq && w[0].seq > 65000) {
                            wrap = true;
                        }
                        if let Some(lp) = last_parent {
                            if lp != mi {
                                lost = true;
                            }
                        }
                        last_parent = Some(mi);
                    }
                }
            } else {
                if last_parent.is_some() {
                    lost = true;
                }
                last_parent = None;
                if st == PS::Passive {
                    // needs an explanation: a master with >= 2 receptions in the window or an own-instance Announce
                    let explained = sc.masters.iter().enumerate().any(|(mi, m)| {
                        let w = if m.id.clock == OWN { 2 * interval + 2 * bmca_period } else { win };
                        let need = if m.id.clock == OWN { 1 } else { 2 };
                        (m.id.clock == OWN && m.id.port < me.port && count_in(mi, w) >= need) || (eligible(m) && count_in(mi, w) >= need)
                    });
                    if !explained {
                        out.fail("port passive although no master qualifies (two Announces within the window) and no own-instance Announce was heard", format!("t={} receptions {:?}", tn, recs));
                    }
                }
            }
            // sufficient side (<= 8 masters): the best candidate with a clean Announce in each of the last 3 intervals is the parent
            if sc.masters.len() <= 8 && out.violation.is_none() {
                let views: Vec<Option<DsView>> = sc.masters.iter().map(|m| if eligible(m) { Some(DsView::from_announce(&m.ann, m.id, me)) } else { None }).collect();
                for (mi, m) in sc.masters.iter().enumerate() {
                    let Some(v) = views[mi] else { continue };
                    if !compare(&v, &d0).a_wins() {
                        continue;
                    }
                    // clean receptions in each of the last three interval-long slots
                    let ok3 = (0..3).all(|k| recs[mi].iter().any(|r| r.clean && r.t + (k + 1) * interval > tn && r.t + k * interval <= tn));
                    // no irregular reception of this master in the last five intervals (keeps the claim to clean patterns)
                    let irregular = recs[mi].iter().any(|r| !r.clean && r.t + 5 * interval > tn);
                    if !ok3 || irregular {
                        continue;
                    }
                    // a better (or equal) competitor heard within the last 7 intervals + 2 BMCA periods may still be
                    // (or have just been) the parent: after its last Announce it is considered for up to 4I+B, and the
                    // next-best master then needs up to one more Announce and one more BMCA to qualify (statime removes
                    // the newest record of qualified non-best masters at every BMCA); falling back to being master in
                    // between is allowed by the statement
                    let beaten = sc.masters.iter().enumerate().any(|(oi, _)| oi != mi && views[oi].map(|ov| !compare(&v, &ov).a_wins()).unwrap_or(false) && count_in(oi, 7 * interval + 2 * bmca_period) >= 1);
                    // the master itself must have been heard for at least 3 intervals + 2 BMCA periods
                    let first = recs[mi].iter().map(|r| r.t).min().unwrap_or(u64::MAX);
                    if first + 3 * interval + 2 * bmca_period > tn {
                        continue;
                    }
                    if beaten {
                        continue;
                    }
                    if !(st == PS::Slave && parent == m.id) {
                        out.fail("steadily announcing best master is not the parent", format!("master {} ({:?}) at t={} state {:?} parent {:?} receptions {:?}", mi, m.id, tn, st, parent, recs[mi]));
                    }
                }
            }
        } else if tn == tt {
            let (_, p, k) = node.next_timer().unwrap();
            node.timer(p, k);
            // transmit timestamps are returned at once, as the daemon does
            for c in node.pending_contexts() {
                node.tx_timestamp(c, time_from_bits(((1_700_000_000_000_000_000u128 + tn as u128) << 32) | 7));
            }
        } else {
            let (_, mi, seq, clean) = arrivals[ai];
            ai += 1;
            let m = &sc.masters[mi];
            let msg = announce_from(m.id, seq, m.ann, 0, 0);
            node.recv_general(0, &msg.encode());
            recs[mi].push(Recv { t: tn, seq, clean });
            if recs[mi].len() > 96 {
                // long runs: only the recent past matters to the oracle (all windows are <= 8 intervals)
                let keep_from = tn.saturating_sub(16 * interval);
                recs[mi].retain(|r| r.t >= keep_from);
            }
        }
        if out.violation.is_some() {
            break;
        }
    }
    if !node.monitor.is_empty() {
        out.fail("monitor", node.monitor.join("; "));
    }
    let lm = lock_mon_take();
    if !lm.nested.is_empty() {
        out.fail("nested lock acquisition", lm.nested.join("; "));
    }
    (qualified_once, lost, wrap)
}

pub fn case(t: &mut Tape) -> CaseOut {
    let mut out = CaseOut::new();
    let sc = gen_scenario(t);
    let (q, l, w) = run_scenario(&sc, &mut out);
    out.render = json!({"announce_log": sc.ann_log, "second_port_log": sc.second_port_log, "receipt_timeout": sc.receipt_timeout, "bmca_phase_permille": sc.bmca_phase_pm,
        "masters": sc.masters.iter().map(|m| json!({"id": format!("{:?}", m.id), "p1": m.ann.gm_priority1, "class": m.ann.gm_class, "steps": m.ann.steps_removed, "first_seq": m.first_seq,
            "pattern": m.pats.iter().map(|p| match p { Pat::Absent => '.', Pat::Once => '1', Pat::Dup => 'D', Pat::Reordered => 'R', Pat::Stale => 'S' }).collect::<String>()})).collect::<Vec<_>>()});
    if q {
        out.label("qualified");
    }
    if l {
        out.label("loss-or-change");
    }
    if w {
        out.label("wrap-crossed");
    }
    if sc.masters.len() > 8 {
        out.label(">8-masters");
    }
    if q && (l || w) {
        out.nontrivial = Some(hash_of(&format!("{:?}", sc)));
    }
    out
}

/// Long run: one or two masters announcing in (almost) every interval through a complete sequence-number cycle
/// and half of the next one, so that any non-wrap-aware "newest id" bookkeeping shows.
fn gen_long(t: &mut Tape) -> Scenario {
    let ann_log = t.range(-2, 1) as i8;
    let nm = 1 + t.below(2) as usize;
    let first_seq = 20000 + t.below(45536) as u16;
    let horizon = (65536 - first_seq as usize) + 32768 + 64 + t.below(2000) as usize;
    let mut masters = vec![];
    for k in 0..nm {
        let mut clock = [0u8; 8];
        clock[7] = 0x20 + k as u8;
        let id = PortId { clock, port: 1 };
        let mut ann = simple_announce(clock, 100 + 10 * k as u8, 6, *t.pick(&[0u16, 1, 3]));
        ann.gm_identity = clock;
        let mut pats = Vec::with_capacity(horizon);
        let gap_every = 500 + t.below(4000) as usize;
        let off = 1 + t.below(998);
        for i in 0..horizon {
            pats.push(if i % gap_every == gap_every - 1 { *t.pick(&[Pat::Absent, Pat::Dup, Pat::Once]) } else { Pat::Once });
        }
        masters.push(MSpec { id, ann, first_seq: first_seq.wrapping_add(k as u16 * 7919), pats, offs: vec![off; horizon] });
    }
    Scenario { ann_log, second_port_log: None, receipt_timeout: *t.pick(&[3u8, 2, 4]), masters, bmca_phase_pm: t.below(1000), horizon }
}

pub fn case_long(t: &mut Tape) -> CaseOut {
    let mut out = CaseOut::new();
    let sc = gen_long(t);
    let (q, _l, w) = run_scenario(&sc, &mut out);
    out.render = json!({"long_run": true, "announce_log": sc.ann_log, "receipt_timeout": sc.receipt_timeout, "bmca_phase_permille": sc.bmca_phase_pm, "horizon_intervals": sc.horizon,
        "masters": sc.masters.iter().map(|m| json!({"id": format!("{:?}", m.id), "p1": m.ann.gm_priority1, "steps": m.ann.steps_removed, "first_seq": m.first_seq,
            "irregular_at": m.pats.iter().enumerate().filter(|(_, p)| **p != Pat::Once).map(|(i, p)| format!("{}:{:?}", i, p)).collect::<Vec<_>>()})).collect::<Vec<_>>()});
    out.label("long-run");
    if q && w {
        out.nontrivial = Some(hash_of(&format!("{:?}{:?}{}", sc.masters.iter().map(|m| m.first_seq).collect::<Vec<_>>(), sc.bmca_phase_pm, sc.horizon)));
    }
    out
}

pub fn run(ctx: &Ctx) -> i32 {
    let mut rep = Report::new();
    run_cases(ctx, &mut rep, "histories", ctx.cases(300_000, 6_000_000), case);
    run_cases(ctx, &mut rep, "long", ctx.cases(32, 600), case_long);
    // the real daemon: qualification and expiry of a new foreign master in real time
    let workers = (ctx.threads as u64 / 2).clamp(2, 8);
    let sum = crate::daemon::run_part(ctx, &mut rep, ctx.cases(4 * workers, 80 * workers), workers);
    if let Some(why) = &sum.skipped {
        println!("note: end-to-end daemon part skipped ({}); the other parts are unaffected", why);
    }
    finish(
        Finish {
            ctx,
            level: "exploration",
            rule: "part histories: one port (1/3 of the cases a second idle port with a 2, 4 or 8 times shorter announce interval so that BMCA and announce periods differ), announce log interval -2..1, receipt timeout 2..4, horizon 16 announce intervals + 8 of silence; 1-3 masters (1/9 of the cases 9-10, beyond the record capacity) each with a per-interval arrival pattern (absent, once, duplicated, two with reordered ids, stale id; runs of presence/absence; single isolated Announce), first sequence id 0..999 or 65530..65535, stepsRemoved 0/1/3/254 or >= 255, foreign identity or the own clock identity, random arrival phase per interval, random BMCA phase; the announce receipt timer and all other timers are live (host timer model). After every BMCA an independent time-based reception record is consulted: necessary conditions always, the sufficient and expiry clauses for clean patterns (DESIGN.md C06). Non-trivial = a qualification and (a loss/change of parent or a sequence wrap); distinct by scenario. Part daemon: against the real statime daemon in real time (announce interval 125 ms, observation socket polled every 20 ms): a new, better master on the slave port's segment sends k Announces and falls silent - k = 1 never makes it the parent; k >= 6 makes it the parent within 4 intervals + 0.6 s of its second Announce and it is dropped within 6 intervals + one BMCA period + 0.1 s of its last (the in-process bound; measured 0.42-0.48 s); when the only master falls silent the daemon names itself parent within the same bound and a port that took over names the lost grandmaster in at most two more Announces; the other port announcing eight times slower in half of the daemons; a master with stepsRemoved >= 255 or with the daemon's own clock identity never becomes parent; first sequence ids around 65535 and 0x8000. Part long: one or two masters announcing in every interval (an occasional gap or duplicate every 500-4500 intervals) over 33000-80000 announce intervals - a complete sequence-number cycle 65535->0 plus half of the next - same oracle after every BMCA; non-trivial = qualified and wrap crossed.",
            assumptions: vec!["window slack of one BMCA period (record ages advance in BMCA-period quanta)".into(), "receptions are counted generously on the necessary side (duplicates and stale ids count)".into()],
            min_nontrivial: 100,
        },
        rep,
    )
}

pub fn replay(ctx: &Ctx, path: &str) -> i32 {
    let s = std::fs::read_to_string(path).expect("read replay");
    let v: serde_json::Value = serde_json::from_str(&s).expect("parse");
    if v["part"].as_str() == Some("daemon") {
        return crate::daemon::replay_part(ctx, path, 3);
    }
    if v["part"].as_str() == Some("long") {
        return replay_file(ctx, path, case_long);
    }
    replay_file(ctx, path, case)
}
