#!/bin/bash
# confirm round-3 (daemon) seeds: demo = <m>_demo/RUN.sh (exit 0 = property holds)
for ID in "$@"; do for M in m6 m7 m8; do
  W=/tmp/seed3-$ID; O=/tmp/seed3-$ID-out
  [ -f $O/$M.diff ] || continue
  export CARGO_TARGET_DIR=$W/target CARGO_NET_OFFLINE=true
  cd $W && git checkout -q -- . && git clean -fdq -e target
  ( cd $O/${M}_demo && bash RUN.sh > $O/$M.confirm.clean.log 2>&1 ); A=$?
  git apply $O/$M.diff || { echo "$ID $M apply failed"; continue; }
  cargo build --workspace --offline -j 6 > $O/$M.confirm.build.log 2>&1; BUILD=$?
  cargo test --workspace --no-fail-fast --offline -j 6 > $O/$M.confirm.suite.log 2>&1
  C_FAILED=$(grep -E "^test .* FAILED$" $O/$M.confirm.suite.log | wc -l)
  C_PASSED=$(grep -E "^test .* ok$" $O/$M.confirm.suite.log | wc -l)
  ( cd $O/${M}_demo && bash RUN.sh > $O/$M.confirm.mut.log 2>&1 ); B=$?
  git checkout -q -- . && git clean -fdq -e target
  echo "{\"id\":\"$ID\",\"m\":\"$M\",\"clean_with_demo\":{\"passed\":$([ $A -eq 0 ] && echo 1 || echo 0),\"failed\":$([ $A -eq 0 ] && echo 0 || echo 1),\"exit\":$A},\"mutant_build_rc\":$BUILD,\"mutant_with_demo\":{\"passed\":$([ $B -eq 0 ] && echo 1 || echo 0),\"failed\":$([ $B -eq 0 ] && echo 0 || echo 1),\"exit\":$B,\"failed_names\":\"RUN.sh\"},\"mutant_existing_suite\":{\"passed\":$C_PASSED,\"failed\":$C_FAILED}}" | tee $O/$M.confirm.json
done; done
