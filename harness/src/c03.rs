//! C03 — no input, timing or call order makes the library panic or overflow.
//! Stateful generated histories (and the same grammar decoded from libFuzzer
//! bytes); oracle = every call returns. Run in the checked and the unchecked
//! build profile.

use crate::engine::*;
use crate::hist::*;
use crate::host::*;
use serde_json::json;

pub fn norm(s: &str) -> String {
    // strip numbers and line info so that the signature names the failure class
    let mut out = String::new();
    let mut last_hash = false;
    for c in s.chars() {
        if c.is_ascii_digit() {
            if !last_hash {
                out.push('#');
            }
            last_hash = true;
        } else {
            out.push(c);
            last_hash = false;
        }
    }
    out
}

pub const PROFILE: Profile = Profile { extreme: true, malformed: true, tlvs: true, settings: true, free_timers: true };

pub fn run_history(t: &mut Tape, max_ops: u64, out: &mut CaseOut) {
    let cfg = gen_node_cfg(t, 3, &[FilterKind::Kalman, FilterKind::Basic, FilterKind::Rec]);
    let base_s = *t.pick(&[1_700_000_000u128, 1000, 0, (1u128 << 32) - 1]);
    let rendered_cfg = format!("{:?}", cfg);
    let mut w = match guarded(|| World::new(cfg, base_s)) {
        Ok(w) => w,
        Err(p) => {
            out.fail(format!("panic {}", norm(&p)), format!("during instance/port construction: {}", p));
            return;
        }
    };
    // a clock may refuse adjustments (Clock methods return Result): scripted failures in a third of the histories
    if t.chance(1, 3) {
        let dense = t.bool();
        for _ in 0..60 {
            let f = if dense { t.chance(1, 2) } else { t.chance(1, 8) };
            w.node.clock.borrow_mut().fail.push_back(f);
        }
        out.label("failing-clock");
    }
    let nops = t.urange(1, max_ops);
    let mut states = std::collections::BTreeSet::new();
    let mut accepted = 0u32;
    let mut big = false;
    let mut ops_render = vec![];
    for _ in 0..nops {
        let op = w.gen_op(t, &PROFILE);
        ops_render.push(op.json());
        if let COp::RecvGeneral { data, .. } | COp::RecvEvent { data, .. } = &op {
            if data.len() > 1024 {
                big = true;
            }
            if statime::fuzz::FuzzMessage::deserialize(data).is_ok() {
                accepted += 1;
            }
        }
        let r = guarded(|| w.step(&op));
        if let Err(p) = r {
            out.fail(format!("panic {}", norm(&p)), format!("{} ; during op: {}", p, op.brief()));
            break;
        }
        for s in w.node.states() {
            states.insert(s);
        }
    }
    let lm = lock_mon_take();
    if !lm.nested.is_empty() {
        out.fail("nested lock acquisition", lm.nested.join("; "));
    }
    for s in &states {
        out.label(format!("state:{:?}", s));
    }
    if big {
        out.label("frame>1024");
    }
    out.render = json!({"config": rendered_cfg, "base_s": base_s.to_string(), "ops": ops_render});
    if accepted > 0 && states.iter().any(|s| *s != PS::Listening) {
        out.nontrivial = Some(hash_of(&format!("{:?}", w.ops)));
    }
}

pub fn case(t: &mut Tape) -> CaseOut {
    let mut out = CaseOut::new();
    let max = if std::env::var("VERIF_TIER").map(|v| v == "thorough").unwrap_or(false) { 200 } else { 60 };
    run_history(t, max, &mut out);
    out
}

pub fn run(ctx: &Ctx) -> i32 {
    std::env::set_var("VERIF_TIER", &ctx.tier);
    let mut rep = Report::new();
    run_cases(ctx, &mut rep, "histories", ctx.cases(300_000, 6_000_000), case);
    // hostile input against the real daemon process (once: the daemon binary is the same for both harness builds)
    if ctx.build == "checked" {
        let workers = (ctx.threads as u64 / 2).clamp(2, 8);
        let sum = crate::daemon::run_part(ctx, &mut rep, ctx.cases(3 * workers, 60 * workers), workers);
        if let Some(why) = &sum.skipped {
            println!("note: end-to-end daemon part skipped ({}); the other parts are unaffected", why);
        }
    }
    // replay the committed corpus of saved failing inputs (regression tier)
    let dir = verif_dir().join("corpus").join("C03");
    let mut replayed = 0;
    if let Ok(rd) = std::fs::read_dir(&dir) {
        for e in rd.flatten() {
            if let Ok(s) = std::fs::read_to_string(e.path()) {
                if let Ok(v) = serde_json::from_str::<serde_json::Value>(&s) {
                    if let Some(tape) = v["tape"].as_array() {
                        let tape: Vec<u64> = tape.iter().filter_map(|x| x.as_u64()).collect();
                        let (out, rec) = run_one(&case, tape);
                        replayed += 1;
                        rep.absorb(out, &rec);
                    }
                }
            }
        }
    }
    rep.extra.insert("corpus_replayed".into(), json!(replayed));
    // corpus violations are reported without shrinking
    finish(
        Finish {
            ctx,
            level: "exploration",
            rule: "instances with 1-3 ports in every configuration (E2E/P2P, path trace, slave-only, master-only, acceptable-master list, minor version, log intervals, asymmetry; Kalman/Basic/recording filter; daemon forwarder / literal-contract TLV provider); histories of <= 60 (thorough 200) host calls drawn online from: well-formed protocol traffic relative to the port's observed state (so that Slave/Master/Passive/Faulty and half-collected exchanges are reached), boundary-lattice fields (corrections to +-2^63, stepsRemoved to 65535, timestamps over [0,2^63 ns) and wire timestamps to 2^48 s / 2^32-1 ns, TLV sizes around the 960-byte announce room, path traces of 0..200 identities, frames to 2048 bytes), mutated and raw frames, timers in any order, transmit timestamps in any order, BMCA with permuted port order, run-time quality / slave-only changes. Oracle: every call returns (panic hook + catch_unwind), no nested lock acquisition. Part daemon (checked run only): 200-1500 frames per case thrown at both ports of the real statime daemon (private network namespace, Ethernet and UDP/IPv4 transport): random well-formed messages of every type, mutated frames, raw bytes of 0..1400 octets, messages the daemon has a use for (from its parent, a requester or itself) with edge values, and about once in 120 frames a well-formed Announce of the parent filled to the 1024-byte receive buffer with a PATH_TRACE of 8..118 identities or 10..238 propagating TLVs, followed by a BMCA period and an observation query; afterwards the daemon must be alive, back in (Slave, Master), announcing, answering a fresh Delay_Req and its observation socket within 10 s. Non-trivial = some port left Listening and >= 1 frame was accepted by the parser; distinct by op list.",
            assumptions: vec![
                "host contract honoured by construction: each TimestampContext returned at most once, bmca gets all ports, frames <= 2048 bytes (event channel <= 1024), timestamps < 2^63 ns, |log interval| <= 4, receipt timeout 2..10".into(),
                format!("build profile: {}", ctx.build),
            ],
            min_nontrivial: 100,
        },
        rep,
    )
}

pub fn replay(ctx: &Ctx, path: &str) -> i32 {
    std::env::set_var("VERIF_TIER", &ctx.tier);
    let part = std::fs::read_to_string(path).ok().and_then(|s| serde_json::from_str::<serde_json::Value>(&s).ok()).and_then(|v| v["part"].as_str().map(|x| x.to_string()));
    if part.as_deref() == Some("daemon") {
        return crate::daemon::replay_part(ctx, path, 3);
    }
    replay_file(ctx, path, case)
}
