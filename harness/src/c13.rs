//! C13 — clock control commands stay finite and within configured bounds.

use crate::engine::*;
use crate::hist::*;
use crate::host::*;
use serde_json::json;
use statime::filters::{BasicFilter, Filter, KalmanConfiguration, KalmanFilter};
use statime::port::Measurement;
use statime::time::Duration;
use std::cell::RefCell;
use std::rc::Rc;

const NS: i128 = 1_000_000_000;

fn dur_s(s: f64) -> Duration {
    Duration::from_seconds(s)
}

fn gen_kalman_cfg(t: &mut Tape) -> KalmanConfiguration {
    let mut c = KalmanConfiguration::default();
    if t.chance(1, 2) || std::env::var("VERIF_C13_DEFAULT").is_ok() {
        return c;
    }
    c.step_threshold = dur_s(*t.pick(&[1e-3, 1e-6, 1e-2, 1.0, 5e-4]));
    c.deadzone = *t.pick(&[0.0, 1.0, 3.0]);
    c.steer_time = dur_s(*t.pick(&[2.0, 0.5, 10.0, 0.01]));
    c.max_steer = *t.pick(&[200.0, 1.0, 1000.0, 50.0]);
    c.max_freq_offset = *t.pick(&[400.0, 1.0, 1000.0, 100.0, 10.0]);
    c.initial_frequency_uncertainty = *t.pick(&[100e-6, 1e-6, 1e-3]);
    c.initial_wander = *t.pick(&[1e-16, 1e-12, 1e-20]);
    c.delay_wander = *t.pick(&[1e-4 / 3600.0, 1e-6, 1e-2]);
    c.precision_hysteresis = *t.pick(&[16u8, 1, 100]);
    c.estimate_threshold = dur_s(*t.pick(&[0.2, 0.01, 5.0]));
    c.difference_estimation_boundary = *t.pick(&[4usize, 1, 8]);
    c.statistical_estimation_boundary = *t.pick(&[8usize, 4, 16]);
    c.peer_delay_factor = *t.pick(&[2.0, 1.0, 4.0]);
    c
}

#[derive(Clone, Debug)]
enum Step {
    Sync { dt_ns: i128, jitter: i128 },
    Delay { dt_ns: i128, jitter: i128 },
    Peer { dt_ns: i128, jitter: i128 },
    Repeat,          // hand the previous measurement to the filter again (identical sample, equal event time)
    SameTime,        // new sample kind at exactly the previous event time
    Backwards(i128), // event time runs backwards by this many ns
    Update,
    JumpOffset(i128), // the true offset jumps (ns)
}

struct SeqOut {
    labels: Vec<&'static str>,
    rendered: Vec<String>,
}

/// Drive one filter with a generated measurement sequence; returns the clock log.
fn drive<F: Filter>(t: &mut Tape, mut filter: F, maxlen: u64, kalman: Option<&KalmanConfiguration>, out: &mut CaseOut) -> (Vec<ClockCall>, SeqOut) {
    let shared = Rc::new(RefCell::new(SimClock::new((1_700_000_000i128 * NS) << 32, 0.0)));
    let mut clock = PClock { shared: shared.clone(), port: 1 };
    // scripted failures
    let nfail = t.weighted(&[3, 1, 1]);
    if nfail > 0 {
        let n = 40;
        for _ in 0..n {
            let f = if nfail == 1 { t.chance(1, 8) } else { t.chance(1, 2) };
            shared.borrow_mut().fail.push_back(f);
        }
    }
    // physical situation
    let mut theta: i128 = match t.weighted(&[2, 2, 2, 1, 1]) {
        0 => 0,
        1 => t.log_i128(20),        // up to ~1 ms
        2 => t.log_i128(34),        // up to ~17 s
        3 => t.log_i128(60),        // up to ~1e9 s
        _ => *t.pick(&[NS * 1_000_000_000, -NS * 1_000_000_000, 999_999, -1_000_001]),
    };
    let drift_ppb: i128 = t.range(-200_000, 200_000) as i128;
    let delay: i128 = match t.weighted(&[3, 1, 1]) {
        0 => t.range(1_000, 400_000) as i128,
        1 => 0,
        _ => t.range(0, 50_000_000) as i128,
    };
    let mut now: i128 = 1_700_000_000 * NS + t.below(1_000_000_000) as i128; // local event time (ns)
    let n = t.urange(1, maxlen);
    let mut last: Option<Measurement> = None;
    let mut so = SeqOut { labels: vec![], rendered: vec![] };
    let mk_time = |ns: i128| time_from_bits((ns.max(0) as u128) << 32);
    let mk_dur = |ns: i128| dur_from_bits(ns << 32);
    for _ in 0..n {
        let step = match t.weighted(&[8, 6, 2, 2, 2, 1, 3, 1]) {
            0 => Step::Sync { dt_ns: gen_dt(t), jitter: gen_jit(t) },
            1 => Step::Delay { dt_ns: gen_dt(t), jitter: gen_jit(t) },
            2 => Step::Peer { dt_ns: gen_dt(t), jitter: gen_jit(t) },
            3 => Step::Repeat,
            4 => Step::SameTime,
            5 => Step::Backwards(t.range(1, 5_000_000_000) as i128),
            6 => Step::Update,
            _ => Step::JumpOffset(t.log_i128(50)),
        };
        so.rendered.push(format!("{:?}", step));
        let m: Option<Measurement> = match &step {
            Step::Sync { dt_ns, jitter } | Step::Delay { dt_ns, jitter } | Step::Peer { dt_ns, jitter } => {
                now += dt_ns;
                theta += drift_ppb * dt_ns / 1_000_000_000;
                let mut m = Measurement::default();
                m.event_time = mk_time(now);
                match step {
                    Step::Sync { .. } => {
                        let raw = delay + theta + jitter;
                        m.raw_sync_offset = Some(mk_dur(raw));
                        m.offset = Some(mk_dur(raw - delay));
                    }
                    Step::Delay { .. } => {
                        let raw = theta - delay + jitter;
                        m.raw_delay_offset = Some(mk_dur(raw));
                        m.delay = Some(mk_dur(delay + jitter / 2));
                    }
                    _ => {
                        m.peer_delay = Some(mk_dur(delay + jitter));
                    }
                }
                Some(m)
            }
            Step::Repeat => {
                so.labels.push("identical-sample");
                last
            }
            Step::SameTime => {
                so.labels.push("equal-event-time");
                last.map(|l| {
                    let mut m = Measurement::default();
                    m.event_time = l.event_time;
                    if l.raw_sync_offset.is_some() {
                        m.raw_delay_offset = Some(mk_dur(theta - delay));
                        m.delay = Some(mk_dur(delay));
                    } else {
                        m.raw_sync_offset = Some(mk_dur(theta + delay));
                        m.offset = Some(mk_dur(theta));
                    }
                    m
                })
            }
            Step::Backwards(b) => {
                so.labels.push("time-backwards");
                now -= b;
                let mut m = Measurement::default();
                m.event_time = mk_time(now);
                m.raw_sync_offset = Some(mk_dur(delay + theta));
                m.offset = Some(mk_dur(theta));
                Some(m)
            }
            Step::Update => None,
            Step::JumpOffset(j) => {
                theta += j;
                None
            }
        };
        // the event time minus the offset must not be negative (physically consistent input)
        if let Some(m) = &m {
            if let Some(o) = m.offset {
                if (tbits(m.event_time) as i128) < dbits(o) {
                    continue;
                }
            }
        }
        // the clock's notion of "now" follows the event times
        shared.borrow_mut().set_true(((now - 1_700_000_000 * NS).max(0)) << 32);
        let before = shared.borrow().calls.len();
        let r = guarded(|| match (&step, m) {
            (Step::Update, _) => {
                filter.update(&mut clock);
            }
            (_, Some(m)) => {
                filter.measurement(m, &mut clock);
            }
            _ => {}
        });
        if let Some(m) = m {
            last = Some(m);
        }
        if let Err(p) = r {
            out.fail(format!("servo panicked: {}", crate::c03::norm(&p)), format!("{} ; sequence {:?}", p, so.rendered));
            break;
        }
        // the corrections applied by the servo feed back into later measurements
        {
            let c = shared.borrow();
            for call in c.calls.iter().skip(before) {
                if !call.ok {
                    so.labels.push("failing-clock-call");
                    continue;
                }
                match &call.op {
                    ClockOp::Step(bits) => {
                        theta += bits >> 32;
                        now += bits >> 32;
                        so.labels.push("step");
                    }
                    ClockOp::SetFrequency(_) => {}
                    _ => {}
                }
            }
        }
        let est = guarded(|| {
            let e = filter.current_estimates();
            (dbits(e.offset_from_master), dbits(e.mean_delay))
        });
        if let Err(p) = est {
            out.fail(format!("current_estimates panicked: {}", crate::c03::norm(&p)), format!("{} ; sequence {:?}", p, so.rendered));
            break;
        }
    }
    let calls = shared.borrow().calls.clone();
    // bounds
    for c in &calls {
        match &c.op {
            ClockOp::SetFrequency(f) => {
                if !f.is_finite() {
                    out.fail("non-finite frequency programmed into the clock", format!("{} ; sequence {:?}", f, so.rendered));
                } else if let Some(k) = kalman {
                    if f.abs() > k.max_freq_offset * (1.0 + 1e-12) {
                        out.fail("frequency beyond the configured maximum frequency offset", format!("{} ppm > {} ; sequence {:?}", f, k.max_freq_offset, so.rendered));
                    }
                    if f.abs() >= k.max_freq_offset * (1.0 - 1e-9) {
                        so.labels.push("clamped");
                    }
                }
            }
            ClockOp::Step(bits) => {
                if let Some(k) = kalman {
                    let thr = dbits(k.step_threshold);
                    if bits.abs() < thr - (1i128 << 32) {
                        out.fail("Kalman servo stepped the clock by less than the step threshold", format!("{} < {} (2^-32 ns) ; sequence {:?}", bits, thr, so.rendered));
                    }
                }
            }
            _ => {}
        }
    }
    (calls, so)
}

fn gen_dt(t: &mut Tape) -> i128 {
    match t.weighted(&[4, 2, 1, 1, 1]) {
        0 => t.range(1_000_000, 2_000_000_000) as i128,
        1 => t.range(1, 1_000_000) as i128,
        2 => 0,
        3 => t.range(2_000_000_000, 600_000_000_000) as i128,
        _ => 125_000_000,
    }
}
fn gen_jit(t: &mut Tape) -> i128 {
    match t.weighted(&[3, 3, 1]) {
        0 => 0,
        1 => t.range(-20_000, 20_000) as i128,
        _ => t.log_i128(40),
    }
}

fn case_kalman(t: &mut Tape) -> CaseOut {
    let mut out = CaseOut::new();
    let cfg = gen_kalman_cfg(t);
    let maxlen = if std::env::var("VERIF_TIER").map(|v| v == "thorough").unwrap_or(false) { 1000 } else { 200 };
    let f = KalmanFilter::new(cfg);
    let (calls, so) = drive(t, f, maxlen, Some(&cfg), &mut out);
    finish_seq(&mut out, "kalman", format!("{:?}", cfg), calls, so);
    out
}

fn case_basic(t: &mut Tape) -> CaseOut {
    let mut out = CaseOut::new();
    let gain = *t.pick(&[0.25f64, 1.0, 0.5, 0.01, 1e-6, 0.999]);
    let f = BasicFilter::new(gain);
    let (calls, so) = drive(t, f, 120, None, &mut out);
    finish_seq(&mut out, "basic", format!("gain {}", gain), calls, so);
    out
}

fn finish_seq(out: &mut CaseOut, kind: &str, cfg: String, calls: Vec<ClockCall>, so: SeqOut) {
    let mut nt = false;
    let mut labels: Vec<&str> = so.labels.clone();
    labels.sort();
    labels.dedup();
    for l in &labels {
        out.label(format!("{}:{}", kind, l));
        nt = true;
    }
    if calls.iter().any(|c| matches!(c.op, ClockOp::SetFrequency(_))) {
        out.label(format!("{}:frequency-command", kind));
    }
    out.render = json!({"filter": kind, "config": cfg, "sequence": so.rendered.iter().take(60).collect::<Vec<_>>(), "clock_calls": calls.len()});
    if nt {
        out.nontrivial = Some(hash_of(&so.rendered));
    }
}

/// port level: when a port stops being slave its servo issues at most one final
/// frequency command within the bound, none thereafter
fn case_port(t: &mut Tape) -> CaseOut {
    let mut out = CaseOut::new();
    let mut cfg = gen_node_cfg(t, 2, &[FilterKind::Kalman]);
    cfg.path_trace = false;
    let kcfg = gen_kalman_cfg(t);
    cfg.kalman = Some(kcfg);
    let mut w = World::new(cfg, 1_700_000_000);
    if t.chance(1, 3) {
        for _ in 0..30 {
            let f = t.chance(1, 3);
            w.node.clock.borrow_mut().fail.push_back(f);
        }
    }
    let prof = Profile { extreme: false, malformed: false, tlvs: false, settings: true, free_timers: true };
    let nops = t.urange(5, 60);
    let mut seen = 0usize;
    let mut left_slave = false;
    for _ in 0..nops {
        let op = w.gen_op(t, &prof);
        let before = w.node.states();
        w.step(&op);
        let after = w.node.states();
        let clock = w.node.clock.borrow();
        for p in 0..before.len() {
            let calls: Vec<&ClockCall> = clock.calls.iter().skip(seen).filter(|c| c.port as usize == p + 1).collect();
            let nfreq = calls.iter().filter(|c| matches!(c.op, ClockOp::SetFrequency(_))).count();
            if before[p] == PS::Slave && after[p] != PS::Slave {
                left_slave = true;
                if nfreq > 1 || calls.iter().any(|c| matches!(c.op, ClockOp::Step(_))) {
                    out.fail("more than one final clock command when the port stopped being slave", format!("port {} {:?}->{:?} calls {:?} during {}", p + 1, before[p], after[p], calls, op.brief()));
                }
            }
            if before[p] != PS::Slave && after[p] != PS::Slave && calls.iter().any(|c| !matches!(c.op, ClockOp::SetProperties)) {
                out.fail("servo command after the port stopped being slave", format!("port {} {:?} calls {:?} during {}", p + 1, after[p], calls, op.brief()));
            }
            for c in &calls {
                if let ClockOp::SetFrequency(f) = c.op {
                    if !f.is_finite() || f.abs() > kcfg.max_freq_offset * (1.0 + 1e-12) {
                        out.fail("frequency command not finite / beyond the configured maximum", format!("{} (max {}) during {}", f, kcfg.max_freq_offset, op.brief()));
                    }
                }
            }
        }
        seen = clock.calls.len();
        drop(clock);
        if out.violation.is_some() {
            break;
        }
    }
    lock_mon_take();
    out.render = json!({"kalman": format!("{:?}", kcfg), "ops": w.ops.iter().map(|o| o.brief()).collect::<Vec<_>>()});
    if left_slave {
        out.label("port:left-slave");
        out.nontrivial = Some(hash_of(&format!("{:?}", w.ops)));
    }
    out
}

pub fn run(ctx: &Ctx) -> i32 {
    std::env::set_var("VERIF_TIER", &ctx.tier);
    let mut rep = Report::new();
    run_cases(ctx, &mut rep, "kalman", ctx.cases(400_000, 8_000_000), case_kalman);
    run_cases(ctx, &mut rep, "basic", ctx.cases(300_000, 6_000_000), case_basic);
    run_cases(ctx, &mut rep, "port", ctx.cases(150_000, 4_000_000), case_port);
    // the real servo steering the real (overlay) clock of the daemon, against a grandmaster that may drift faster
    // than the servo is allowed to follow
    let workers = (ctx.threads as u64 / 2).clamp(2, 8);
    let sum = crate::daemon::run_part(ctx, &mut rep, ctx.cases(workers, 8 * workers), workers);
    if let Some(why) = &sum.skipped {
        println!("note: end-to-end daemon part skipped ({}); the other parts are unaffected", why);
    }
    finish(
        Finish {
            ctx,
            level: "exploration",
            rule: "(kalman/basic) the filter is driven directly with generated, physically consistent measurement sequences (<= 200, thorough 1000 steps): sync / delay / peer-delay samples derived from a simulated offset (0 .. +-1e9 s), drift and path delay, with jitter, repeated identical samples, a different sample kind at exactly the same event time, event times running backwards, dt = 0, offset jumps, interleaved update() calls; Kalman configurations drawn around the default (positive thresholds and bounds, max_freq_offset 1..1000 ppm), BasicFilter gains in (0,1]; the clock fails set_frequency/step_clock on a generated schedule and the applied steps feed back into later samples. Oracle: every frequency finite and within +-max_freq_offset, every Kalman step >= step threshold - 1 ns, no panic (a non-finite value panics when converted to Duration), current_estimates() finite. (port) C08-style histories with the Kalman filter: at most one final frequency command (within the bound) in the call in which a port stops being slave and none afterwards. (daemon) the real statime daemon slaved for 20 s to a grandmaster played by the harness whose clock is offset by up to 0.5 s and drifts by up to +-300 ppm or by +-500..900 ppm (beyond the 400 ppm the servo may program); the daemon's clock is an overlay over the system clock, so daemon clock minus system clock, sampled from the Follow_Ups of the daemon's master port against kernel receive timestamps, has the programmed frequency as its slope and the steps as its jumps: every least-squares slope over a jump-free window of >= 3 s must be within +-415 ppm, every jump at least 0.85 ms. Non-trivial = the sequence contains an irregularity (identical sample, equal event time, time backwards, failing clock call) or a step / the port left slave; distinct by sequence.",
            assumptions: vec!["samples whose event time minus offset would be negative are skipped (physically impossible)".into()],
            min_nontrivial: 100,
        },
        rep,
    )
}

pub fn replay(ctx: &Ctx, path: &str) -> i32 {
    std::env::set_var("VERIF_TIER", &ctx.tier);
    let s = std::fs::read_to_string(path).expect("read replay");
    let v: serde_json::Value = serde_json::from_str(&s).expect("parse");
    match v["part"].as_str().unwrap_or("kalman") {
        "daemon" => crate::daemon::replay_part(ctx, path, 2),
        "basic" => replay_file(ctx, path, case_basic),
        "port" => replay_file(ctx, path, case_port),
        _ => replay_file(ctx, path, case_kalman),
    }
}
