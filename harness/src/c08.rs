//! C08 — ports act only within their role; at most one port steers the clock.

use crate::engine::*;
use crate::hist::*;
use crate::host::*;
use crate::refcodec::*;
use serde_json::json;

pub const PROFILE: Profile = Profile { extreme: false, malformed: false, tlvs: false, settings: true, free_timers: true };

pub struct RoleMonitor {
    slave_only_from_start: bool,
    /// Some(n): SetSlaveOnly(true) seen, n BMCA runs completed since
    runtime_slave_only: Option<u32>,
    calls_seen: usize,
    ever_cleared: bool,
}

impl RoleMonitor {
    pub fn new(node: &Node) -> Self {
        RoleMonitor { slave_only_from_start: node.cfg.slave_only, runtime_slave_only: None, calls_seen: node.clock.borrow().calls.len(), ever_cleared: false }
    }

    /// check one executed op; `before` are the port states before it
    pub fn check(&mut self, node: &Node, op: &COp, before: &[PS], res: &[(usize, Vec<OAction>)], out: &mut CaseOut) {
        let after = node.states();
        if after.iter().filter(|s| **s == PS::Slave).count() > 1 {
            out.fail("more than one port in the slave state", format!("{:?} after {}", after, op.brief()));
        }
        for p in 0..node.nports() {
            if node.is_steering(p) != (after[p] == PS::Slave) {
                out.fail("is_steering disagrees with the port state", format!("port {} {:?}", p + 1, after[p]));
            }
            if node.cfg.ports[p].master_only && after[p] == PS::Slave {
                out.fail("master-only port is slave", format!("port {} after {}", p + 1, op.brief()));
            }
            if self.slave_only_from_start && after[p] == PS::Master && !self.ever_cleared {
                out.fail("instance configured slave-only has a master port", format!("port {} after {}", p + 1, op.brief()));
            }
            if let Some(n) = self.runtime_slave_only {
                if n >= 1 && after[p] == PS::Master {
                    out.fail("port is master although slave-only was switched on and a BMCA has completed", format!("port {} after {}", p + 1, op.brief()));
                }
            }
        }
        // clock control attribution
        let clock = node.clock.borrow();
        for c in clock.calls.iter().skip(self.calls_seen) {
            if matches!(c.op, ClockOp::SetProperties) {
                continue;
            }
            let p = c.port as usize - 1;
            if before[p] != PS::Slave && after[p] != PS::Slave {
                out.fail("clock adjusted by a port that is not the slave port", format!("port {} ({:?}->{:?}) {:?} during {}", c.port, before[p], after[p], c.op, op.brief()));
            }
        }
        self.calls_seen = clock.calls.len();
        drop(clock);
        // emissions
        for (p, acts) in res {
            for a in acts {
                let data = match a {
                    OAction::SendEvent { data, .. } | OAction::SendGeneral { data, .. } => data,
                    _ => continue,
                };
                let Ok(m) = decode(data) else {
                    out.fail("emitted frame not decodable", "");
                    continue;
                };
                match m.header.msg_type {
                    T_ANNOUNCE | T_SYNC | T_FOLLOW_UP | T_DELAY_RESP => {
                        if before[*p] != PS::Master {
                            out.fail(format!("{} emitted by a port that is not master", type_name(m.header.msg_type)), format!("port {} state {:?} during {}", p + 1, before[*p], op.brief()));
                        }
                    }
                    T_DELAY_REQ => {
                        if before[*p] != PS::Slave {
                            out.fail("Delay_Req emitted by a port that is not the slave port", format!("port {} state {:?} during {}", p + 1, before[*p], op.brief()));
                        }
                    }
                    _ => {}
                }
            }
        }
        match op {
            COp::SetSlaveOnly(true) => {
                if self.runtime_slave_only.is_none() {
                    self.runtime_slave_only = Some(0)
                }
            }
            COp::SetSlaveOnly(false) => {
                self.runtime_slave_only = None;
                self.ever_cleared = true;
            }
            COp::Bmca { .. } => {
                if let Some(n) = self.runtime_slave_only.as_mut() {
                    *n += 1;
                }
            }
            _ => {}
        }
    }
}

pub fn case_with(t: &mut Tape, max_ops: u64) -> CaseOut {
    let mut out = CaseOut::new();
    let mut cfg = gen_node_cfg(t, 3, &[FilterKind::Kalman, FilterKind::Basic]);
    cfg.path_trace = false;
    let rendered_cfg = format!("slave_only={} class={} ports={:?}", cfg.slave_only, cfg.class, cfg.ports.iter().map(|p| (p.p2p, p.master_only, p.aml.is_some())).collect::<Vec<_>>());
    let mut w = World::new(cfg, 1_700_000_000);
    let mut mon = RoleMonitor::new(&w.node);
    let nops = t.urange(1, max_ops);
    let mut visited = std::collections::BTreeSet::new();
    let mut runtime_so = false;
    for _ in 0..nops {
        let op = w.gen_op(t, &PROFILE);
        if matches!(op, COp::SetSlaveOnly(_)) {
            runtime_so = true;
        }
        let before = w.node.states();
        let res = w.step(&op);
        mon.check(&w.node, &op, &before, &res, &mut out);
        for (p, s) in w.node.states().iter().enumerate() {
            visited.insert(*s);
            if before[p] != *s {
                out.label(format!("{:?}->{:?}", before[p], s));
            }
        }
        if !w.node.monitor.is_empty() {
            out.fail("monitor", w.node.monitor.join("; "));
        }
        if out.violation.is_some() {
            break;
        }
    }
    let lm = lock_mon_take();
    if !lm.nested.is_empty() {
        out.fail("nested lock acquisition", lm.nested.join("; "));
    }
    out.render = json!({"config": rendered_cfg, "ops": w.ops.iter().map(|o| o.brief()).collect::<Vec<_>>()});
    if (w.node.nports() >= 2 && visited.len() >= 2) || runtime_so {
        out.nontrivial = Some(hash_of(&format!("{:?}", w.ops)));
    }
    out
}

pub fn case(t: &mut Tape) -> CaseOut {
    let max = if std::env::var("VERIF_TIER").map(|v| v == "thorough").unwrap_or(false) { 120 } else { 40 };
    case_with(t, max)
}

pub fn run(ctx: &Ctx) -> i32 {
    std::env::set_var("VERIF_TIER", &ctx.tier);
    let mut rep = Report::new();
    run_cases(ctx, &mut rep, "histories", ctx.cases(200_000, 5_000_000), case);
    // the real daemon: what each port sends on its segment against the state the daemon reports for that port
    let workers = (ctx.threads as u64 / 2).clamp(2, 8);
    let sum = crate::daemon::run_part(ctx, &mut rep, ctx.cases(2 * workers, 16 * workers), workers);
    if let Some(why) = &sum.skipped {
        println!("note: end-to-end daemon part skipped ({}); the other parts are unaffected", why);
    }
    finish(
        Finish {
            ctx,
            level: "exploration",
            rule: "instances with 1-3 ports in every combination of master-only, slave-only (from start or toggled at run time), E2E/P2P, acceptable-master lists, Kalman/Basic filter; histories <= 40 (thorough 120) ops over timers (armed or not), BMCA with permuted port order, well-formed Announces from better/best/worse/own-instance/unacceptable masters (consecutive, duplicate and stale sequence ids), Sync/Follow_Up/Delay_Resp/Pdelay traffic from the parent and from others, transmit timestamps (possibly late / after a state change), SetSlaveOnly, SetClockQuality; every clock call is attributed to the calling port. Invariants after every op (DESIGN.md C08). Non-trivial = >= 2 ports and >= 2 distinct port states visited, or a run-time SetSlaveOnly; distinct by op list. Part daemon: the real statime daemon with two ports between two masters played by the harness (P on the first segment, priority1 100; Q on the second, priority1 50 or 120) that come and go in 3-6 generated phases of 0.7-1.5 s, so that the ports change roles; the observation socket is polled every 20 ms and every frame the daemon sends is noted with its segment; never two slave ports; Announce/Sync/Follow_Up/Delay_Resp on a segment only while that port is, or within 200 ms becomes or was, master; no Delay_Req from a port that is master throughout the surrounding 400 ms; workers 4-7 run a slave-only instance (never a master port, never master traffic), a master-only port on either segment (never slave, never a Delay_Req), or both. Non-trivial there = >= 2 distinct port states among the observations of the case.",
            assumptions: vec!["Clock::set_properties is not counted as adjusting the clock".into(), "emission rules use the port state at the moment of the call".into()],
            min_nontrivial: 100,
        },
        rep,
    )
}

pub fn replay(ctx: &Ctx, path: &str) -> i32 {
    std::env::set_var("VERIF_TIER", &ctx.tier);
    let s = std::fs::read_to_string(path).expect("read replay");
    let v: serde_json::Value = serde_json::from_str(&s).expect("parse");
    if v["part"].as_str() == Some("daemon") {
        return crate::daemon::replay_part(ctx, path, 2);
    }
    replay_file(ctx, path, case)
}
