//! C09 — offset and delay measurements use one matching exchange, exactly.
//! Schedule generation/enumeration over message deliveries + an exact integer
//! oracle of the legitimate single-exchange values.

use crate::engine::*;
use crate::host::*;
use crate::refcodec::*;
use serde_json::json;
use statime::port::Measurement;

const NS: u128 = 1_000_000_000;

#[derive(Clone, Debug)]
pub struct SyncEx {
    seq: u16,
    one_step: bool,
    t1: RTs,        // origin (one-step) / preciseOrigin (two-step)
    corr_sync: i64, // 2^-16 ns
    corr_fup: i64,
}

#[derive(Clone, Debug)]
pub enum Op {
    Sync { ex: usize, t2: u128, from_parent: bool },
    Fup { ex: usize, from_parent: bool },
    DelayTimer,
    ReturnTx { which: usize, t3: u128 }, // index into outstanding contexts (oldest first), modulo
    Resp { which: usize, t4: RTs, corr: i64, from_parent: bool, for_me: bool, seq_delta: i32 },
    SwitchParent,
    LeaveSlave,
}

#[derive(Clone, Debug)]
pub struct Scenario {
    asym: i128,
    reply: MeanDelayReply,
    exs: Vec<SyncEx>,
    prelude_delay_fires: u32,
    prelude_return_late: bool,
    ops: Vec<Op>,
}

fn gen_t_bits(t: &mut Tape, base_s: u128) -> u128 {
    let ns = base_s * NS + t.below(2_000_000_000) as u128;
    let ns = if t.chance(1, 8) { (ns / NS) * NS + *t.pick(&[0u128, 1, 999_999_999]) } else { ns };
    let frac = match t.weighted(&[1, 3, 1]) {
        0 => 0,
        1 => t.below(1 << 32) as u128,
        _ => *t.pick(&[1u128, (1 << 16) - 1, 1 << 16, (1u128 << 32) - 1]),
    };
    (ns << 32) | frac
}

fn gen_corr(t: &mut Tape) -> i64 {
    match t.weighted(&[2, 3, 2, 1]) {
        0 => 0,
        1 => t.log_i128(30) as i64,
        2 => t.log_i128(50) as i64,
        _ => t.log_i128(60) as i64,
    }
}

fn gen_scenario(t: &mut Tape) -> Scenario {
    let base_s: u128 = match t.weighted(&[3, 1, 1, 1]) {
        0 => 1_700_000_000,
        1 => 300_000 + t.below(1000) as u128,
        2 => (1u128 << 32) - 1,
        _ => (1u128 << 47) + t.below(1 << 40) as u128,
    };
    let asym = match t.weighted(&[2, 1, 1]) {
        0 => 0,
        1 => t.log_i128(50),
        _ => *t.pick(&[1i128 << 32, -(1i128 << 32), 12345 << 20]),
    };
    let reply = match t.weighted(&[2, 1, 1]) {
        0 => MeanDelayReply::Echo,
        1 => MeanDelayReply::Never,
        _ => MeanDelayReply::Fixed(t.log_i128(50)),
    };
    let s0 = match t.weighted(&[2, 2]) {
        0 => t.below(0x10000) as u16,
        _ => 65534 + t.below(2) as u16,
    };
    let nex = t.urange(1, 3) as usize;
    let mut exs = vec![];
    for i in 0..nex {
        let ns = base_s * NS + t.below(2_000_000_000) as u128;
        exs.push(SyncEx {
            seq: s0.wrapping_add(i as u16),
            one_step: t.chance(1, 3),
            t1: RTs::from_ns(ns),
            corr_sync: gen_corr(t),
            corr_fup: gen_corr(t),
        });
    }
    let (prelude, late) = if t.chance(1, 16) { (65_530 + t.below(7) as u32, t.bool()) } else { (0, false) };
    let n = t.urange(1, 14);
    let mut ops = vec![];
    for _ in 0..n {
        let op = match t.weighted(&[5, 5, 4, 4, 5, 1, 1]) {
            0 => Op::Sync { ex: t.below(nex as u64) as usize, t2: gen_t_bits(t, base_s), from_parent: !t.chance(1, 8) },
            1 => Op::Fup { ex: t.below(nex as u64) as usize, from_parent: !t.chance(1, 8) },
            2 => Op::DelayTimer,
            3 => Op::ReturnTx { which: t.below(3) as usize, t3: gen_t_bits(t, base_s) },
            4 => Op::Resp {
                which: t.below(3) as usize,
                t4: RTs::from_ns(base_s * NS + t.below(2_000_000_000) as u128),
                corr: gen_corr(t),
                from_parent: !t.chance(1, 8),
                for_me: !t.chance(1, 8),
                seq_delta: if t.chance(1, 6) { *t.pick(&[-1, 1, 2]) } else { 0 },
            },
            5 => Op::SwitchParent,
            _ => Op::LeaveSlave,
        };
        ops.push(op);
    }
    Scenario { asym, reply, exs, prelude_delay_fires: prelude, prelude_return_late: late, ops }
}

struct Model {
    parent: PortId,
    sync_del: Vec<(usize, u128)>, // (exchange index, t2) from current parent
    fup_del: Vec<usize>,
    reqs: Vec<(u16, usize, Option<u128>)>, // (seq, ctx handle, returned t3)
    resp_del: Vec<(u16, RTs, i64)>,
    mean_delay: Option<i128>,
    last_raw_sync: Option<i128>,
    slave: bool,
}

fn sync_candidates(sc: &Scenario, m: &Model) -> Vec<(u128, i128)> {
    // (event_time bits, raw_sync bits)
    let mut v = vec![];
    for (ex, t2) in &m.sync_del {
        let e = &sc.exs[*ex];
        let ev = *t2 as i128 - ((e.corr_sync as i128) << 16);
        if ev < 0 {
            continue;
        }
        if e.one_step {
            let send = (e.t1.total_ns() as i128) << 32;
            v.push((ev as u128, ev - send - sc.asym));
        } else if m.fup_del.contains(ex) {
            let send = ((e.t1.total_ns() as i128) << 32) + ((e.corr_fup as i128) << 16);
            v.push((ev as u128, ev - send - sc.asym));
        }
    }
    v
}

fn delay_candidates(sc: &Scenario, m: &Model) -> Vec<(u128, i128)> {
    let mut v = vec![];
    for (seq, _, t3) in &m.reqs {
        let Some(t3) = t3 else { continue };
        for (rseq, t4, corr) in &m.resp_del {
            if rseq == seq {
                let recv = ((t4.total_ns() as i128) << 32) - ((*corr as i128) << 16);
                v.push((*t3, *t3 as i128 - recv - sc.asym));
            }
        }
    }
    v
}

fn check_measurement(sc: &Scenario, model: &mut Model, m: &Measurement, out: &mut CaseOut) {
    let ev = tbits(m.event_time);
    if !model.slave {
        out.fail("measurement handed to the filter while the port is not slave", format!("{:?}", m));
        return;
    }
    if m.peer_delay.is_some() {
        out.fail("peer delay measurement on an end-to-end port", format!("{:?}", m));
        return;
    }
    match (m.raw_sync_offset, m.raw_delay_offset) {
        (Some(rs), None) => {
            let rs = dbits(rs);
            let cands = sync_candidates(sc, model);
            if !cands.iter().any(|(e, r)| *e == ev && *r == rs) {
                out.fail("offset measurement is not the formula of one Sync(/Follow_Up) exchange from the parent", format!("event {} raw_sync {} ; legitimate (event,raw) pairs: {:?}", ev, rs, cands));
                return;
            }
            let want_off = model.mean_delay.map(|d| rs - d);
            if m.offset.map(dbits) != want_off {
                out.fail("offset != raw sync offset - current mean delay", format!("offset {:?} want {:?}", m.offset.map(dbits), want_off));
            }
            if m.delay.is_some() {
                out.fail("sync measurement carries a delay", "");
            }
            model.last_raw_sync = Some(rs);
        }
        (None, Some(rd)) => {
            let rd = dbits(rd);
            let cands = delay_candidates(sc, model);
            if !cands.iter().any(|(e, r)| *e == ev && *r == rd) {
                out.fail("delay measurement is not the formula of one Delay_Req/Delay_Resp exchange with matching sequence number", format!("event {} raw_delay {} ; legitimate: {:?}", ev, rd, cands));
                return;
            }
            match (m.delay.map(dbits), model.last_raw_sync) {
                (None, None) => {}
                (Some(d), Some(ls)) => {
                    let exact2 = ls - rd; // 2*delay
                    if (2 * d - exact2).abs() > 2 {
                        out.fail("delay != (last raw sync offset - raw delay offset)/2", format!("delay {} want {}/2", d, exact2));
                    }
                }
                (a, b) => out.fail("delay presence does not match availability of a sync measurement from this parent", format!("delay {:?} last_raw_sync {:?}", a, b)),
            }
            if m.offset.is_some() {
                out.fail("delay measurement carries an offset", "");
            }
        }
        _ => out.fail("measurement is neither a sync nor a delay measurement", format!("{:?}", m)),
    }
    // filter reply -> mean delay tracked by the port
    match sc.reply {
        MeanDelayReply::Never => {}
        MeanDelayReply::Echo => {
            if let Some(d) = m.delay {
                model.mean_delay = Some(dbits(d));
            }
        }
        MeanDelayReply::Fixed(b) => model.mean_delay = Some(b),
    }
}

const PARENT_A: PortId = PortId { clock: [0, 0, 0, 0, 0, 0, 0, 0x01], port: 1 };
const PARENT_B: PortId = PortId { clock: [0, 0, 0, 0, 0, 0, 0, 0x00], port: 7 };
const STRANGER: PortId = PortId { clock: [0, 0, 0, 0, 0, 0, 0, 0x55], port: 1 };

pub fn run_scenario(sc: &Scenario, out: &mut CaseOut) -> (usize, bool) {
    // returns (#measurements, schedule was the plain in-order one)
    let mut cfg = NodeCfg::default();
    cfg.ports[0].asymmetry_bits = sc.asym;
    cfg.priority1 = 200;
    let mut node = Node::new(cfg);
    node.rec_reply.set(sc.reply);
    if !make_slave(&mut node, 0, PARENT_A, simple_announce(PARENT_A.clock, 100, 6, 0), 10) {
        out.fail("harness: could not make the port slave", "");
        return (0, false);
    }
    let me = node.port_id(0);
    let mut model = Model { parent: PARENT_A, sync_del: vec![], fup_del: vec![], reqs: vec![], resp_del: vec![], mean_delay: None, last_raw_sync: None, slave: true };
    let mut seen = node.measurements().len();
    // optional prelude: many delay requests so that ids straddle the wrap
    if sc.prelude_delay_fires > 0 {
        let mut ctxs: Vec<(u16, usize)> = vec![];
        for _ in 0..sc.prelude_delay_fires {
            for a in node.timer(0, TimerKind::DelayReq) {
                if let OAction::SendEvent { ctx, data, .. } = a {
                    ctxs.push((((data[30] as u16) << 8) | data[31] as u16, ctx));
                }
            }
        }
        let keep = if sc.prelude_return_late { 2 } else { 1 };
        let n = ctxs.len();
        for (i, (seq, ctx)) in ctxs.into_iter().enumerate() {
            if i + keep >= n {
                model.reqs.push((seq, ctx, None));
            } else {
                node.held[ctx] = None;
            }
        }
        out.label("delay-id-wrap-prelude");
    }
    let mut in_order = true;
    let mut last_kind = 0;
    for op in &sc.ops {
        match op {
            Op::Sync { ex, t2, from_parent } => {
                let e = &sc.exs[*ex];
                let src = if *from_parent { model.parent } else { STRANGER };
                let mut m = RMsg::new(T_SYNC, src, e.seq, RBody::Sync { origin: if e.one_step { e.t1 } else { RTs::default() } });
                m.header.set_flag(F_TWO_STEP, !e.one_step);
                m.header.correction = e.corr_sync;
                if (*t2 as i128) < ((e.corr_sync as i128) << 16) {
                    continue; // negative corrected time: outside C09 (C03)
                }
                if *from_parent && model.slave {
                    model.sync_del.push((*ex, *t2));
                }
                node.recv_event(0, &m.encode(), time_from_bits(*t2));
                if last_kind > 1 {
                    in_order = false;
                }
                last_kind = 1;
            }
            Op::Fup { ex, from_parent } => {
                let e = &sc.exs[*ex];
                if e.one_step {
                    continue;
                }
                let src = if *from_parent { model.parent } else { STRANGER };
                let mut m = RMsg::new(T_FOLLOW_UP, src, e.seq, RBody::FollowUp { precise_origin: e.t1 });
                m.header.correction = e.corr_fup;
                if ((e.t1.total_ns() as i128) << 32) + ((e.corr_fup as i128) << 16) < 0 {
                    continue;
                }
                if *from_parent && model.slave {
                    model.fup_del.push(*ex);
                }
                node.recv_general(0, &m.encode());
                if last_kind != 1 {
                    in_order = false;
                }
                last_kind = 2;
            }
            Op::DelayTimer => {
                let acts = node.timer(0, TimerKind::DelayReq);
                for a in acts {
                    if let OAction::SendEvent { ctx, data, .. } = a {
                        match decode(&data) {
                            Ok(m) if m.header.msg_type == T_DELAY_REQ => model.reqs.push((m.header.seq, ctx, None)),
                            _ => out.fail("delay timer emitted something that is not a Delay_Req", ""),
                        }
                    }
                }
                last_kind = 3;
            }
            Op::ReturnTx { which, t3 } => {
                let pending: Vec<usize> = model.reqs.iter().enumerate().filter(|(_, r)| r.2.is_none() && node.held.get(r.1).map(|h| h.is_some()).unwrap_or(false)).map(|(i, _)| i).collect();
                if pending.is_empty() {
                    continue;
                }
                let i = pending[which % pending.len()];
                if i + 1 != model.reqs.len() {
                    in_order = false;
                    out.label("late-tx-timestamp");
                }
                let ctx = model.reqs[i].1;
                model.reqs[i].2 = Some(*t3);
                node.tx_timestamp(ctx, time_from_bits(*t3));
                last_kind = 4;
            }
            Op::Resp { which, t4, corr, from_parent, for_me, seq_delta } => {
                if model.reqs.is_empty() {
                    continue;
                }
                let n = model.reqs.len();
                let i = n - 1 - (which % n.min(3));
                let seq = (model.reqs[i].0 as i32 + seq_delta) as u16;
                let src = if *from_parent { model.parent } else { STRANGER };
                let requesting = if *for_me { me } else { PortId { clock: me.clock, port: me.port + 1 } };
                let mut m = RMsg::new(T_DELAY_RESP, src, seq, RBody::DelayResp { receive: *t4, requesting });
                m.header.correction = *corr;
                if ((t4.total_ns() as i128) << 32) - ((*corr as i128) << 16) < 0 {
                    continue;
                }
                if *from_parent && *for_me && model.slave {
                    model.resp_del.push((seq, *t4, *corr));
                }
                if i + 1 != n || *seq_delta != 0 {
                    in_order = false;
                }
                node.recv_general(0, &m.encode());
                last_kind = 5;
            }
            Op::SwitchParent => {
                if model.parent == PARENT_B || !model.slave {
                    continue;
                }
                // a better master (lower identity wins at equal quality) takes over
                let ok = make_slave(&mut node, 0, PARENT_B, simple_announce(PARENT_B.clock, 50, 6, 0), 500);
                if !ok {
                    out.fail("harness: parent switch failed", format!("{:?}", node.state(0)));
                    return (0, false);
                }
                model.parent = PARENT_B;
                model.sync_del.clear();
                model.fup_del.clear();
                model.resp_del.clear();
                // outstanding requests were made in the old slave state; they cannot complete
                model.reqs.clear();
                model.last_raw_sync = None;
                in_order = false;
                out.label("parent-switch");
            }
            Op::LeaveSlave => {
                node.timer(0, TimerKind::Receipt);
                if node.state(0) != PS::Slave {
                    model.slave = false;
                    out.label("left-slave");
                }
                in_order = false;
            }
        }
        let ms = node.measurements();
        for (_, m) in ms.iter().skip(seen) {
            check_measurement(sc, &mut model, m, out);
        }
        seen = ms.len();
        if out.violation.is_some() {
            break;
        }
    }
    if !node.monitor.is_empty() {
        out.fail("monitor", node.monitor.join("; "));
    }
    let lm = lock_mon_take();
    if !lm.nested.is_empty() {
        out.fail("nested lock acquisition", lm.nested.join("; "));
    }
    (seen, in_order)
}

fn render(sc: &Scenario) -> serde_json::Value {
    json!({"asym_bits": sc.asym.to_string(), "reply": format!("{:?}", sc.reply), "exchanges": sc.exs.iter().map(|e| format!("{:?}", e)).collect::<Vec<_>>(),
           "delay_prelude": sc.prelude_delay_fires, "prelude_late": sc.prelude_return_late,
           "schedule": sc.ops.iter().map(|o| format!("{:?}", o)).collect::<Vec<_>>()})
}

pub fn case(t: &mut Tape) -> CaseOut {
    let mut out = CaseOut::new();
    let sc = gen_scenario(t);
    let (n, in_order) = run_scenario(&sc, &mut out);
    out.render = render(&sc);
    if n > 0 {
        out.label("has-measurement");
        if !in_order {
            out.nontrivial = Some(hash_of(&format!("{:?}", sc.ops.iter().map(|o| std::mem::discriminant(o)).collect::<Vec<_>>()) ) ^ hash_of(&format!("{:?}", sc.ops)));
        }
    }
    out
}

/// Exhaustive enumeration of all schedules of length <= L over a small alphabet
/// for one two-step Sync exchange and the Delay exchange(s).
fn enumerate(ctx: &Ctx, rep: &mut Report) {
    let t0 = std::time::Instant::now();
    let maxlen = if ctx.quick() { 6 } else { 7 };
    let base_s: u128 = 1_700_000_000;
    let mk = |k: u64| -> u128 { let k = k as u128; ((base_s * NS + 1_000_000 * k + 17 * k) << 32) | ((0x1234_5678u128 * k) & 0xffff_ffff) };
    let exs = vec![SyncEx { seq: 65535, one_step: false, t1: RTs::from_ns(base_s * NS + 5), corr_sync: 3 << 16 | 5, corr_fup: -(7 << 16) + 9 }, SyncEx { seq: 0, one_step: true, t1: RTs::from_ns(base_s * NS + 900), corr_sync: 11, corr_fup: 0 }];
    let alphabet = 7usize;
    let mut total = 0u64;
    let mut first: Option<(String, String, serde_json::Value)> = None;
    let mut with_meas = 0u64;
    for len in 1..=maxlen {
        let count = (alphabet as u64).pow(len as u32);
        for code in 0..count {
            let mut c = code;
            let mut ops = vec![];
            for k in 0..len {
                let sym = (c % alphabet as u64) as usize;
                c /= alphabet as u64;
                let kk = (k + 1) as u64;
                ops.push(match sym {
                    0 => Op::Sync { ex: 0, t2: mk(kk), from_parent: true },
                    1 => Op::Fup { ex: 0, from_parent: true },
                    2 => Op::DelayTimer,
                    3 => Op::ReturnTx { which: 0, t3: mk(100 + kk) },
                    4 => Op::Resp { which: 0, t4: RTs::from_ns(base_s * NS + 3000 + 13 * kk as u128), corr: 21 + kk as i64, from_parent: true, for_me: true, seq_delta: 0 },
                    5 => Op::Sync { ex: 1, t2: mk(200 + kk), from_parent: true },
                    _ => Op::Resp { which: 1, t4: RTs::from_ns(base_s * NS + 7000 + 13 * kk as u128), corr: -5, from_parent: true, for_me: true, seq_delta: 0 },
                });
            }
            let sc = Scenario { asym: 77 << 20, reply: MeanDelayReply::Echo, exs: exs.clone(), prelude_delay_fires: 0, prelude_return_late: false, ops };
            let mut out = CaseOut::new();
            let (n, _) = run_scenario(&sc, &mut out);
            total += 1;
            crate::engine::PROGRESS.fetch_add(1, std::sync::atomic::Ordering::Relaxed);
            if n > 0 {
                with_meas += 1;
                rep.nontrivial.insert(hash_of(&("enum", len, code)));
            }
            if let (Some(v), None) = (out.violation, &first) {
                first = Some((v.sig, v.detail, render(&sc)));
            }
        }
    }
    rep.evaluations += total;
    rep.labels.insert("enumerated:with-measurement".into(), with_meas);
    rep.parts.push(json!({"part": "enumerated-schedules", "cases": total, "exhaustive": true, "max_len": maxlen, "alphabet": "Sync(two-step,seq 65535), Follow_Up, delay timer, tx timestamp(oldest pending), Delay_Resp(latest request), Sync(one-step, seq 0), Delay_Resp(previous request)", "wall_s": t0.elapsed().as_secs_f64()}));
    if let Some((sig, detail, r)) = first {
        rep.violations.push((Violation { sig: format!("{}|enumerated", sig), detail }, vec![], r));
        rep.viol_parts.push("enumerated-schedules".into());
    }
}

/// health: a clean in-order exchange yields measurements (else the whole check is vacuous)
fn health() -> bool {
    let base_s: u128 = 1_700_000_000;
    let exs = vec![SyncEx { seq: 5, one_step: false, t1: RTs::from_ns(base_s * NS), corr_sync: 0, corr_fup: 0 }];
    let sc = Scenario {
        asym: 0,
        reply: MeanDelayReply::Echo,
        exs,
        prelude_delay_fires: 0,
        prelude_return_late: false,
        ops: vec![
            Op::Sync { ex: 0, t2: (base_s * NS + 1000) << 32, from_parent: true },
            Op::Fup { ex: 0, from_parent: true },
            Op::DelayTimer,
            Op::ReturnTx { which: 0, t3: (base_s * NS + 5000) << 32 },
            Op::Resp { which: 0, t4: RTs::from_ns(base_s * NS + 6000), corr: 0, from_parent: true, for_me: true, seq_delta: 0 },
        ],
    };
    let mut out = CaseOut::new();
    let (n, _) = run_scenario(&sc, &mut out);
    n == 2 && out.violation.is_none()
}

pub fn run(ctx: &Ctx) -> i32 {
    if !health() {
        println!("VACUOUS: a clean in-order Sync/Follow_Up + Delay_Req/Delay_Resp exchange does not yield two correct measurements (harness health; progress belongs to C02/C12)");
        // still run: the oracle will say why if it is a violation
    }
    let mut rep = Report::new();
    enumerate(ctx, &mut rep);
    run_cases(ctx, &mut rep, "sampled", ctx.cases(150_000, 5_000_000), case);
    // the real daemon: what it hands to its filter (its log) against the harness's own kernel timestamps
    let workers = (ctx.threads as u64 / 2).clamp(2, 8);
    let sum = crate::daemon::run_part(ctx, &mut rep, ctx.cases(workers, 12 * workers), workers);
    if let Some(why) = &sum.skipped {
        println!("note: end-to-end daemon part skipped ({}); the other parts are unaffected", why);
    }
    let code = finish(
        Finish {
            ctx,
            level: "exploration",
            rule: "a port made Slave by the protocol (two Announces + BMCA), recording filter with generated mean-delay replies, delay asymmetry of both signs; up to three Sync exchanges (one/two-step, ids around 65535->0, corrections of both signs up to 2^60, sub-ns receive timestamps, second boundaries, large magnitudes) and Delay exchanges whose ids the port chooses; schedule = generated sequence of deliveries with duplication, omission, reordering, late transmit timestamps, frames from a non-parent / for another requester, parent switch, leaving slave; 1/16 of the cases start after 65530..65536 delay requests (id wrap). Plus exhaustive enumeration of all schedules of length <= 6 (thorough 7) over a 7-symbol alphabet. Oracle: every Measurement must equal, bit for bit, the formula for one exchange with equal sequence id from the current parent. Part daemon: the real statime daemon slaved for 6-10 s to a grandmaster played by the harness (kernel transmit/receive timestamps, generated offset up to +-3 s and drift up to +-60 ppm, so that the daemon's clock is stepped and slewed during the case); the harness records every Sync it sent and every Delay_Req it answered and reads the daemon's clock off the daemon's master port; every measurement in the daemon's log must be that of one of those exchanges (event time within 2 ms of it) and carry its value: raw sync offset = t2 - t1, raw delay offset = t3 - t4 computed from the harness's own timestamps (latency 0..300 us, clock reading +-100 us), minus the configured delay asymmetry (0, -2 ms, +1.5 ms, +12.345678 ms by worker), with the E2E or the P2P mechanism (workers 4-7), in half of the cases with the slave port's egress throttled for 1.2-2.5 s so that transmit timestamps come late. Non-trivial = not the in-order schedule and >= 1 measurement; distinct by schedule.",
            assumptions: vec!["double transmit timestamps are unrepresentable through the public API (TimestampContext is neither Clone nor constructible)".into(), "deliveries whose corrected time would be negative are skipped here (C03/C16)".into(), "halving tolerance: 1 unit of 2^-32 ns".into()],
            min_nontrivial: 100,
        },
        rep,
    );
    if code == 0 && !health() {
        return 2;
    }
    code
}

pub fn replay(ctx: &Ctx, path: &str) -> i32 {
    let s = std::fs::read_to_string(path).expect("read replay");
    let v: serde_json::Value = serde_json::from_str(&s).expect("parse");
    if v["part"].as_str() == Some("daemon") {
        return crate::daemon::replay_part(ctx, path, 2);
    }
    if v["part"].as_str() == Some("enumerated-schedules") {
        let mut rep = Report::new();
        enumerate(ctx, &mut rep);
        return if rep.violations.is_empty() { println!("replay passed"); 0 } else { println!("VIOLATION property=C09 replay={}\n  {}", path, rep.violations[0].0.detail); 1 };
    }
    replay_file(ctx, path, case)
}
