#!/bin/bash
# tools/try_mutant.sh <patch.diff> <ID> [tier]  : apply patch to /repo, run the check, revert.
P=$1; ID=$2; TIER=${3:-quick}
cd /repo && git apply "$P" || { echo "APPLY FAILED"; exit 3; }
cd /verif && VERIF_DIR=/tmp/mut-verif-$$ ; mkdir -p $VERIF_DIR; cp /verif/known_findings.json $VERIF_DIR/
VERIF_DIR=$VERIF_DIR ./vcheck $ID --tier $TIER 2>&1 | grep -v "^  detail" | cut -c1-400 | tail -12; rc=${PIPESTATUS[0]}
cd /repo && git checkout -- . && git clean -fdq -e target
rm -rf $VERIF_DIR
echo "exit=$rc"
