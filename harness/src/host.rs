//! Host model: a deterministic re-implementation of what statime-linux's
//! main.rs does with a port's actions (timers set only by Reset*Timer actions,
//! SendEvent keeps the TimestampContext until a transmit time is reported,
//! ForwardTLV goes to the daemon's TlvForwarder duplicated per port), plus the
//! harness-supplied trait implementations (clock, filter, lock, rng, providers)
//! and always-on monitors.

use crate::refcodec::{self, PortId};
use fixed::types::{I96F32, U96F32};
use rand::SeedableRng;
use rand_chacha::ChaCha8Rng;
use statime::config::{AcceptableMasterList, ClockIdentity, ClockQuality, DelayMechanism, InstanceConfig, PortConfig, PtpMinorVersion, SdoId, TimePropertiesDS, TimeSource};
use statime::filters::{BasicFilter, Filter, FilterEstimate, FilterUpdate, KalmanConfiguration, KalmanFilter};
use statime::port::{ForwardedTLV, ForwardedTLVProvider, InBmca, Measurement, Port, PortAction, PortActionIterator, Running, TimestampContext};
use statime::time::{Duration, Interval, Time};
use statime::{Clock, PtpInstance, PtpInstanceState, PtpInstanceStateMutex};
use statime_linux::tlvforwarder::TlvForwarder;
use std::cell::{Cell, RefCell};
use std::collections::VecDeque;
use std::rc::Rc;

pub fn time_from_bits(b: u128) -> Time {
    Time::from_fixed_nanos(U96F32::from_bits(b))
}
pub fn dur_from_bits(b: i128) -> Duration {
    Duration::from_fixed_nanos(I96F32::from_bits(b))
}
pub fn tbits(t: Time) -> u128 {
    t.nanos().to_bits()
}
pub fn dbits(d: Duration) -> i128 {
    d.nanos().to_bits()
}

// ---------------------------------------------------------------------------
// lock with nesting detection (C17 monitor, used by every check)

#[derive(Default, Clone, Debug)]
pub struct LockMon {
    pub acquisitions: u64,
    pub mut_acquisitions: u64,
    pub nested: Vec<String>,
    pub outer_mut_releases: u64,
}

thread_local! {
    pub static LOCK_MON: RefCell<LockMon> = RefCell::new(LockMon::default());
    /// (acquisitions, exclusive acquisitions, nested) since the last reset; not cleared by lock_mon_take
    pub static LOCK_STATS: Cell<(u64, u64, u64)> = Cell::new((0, 0, 0));
    static RELEASE_HOOK: RefCell<Option<Box<dyn FnMut()>>> = RefCell::new(None);
    static IN_HOOK: Cell<bool> = Cell::new(false);
}

pub fn lock_mon_reset() {
    LOCK_MON.with(|m| *m.borrow_mut() = LockMon::default());
}
pub fn lock_mon_take() -> LockMon {
    LOCK_MON.with(|m| std::mem::take(&mut *m.borrow_mut()))
}
pub fn set_release_hook(h: Option<Box<dyn FnMut()>>) {
    RELEASE_HOOK.with(|r| *r.borrow_mut() = h);
}

pub struct DepthMutex {
    cell: RefCell<PtpInstanceState>,
    depth: Cell<u32>,
}

impl DepthMutex {
    fn enter(&self, kind: &str) {
        let d = self.depth.get();
        LOCK_MON.with(|m| {
            let mut m = m.borrow_mut();
            m.acquisitions += 1;
            if kind == "mut" {
                m.mut_acquisitions += 1;
            }
            if d > 0 {
                m.nested.push(format!("{} acquisition requested while lock already held (depth {})", kind, d));
            }
        });
        LOCK_STATS.with(|s| {
            let (a, b, c) = s.get();
            s.set((a + 1, b + (kind == "mut") as u64, c + (d > 0) as u64));
        });
        self.depth.set(d + 1);
    }
    fn leave(&self, was_mut: bool) {
        let d = self.depth.get() - 1;
        self.depth.set(d);
        if d == 0 && was_mut && !IN_HOOK.with(|h| h.get()) {
            LOCK_MON.with(|m| m.borrow_mut().outer_mut_releases += 1);
            // run the release-point observer (it may itself take the lock)
            let hook = RELEASE_HOOK.with(|r| r.borrow_mut().take());
            if let Some(mut h) = hook {
                IN_HOOK.with(|f| f.set(true));
                h();
                IN_HOOK.with(|f| f.set(false));
                RELEASE_HOOK.with(|r| {
                    let mut r = r.borrow_mut();
                    if r.is_none() {
                        *r = Some(h);
                    }
                });
            }
        }
    }
}

struct DepthGuard<'a>(&'a DepthMutex, bool);
impl Drop for DepthGuard<'_> {
    fn drop(&mut self) {
        self.0.leave(self.1)
    }
}

impl PtpInstanceStateMutex for DepthMutex {
    fn new(state: PtpInstanceState) -> Self {
        DepthMutex { cell: RefCell::new(state), depth: Cell::new(0) }
    }
    fn with_ref<R, F: FnOnce(&PtpInstanceState) -> R>(&self, f: F) -> R {
        self.enter("shared");
        let r = {
            let _g = DepthGuard(self, false);
            match self.cell.try_borrow() {
                Ok(b) => f(&b),
                Err(_) => panic!("DepthMutex: shared acquisition while exclusively held (would deadlock on a blocking lock)"),
            }
        };
        r
    }
    fn with_mut<R, F: FnOnce(&mut PtpInstanceState) -> R>(&self, f: F) -> R {
        self.enter("mut");
        let r = {
            let g = DepthGuard(self, true);
            let r = match self.cell.try_borrow_mut() {
                Ok(mut b) => f(&mut b),
                Err(_) => panic!("DepthMutex: exclusive acquisition while already held (would deadlock on a blocking lock)"),
            };
            drop(g);
            r
        };
        r
    }
}

// ---------------------------------------------------------------------------
// simulated clock shared by the ports of an instance

#[derive(Debug, Clone, PartialEq)]
pub enum ClockOp {
    SetFrequency(f64),
    Step(i128),
    SetProperties,
}

#[derive(Debug, Clone, PartialEq)]
pub struct ClockCall {
    pub port: u16,
    pub op: ClockOp,
    pub ok: bool,
    /// index of the host op during which the call happened (set by Node)
    pub op_index: u64,
}

pub struct SimClock {
    pub true_bits: i128,
    anchor_true: i128,
    anchor_local: i128,
    pub osc_ppm: f64,
    pub freq_ppm: f64,
    pub calls: Vec<ClockCall>,
    /// scripted failures for set_frequency / step_clock (true = fail), consumed per call
    pub fail: VecDeque<bool>,
    pub op_index: u64,
    pub steps: u64,
}

impl SimClock {
    pub fn new(local_at_zero_bits: i128, osc_ppm: f64) -> Self {
        SimClock { true_bits: 0, anchor_true: 0, anchor_local: local_at_zero_bits, osc_ppm, freq_ppm: 0.0, calls: vec![], fail: VecDeque::new(), op_index: 0, steps: 0 }
    }
    pub fn local_at(&self, true_bits: i128) -> i128 {
        let dt = true_bits - self.anchor_true;
        let q = ((self.osc_ppm + self.freq_ppm) * 1048576.0).round() as i128;
        self.anchor_local + dt + (dt * q) / (1_000_000i128 * 1048576)
    }
    pub fn local_now(&self) -> i128 {
        self.local_at(self.true_bits)
    }
    fn reanchor(&mut self) {
        let l = self.local_now();
        self.anchor_true = self.true_bits;
        self.anchor_local = l;
    }
    pub fn set_true(&mut self, true_bits: i128) {
        self.true_bits = true_bits;
    }
}

#[derive(Clone)]
pub struct PClock {
    pub shared: Rc<RefCell<SimClock>>,
    pub port: u16,
}

impl Clock for PClock {
    type Error = &'static str;
    fn now(&self) -> Time {
        time_from_bits(self.shared.borrow().local_now().max(0) as u128)
    }
    fn step_clock(&mut self, offset: Duration) -> Result<Time, Self::Error> {
        let mut c = self.shared.borrow_mut();
        let fail = c.fail.pop_front().unwrap_or(false);
        let op_index = c.op_index;
        c.calls.push(ClockCall { port: self.port, op: ClockOp::Step(dbits(offset)), ok: !fail, op_index });
        if fail {
            return Err("scripted step failure");
        }
        c.reanchor();
        c.anchor_local += dbits(offset);
        c.steps += 1;
        Ok(time_from_bits(c.local_now().max(0) as u128))
    }
    fn set_frequency(&mut self, ppm: f64) -> Result<Time, Self::Error> {
        let mut c = self.shared.borrow_mut();
        let fail = c.fail.pop_front().unwrap_or(false);
        let op_index = c.op_index;
        c.calls.push(ClockCall { port: self.port, op: ClockOp::SetFrequency(ppm), ok: !fail, op_index });
        if fail {
            return Err("scripted frequency failure");
        }
        c.reanchor();
        if ppm.is_finite() {
            c.freq_ppm = ppm;
        }
        Ok(time_from_bits(c.local_now().max(0) as u128))
    }
    fn set_properties(&mut self, _p: &TimePropertiesDS) -> Result<(), Self::Error> {
        let mut c = self.shared.borrow_mut();
        let op_index = c.op_index;
        c.calls.push(ClockCall { port: self.port, op: ClockOp::SetProperties, ok: true, op_index });
        Ok(())
    }
}

// ---------------------------------------------------------------------------
// filters

#[derive(Debug, Clone, PartialEq)]
pub enum RecEvent {
    New { port: u16 },
    Measurement { port: u16, m: Measurement },
    Update { port: u16 },
    Demobilize { port: u16 },
}

#[derive(Clone, Copy, Debug, PartialEq)]
pub enum MeanDelayReply {
    /// never report a mean delay
    Never,
    /// echo the measured delay / peer delay (what the repository's TestFilter does)
    Echo,
    /// always report this value (bits)
    Fixed(i128),
}

#[derive(Clone)]
pub struct RecCfg {
    pub log: Rc<RefCell<Vec<RecEvent>>>,
    pub reply: Rc<Cell<MeanDelayReply>>,
    pub port: u16,
}

pub struct RecFilter {
    cfg: RecCfg,
    last_delay: Duration,
    last_offset: Duration,
}

#[derive(Clone)]
pub enum HFilterCfg {
    Kalman(KalmanConfiguration),
    Basic(f64),
    Rec(RecCfg),
}

pub enum HFilter {
    Kalman(KalmanFilter),
    Basic(BasicFilter),
    Rec(RecFilter),
}

impl Filter for HFilter {
    type Config = HFilterCfg;
    fn new(config: Self::Config) -> Self {
        match config {
            HFilterCfg::Kalman(c) => HFilter::Kalman(KalmanFilter::new(c)),
            HFilterCfg::Basic(g) => HFilter::Basic(BasicFilter::new(g)),
            HFilterCfg::Rec(c) => {
                c.log.borrow_mut().push(RecEvent::New { port: c.port });
                HFilter::Rec(RecFilter { cfg: c, last_delay: Duration::ZERO, last_offset: Duration::ZERO })
            }
        }
    }
    fn measurement<C: Clock>(&mut self, m: Measurement, clock: &mut C) -> FilterUpdate {
        match self {
            HFilter::Kalman(f) => f.measurement(m, clock),
            HFilter::Basic(f) => f.measurement(m, clock),
            HFilter::Rec(f) => {
                f.cfg.log.borrow_mut().push(RecEvent::Measurement { port: f.cfg.port, m });
                if let Some(o) = m.offset {
                    f.last_offset = o;
                }
                let mean_delay = match f.cfg.reply.get() {
                    MeanDelayReply::Never => None,
                    MeanDelayReply::Echo => m.delay.or(m.peer_delay),
                    MeanDelayReply::Fixed(b) => Some(dur_from_bits(b)),
                };
                if let Some(d) = mean_delay {
                    f.last_delay = d;
                }
                FilterUpdate { next_update: None, mean_delay }
            }
        }
    }
    fn update<C: Clock>(&mut self, clock: &mut C) -> FilterUpdate {
        match self {
            HFilter::Kalman(f) => f.update(clock),
            HFilter::Basic(f) => f.update(clock),
            HFilter::Rec(f) => {
                f.cfg.log.borrow_mut().push(RecEvent::Update { port: f.cfg.port });
                FilterUpdate::default()
            }
        }
    }
    fn demobilize<C: Clock>(self, clock: &mut C) {
        match self {
            HFilter::Kalman(f) => f.demobilize(clock),
            HFilter::Basic(f) => f.demobilize(clock),
            HFilter::Rec(f) => f.cfg.log.borrow_mut().push(RecEvent::Demobilize { port: f.cfg.port }),
        }
    }
    fn current_estimates(&self) -> FilterEstimate {
        match self {
            HFilter::Kalman(f) => f.current_estimates(),
            HFilter::Basic(f) => f.current_estimates(),
            HFilter::Rec(f) => FilterEstimate { offset_from_master: f.last_offset, mean_delay: f.last_delay },
        }
    }
}

// ---------------------------------------------------------------------------
// TLV providers

pub enum Prov {
    None,
    /// the daemon's forwarder (tokio broadcast, capacity 128), one duplicate per port
    Daemon(TlvForwarder),
    /// literal reading of the documented contract: "next available TLV, unless it is larger than max_size"
    Literal(Rc<RefCell<Vec<VecDeque<ForwardedTLV<'static>>>>>, usize),
}

impl ForwardedTLVProvider for Prov {
    fn next_if_smaller(&mut self, max_size: usize) -> Option<ForwardedTLV<'_>> {
        match self {
            Prov::None => None,
            Prov::Daemon(f) => f.next_if_smaller(max_size),
            Prov::Literal(qs, me) => {
                let mut qs = qs.borrow_mut();
                let q = &mut qs[*me];
                match q.front() {
                    Some(t) if t.size() <= max_size => q.pop_front(),
                    _ => None,
                }
            }
        }
    }
}

impl Prov {
    fn forward(&self, tlv: ForwardedTLV<'static>) {
        match self {
            Prov::None => {}
            Prov::Daemon(f) => f.forward(tlv),
            Prov::Literal(qs, _) => {
                for q in qs.borrow_mut().iter_mut() {
                    q.push_back(tlv.clone());
                }
            }
        }
    }
}

// ---------------------------------------------------------------------------
// configuration of a simulated node

#[derive(Clone, Debug, PartialEq)]
pub enum FilterKind {
    Kalman,
    Basic,
    Rec,
}

#[derive(Clone, Copy, Debug, PartialEq, Eq)]
pub enum ProvKind {
    None,
    Daemon,
    Literal,
}

#[derive(Clone, Debug)]
pub struct PortCfg {
    pub p2p: bool,
    pub delay_log: i8,
    pub announce_log: i8,
    pub sync_log: i8,
    pub receipt_timeout: u8,
    pub master_only: bool,
    pub asymmetry_bits: i128,
    pub minor_version: u8,
    pub aml: Option<Vec<[u8; 8]>>,
}

impl Default for PortCfg {
    fn default() -> Self {
        PortCfg { p2p: false, delay_log: 0, announce_log: 0, sync_log: 0, receipt_timeout: 3, master_only: false, asymmetry_bits: 0, minor_version: 1, aml: None }
    }
}

#[derive(Clone, Debug)]
pub struct NodeCfg {
    pub identity: [u8; 8],
    pub priority1: u8,
    pub priority2: u8,
    pub class: u8,
    pub accuracy: u8,
    pub variance: u16,
    pub domain: u8,
    pub sdo: u16,
    pub slave_only: bool,
    pub path_trace: bool,
    pub filter: FilterKind,
    pub kalman: Option<KalmanConfiguration>,
    pub basic_gain: f64,
    pub prov: ProvKind,
    pub ports: Vec<PortCfg>,
    pub rng_seed: u64,
    pub clock_local0_bits: i128,
    pub clock_osc_ppm: f64,
}

impl Default for NodeCfg {
    fn default() -> Self {
        NodeCfg {
            identity: [0, 0, 0, 0, 0, 0, 0, 0x10],
            priority1: 128,
            priority2: 128,
            class: 248,
            accuracy: 0xfe,
            variance: 0x8000 - 23 * 256,
            domain: 0,
            sdo: 0,
            slave_only: false,
            path_trace: false,
            filter: FilterKind::Rec,
            kalman: None,
            basic_gain: 0.25,
            prov: ProvKind::None,
            ports: vec![PortCfg::default()],
            rng_seed: 1,
            clock_local0_bits: (1_700_000_000i128 * 1_000_000_000) << 32,
            clock_osc_ppm: 0.0,
        }
    }
}

pub fn accuracy_from_octet(v: u8) -> statime::config::ClockAccuracy {
    // ClockAccuracy::from_primitive is crate-private; go through serde where possible
    use statime::config::ClockAccuracy as A;
    match v {
        0x17 => A::PS1,
        0x18 => A::PS2_5,
        0x19 => A::PS10,
        0x1a => A::PS25,
        0x1b => A::PS100,
        0x1c => A::PS250,
        0x1d => A::NS1,
        0x1e => A::NS2_5,
        0x1f => A::NS10,
        0x20 => A::NS25,
        0x21 => A::NS100,
        0x22 => A::NS250,
        0x23 => A::US1,
        0x24 => A::US2_5,
        0x25 => A::US10,
        0x26 => A::US25,
        0x27 => A::US100,
        0x28 => A::US250,
        0x29 => A::MS1,
        0x2a => A::MS2_5,
        0x2b => A::MS10,
        0x2c => A::MS25,
        0x2d => A::MS100,
        0x2e => A::MS250,
        0x2f => A::S1,
        0x30 => A::S10,
        0x31 => A::SGT10,
        0x80..=0xfd => A::ProfileSpecific(v - 0x80),
        0xfe => A::Unknown,
        _ => A::Reserved,
    }
}

pub fn quality(class: u8, accuracy: u8, variance: u16) -> ClockQuality {
    ClockQuality { clock_class: class, clock_accuracy: accuracy_from_octet(accuracy), offset_scaled_log_variance: variance }
}

// ---------------------------------------------------------------------------
// the node

pub type Aml = Option<Vec<ClockIdentity>>;
pub type Inst = PtpInstance<HFilter, DepthMutex>;
pub type RPort = Port<'static, Running, Aml, ChaCha8Rng, PClock, HFilter, DepthMutex>;
pub type BPort = Port<'static, InBmca, Aml, ChaCha8Rng, PClock, HFilter, DepthMutex>;

pub enum PortSlot {
    Running(RPort),
    InBmca(BPort),
    Empty,
}

#[derive(Clone, Copy, Debug, PartialEq, Eq, Hash, PartialOrd, Ord)]
pub enum TimerKind {
    Announce = 0,
    Sync = 1,
    DelayReq = 2,
    Receipt = 3,
    FilterUpdate = 4,
}
pub const ALL_TIMERS: [TimerKind; 5] = [TimerKind::Announce, TimerKind::Sync, TimerKind::DelayReq, TimerKind::Receipt, TimerKind::FilterUpdate];

#[derive(Clone, Copy, Debug, PartialEq, Eq, Hash, PartialOrd, Ord)]
pub enum PS {
    Faulty,
    Listening,
    Master,
    Passive,
    Slave,
    Other,
}

#[derive(Debug, Clone, PartialEq)]
pub enum OAction {
    SendEvent { ctx: usize, data: Vec<u8>, link_local: bool },
    SendGeneral { data: Vec<u8>, link_local: bool },
    Timer(TimerKind, std::time::Duration),
    ForwardTlv { size: usize },
}

#[derive(Debug, Clone, PartialEq, Eq)]
pub struct DsSnapshot {
    pub steps_removed: u16,
    pub parent: PortId,
    pub gm_identity: [u8; 8],
    pub gm_class: u8,
    pub gm_accuracy: u8,
    pub gm_variance: u16,
    pub gm_priority1: u8,
    pub gm_priority2: u8,
    pub utc_offset: Option<i16>,
    pub leap59: bool,
    pub leap61: bool,
    pub time_traceable: bool,
    pub frequency_traceable: bool,
    pub ptp_timescale: bool,
    pub time_source: u8,
    pub path: Vec<[u8; 8]>,
    pub own_class: u8,
    pub own_accuracy: u8,
    pub own_variance: u16,
    pub slave_only: bool,
}

pub struct Node {
    // NOTE: field order matters: ports borrow `inst` ('static by construction) and must drop first
    pub ports: Vec<PortSlot>,
    pub provs: Vec<Prov>,
    inst: Box<Inst>,
    pub cfg: NodeCfg,
    pub clock: Rc<RefCell<SimClock>>,
    pub rec_log: Rc<RefCell<Vec<RecEvent>>>,
    pub rec_reply: Rc<Cell<MeanDelayReply>>,
    /// armed timer deadlines (ns of simulated true time)
    pub timers: Vec<[Option<u64>; 5]>,
    pub now_ns: u64,
    /// contexts handed out by SendEvent and not yet returned
    pub held: Vec<Option<(usize, TimestampContext)>>,
    pub monitor: Vec<String>,
    pub op_index: u64,
    pub frames_sent: u64,
}

impl Node {
    pub fn new(cfg: NodeCfg) -> Node {
        let icfg = InstanceConfig {
            clock_identity: ClockIdentity(cfg.identity),
            priority_1: cfg.priority1,
            priority_2: cfg.priority2,
            domain_number: cfg.domain,
            slave_only: cfg.slave_only,
            sdo_id: SdoId::try_from(cfg.sdo & 0xfff).unwrap(),
            path_trace: cfg.path_trace,
            clock_quality: quality(cfg.class, cfg.accuracy, cfg.variance),
        };
        let tp = TimePropertiesDS::new_arbitrary_time(false, false, TimeSource::InternalOscillator);
        let inst: Box<Inst> = Box::new(PtpInstance::new(icfg, tp));
        // SAFETY: `inst` is heap allocated, never moved out of its Box and dropped after `ports`
        let iref: &'static Inst = unsafe { &*(&*inst as *const Inst) };
        let clock = Rc::new(RefCell::new(SimClock::new(cfg.clock_local0_bits, cfg.clock_osc_ppm)));
        let rec_log = Rc::new(RefCell::new(vec![]));
        let rec_reply = Rc::new(Cell::new(MeanDelayReply::Echo));
        let literal_queues = Rc::new(RefCell::new(vec![VecDeque::new(); cfg.ports.len()]));
        let base_fwd = TlvForwarder::new();
        let mut ports = vec![];
        let mut provs = vec![];
        for (i, pc) in cfg.ports.iter().enumerate() {
            let interval = Interval::from_log_2(pc.delay_log);
            let pcfg = PortConfig {
                acceptable_master_list: pc.aml.as_ref().map(|v| v.iter().map(|c| ClockIdentity(*c)).collect::<Vec<_>>()),
                delay_mechanism: if pc.p2p { DelayMechanism::P2P { interval } } else { DelayMechanism::E2E { interval } },
                announce_interval: Interval::from_log_2(pc.announce_log),
                announce_receipt_timeout: pc.receipt_timeout,
                sync_interval: Interval::from_log_2(pc.sync_log),
                master_only: pc.master_only,
                delay_asymmetry: dur_from_bits(pc.asymmetry_bits),
                minor_ptp_version: if pc.minor_version == 0 { PtpMinorVersion::Zero } else { PtpMinorVersion::One },
            };
            let fcfg = match cfg.filter {
                FilterKind::Kalman => HFilterCfg::Kalman(cfg.kalman.unwrap_or_default()),
                FilterKind::Basic => HFilterCfg::Basic(cfg.basic_gain),
                FilterKind::Rec => HFilterCfg::Rec(RecCfg { log: rec_log.clone(), reply: rec_reply.clone(), port: i as u16 + 1 }),
            };
            let pclock = PClock { shared: clock.clone(), port: i as u16 + 1 };
            let rng = ChaCha8Rng::seed_from_u64(cfg.rng_seed.wrapping_mul(1000).wrapping_add(i as u64));
            let port = iref.add_port(pcfg, fcfg, pclock, rng);
            ports.push(PortSlot::InBmca(port));
            provs.push(match cfg.prov {
                ProvKind::None => Prov::None,
                ProvKind::Daemon => Prov::Daemon(base_fwd.duplicate()),
                ProvKind::Literal => Prov::Literal(literal_queues.clone(), i),
            });
        }
        drop(base_fwd);
        let n = cfg.ports.len();
        let mut node = Node {
            ports,
            provs,
            inst,
            cfg,
            clock,
            rec_log,
            rec_reply,
            timers: vec![[None; 5]; n],
            now_ns: 0,
            held: vec![],
            monitor: vec![],
            op_index: 0,
            frames_sent: 0,
        };
        // as the daemon does: end_bmca and handle the initial actions
        for p in 0..n {
            node.end_bmca_port(p);
        }
        node
    }

    pub fn inst(&self) -> &Inst {
        &self.inst
    }
    pub fn nports(&self) -> usize {
        self.ports.len()
    }
    pub fn port_id(&self, p: usize) -> PortId {
        PortId { clock: self.cfg.identity, port: p as u16 + 1 }
    }

    fn begin_op(&mut self) {
        self.op_index += 1;
        self.clock.borrow_mut().op_index = self.op_index;
    }

    fn running(&mut self, p: usize) -> &mut RPort {
        match &mut self.ports[p] {
            PortSlot::Running(r) => r,
            _ => panic!("harness: port {} not running", p),
        }
    }

    pub fn state(&self, p: usize) -> PS {
        use statime::observability::port::PortState as O;
        let ds = match &self.ports[p] {
            PortSlot::Running(r) => r.port_ds(),
            PortSlot::InBmca(b) => b.port_ds(),
            PortSlot::Empty => return PS::Other,
        };
        match ds.port_state {
            O::Faulty => PS::Faulty,
            O::Listening => PS::Listening,
            O::Master => PS::Master,
            O::Passive => PS::Passive,
            O::Slave => PS::Slave,
            _ => PS::Other,
        }
    }
    pub fn port_ds(&self, p: usize) -> statime::observability::port::PortDS {
        match &self.ports[p] {
            PortSlot::Running(r) => r.port_ds(),
            PortSlot::InBmca(b) => b.port_ds(),
            PortSlot::Empty => panic!("harness: empty slot"),
        }
    }
    pub fn is_steering(&self, p: usize) -> bool {
        match &self.ports[p] {
            PortSlot::Running(r) => r.is_steering(),
            PortSlot::InBmca(b) => b.is_steering(),
            PortSlot::Empty => false,
        }
    }
    pub fn is_master(&self, p: usize) -> bool {
        match &self.ports[p] {
            PortSlot::Running(r) => r.is_master(),
            PortSlot::InBmca(b) => b.is_master(),
            PortSlot::Empty => false,
        }
    }
    /// the first slave port's filter estimates, as the daemon's run() picks them
    pub fn current_contribution(&self) -> Option<FilterEstimate> {
        self.ports.iter().find_map(|s| match s {
            PortSlot::Running(r) => r.port_current_ds_contribution(),
            PortSlot::InBmca(b) => b.port_current_ds_contribution(),
            PortSlot::Empty => None,
        })
    }
    pub fn states(&self) -> Vec<PS> {
        (0..self.nports()).map(|p| self.state(p)).collect()
    }

    pub fn ds(&self) -> DsSnapshot {
        let parent = self.inst.parent_ds();
        let cur = self.inst.current_ds(None);
        let tp = self.inst.time_properties_ds();
        let pt = self.inst.path_trace_ds();
        let def = self.inst.default_ds();
        use statime::config::LeapIndicator as L;
        DsSnapshot {
            steps_removed: cur.steps_removed,
            parent: PortId { clock: parent.parent_port_identity.clock_identity.0, port: parent.parent_port_identity.port_number },
            gm_identity: parent.grandmaster_identity.0,
            gm_class: parent.grandmaster_clock_quality.clock_class,
            gm_accuracy: parent.grandmaster_clock_quality.clock_accuracy.to_primitive(),
            gm_variance: parent.grandmaster_clock_quality.offset_scaled_log_variance,
            gm_priority1: parent.grandmaster_priority_1,
            gm_priority2: parent.grandmaster_priority_2,
            utc_offset: tp.current_utc_offset,
            leap59: tp.leap_indicator == L::Leap59,
            leap61: tp.leap_indicator == L::Leap61,
            time_traceable: tp.time_traceable,
            frequency_traceable: tp.frequency_traceable,
            ptp_timescale: tp.ptp_timescale,
            time_source: tp.time_source.to_primitive(),
            path: pt.list.iter().map(|c| c.0).collect(),
            own_class: def.clock_quality.clock_class,
            own_accuracy: def.clock_quality.clock_accuracy.to_primitive(),
            own_variance: def.clock_quality.offset_scaled_log_variance,
            slave_only: def.slave_only,
        }
    }

    /// Convert the library's borrowed action iterator into owned actions,
    /// applying the daemon's handling (timers, forwarder, context keeping) and
    /// the global monitors.
    fn absorb(
        p: usize,
        actions: PortActionIterator<'_>,
        timers: &mut [Option<u64>; 5],
        now_ns: u64,
        held: &mut Vec<Option<(usize, TimestampContext)>>,
        prov: &Prov,
        monitor: &mut Vec<String>,
        frames_sent: &mut u64,
    ) -> Vec<OAction> {
        let mut out = vec![];
        let mut events = 0;
        for a in actions {
            match a {
                PortAction::SendEvent { context, data, link_local } => {
                    events += 1;
                    *frames_sent += 1;
                    Self::frame_monitor(p, data, monitor);
                    held.push(Some((p, context)));
                    out.push(OAction::SendEvent { ctx: held.len() - 1, data: data.to_vec(), link_local });
                }
                PortAction::SendGeneral { data, link_local } => {
                    *frames_sent += 1;
                    Self::frame_monitor(p, data, monitor);
                    out.push(OAction::SendGeneral { data: data.to_vec(), link_local });
                }
                PortAction::ResetAnnounceTimer { duration } => {
                    timers[0] = Some(now_ns.saturating_add(duration.as_nanos().min(u64::MAX as u128 / 2) as u64));
                    out.push(OAction::Timer(TimerKind::Announce, duration));
                }
                PortAction::ResetSyncTimer { duration } => {
                    timers[1] = Some(now_ns.saturating_add(duration.as_nanos().min(u64::MAX as u128 / 2) as u64));
                    out.push(OAction::Timer(TimerKind::Sync, duration));
                }
                PortAction::ResetDelayRequestTimer { duration } => {
                    timers[2] = Some(now_ns.saturating_add(duration.as_nanos().min(u64::MAX as u128 / 2) as u64));
                    out.push(OAction::Timer(TimerKind::DelayReq, duration));
                }
                PortAction::ResetAnnounceReceiptTimer { duration } => {
                    timers[3] = Some(now_ns.saturating_add(duration.as_nanos().min(u64::MAX as u128 / 2) as u64));
                    out.push(OAction::Timer(TimerKind::Receipt, duration));
                }
                PortAction::ResetFilterUpdateTimer { duration } => {
                    timers[4] = Some(now_ns.saturating_add(duration.as_nanos().min(u64::MAX as u128 / 2) as u64));
                    out.push(OAction::Timer(TimerKind::FilterUpdate, duration));
                }
                PortAction::ForwardTLV { tlv } => {
                    out.push(OAction::ForwardTlv { size: tlv.size() });
                    prov.forward(tlv.into_owned());
                }
            }
        }
        if events > 1 {
            monitor.push(format!("port {}: action set with {} SendEvent actions", p + 1, events));
        }
        out
    }

    fn frame_monitor(p: usize, data: &[u8], monitor: &mut Vec<String>) {
        if data.len() > statime::port::MAX_DATA_LEN {
            monitor.push(format!("port {}: emitted frame of {} bytes exceeds MAX_DATA_LEN", p + 1, data.len()));
        }
        if statime::fuzz::FuzzMessage::deserialize(data).is_err() {
            monitor.push(format!("port {}: emitted frame not decodable by the library's own parser ({} bytes, type {:x})", p + 1, data.len(), data.first().map(|b| b & 0xf).unwrap_or(0xff)));
        }
        match refcodec::decode(data) {
            Ok(m) if m.header.length as usize == data.len() => {}
            Ok(m) => monitor.push(format!("port {}: emitted frame length field {} != frame size {}", p + 1, m.header.length, data.len())),
            Err(e) => {
                // zero-length trailing TLV is well-formed for the reference; anything else is a framing error
                monitor.push(format!("port {}: emitted frame rejected by reference codec: {:?}", p + 1, e))
            }
        }
    }

    pub fn timer(&mut self, p: usize, k: TimerKind) -> Vec<OAction> {
        self.begin_op();
        // a one-shot timer that fires is no longer armed
        self.timers[p][k as usize] = None;
        let now = self.now_ns;
        let Node { ports, provs, timers, held, monitor, frames_sent, .. } = self;
        let port = match &mut ports[p] {
            PortSlot::Running(r) => r,
            _ => panic!("harness: port not running"),
        };
        let prov = &mut provs[p];
        // split borrow of prov: handle_announce_timer needs &mut provider, absorb needs &provider
        let actions = match k {
            TimerKind::Announce => {
                let pp: *mut Prov = prov;
                // SAFETY: the provider is only used by the library during this call; the
                // returned iterator does not borrow it.
                port.handle_announce_timer(unsafe { &mut *pp })
            }
            TimerKind::Sync => port.handle_sync_timer(),
            TimerKind::DelayReq => port.handle_delay_request_timer(),
            TimerKind::Receipt => port.handle_announce_receipt_timer(),
            TimerKind::FilterUpdate => port.handle_filter_update_timer(),
        };
        Self::absorb(p, actions, &mut timers[p], now, held, &provs[p], monitor, frames_sent)
    }

    pub fn recv_event(&mut self, p: usize, data: &[u8], ts: Time) -> Vec<OAction> {
        self.begin_op();
        let now = self.now_ns;
        let Node { ports, provs, timers, held, monitor, frames_sent, .. } = self;
        let port = match &mut ports[p] {
            PortSlot::Running(r) => r,
            _ => panic!("harness: port not running"),
        };
        let actions = port.handle_event_receive(data, ts);
        Self::absorb(p, actions, &mut timers[p], now, held, &provs[p], monitor, frames_sent)
    }

    pub fn recv_general(&mut self, p: usize, data: &[u8]) -> Vec<OAction> {
        self.begin_op();
        let now = self.now_ns;
        let Node { ports, provs, timers, held, monitor, frames_sent, .. } = self;
        let port = match &mut ports[p] {
            PortSlot::Running(r) => r,
            _ => panic!("harness: port not running"),
        };
        let actions = port.handle_general_receive(data);
        Self::absorb(p, actions, &mut timers[p], now, held, &provs[p], monitor, frames_sent)
    }

    /// Return a held transmit-timestamp context (each at most once, by type).
    pub fn tx_timestamp(&mut self, ctx: usize, ts: Time) -> Option<(usize, Vec<OAction>)> {
        let (p, context) = self.held.get_mut(ctx)?.take()?;
        self.begin_op();
        let now = self.now_ns;
        let Node { ports, provs, timers, held, monitor, frames_sent, .. } = self;
        let port = match &mut ports[p] {
            PortSlot::Running(r) => r,
            _ => panic!("harness: port not running"),
        };
        let actions = port.handle_send_timestamp(context, ts);
        Some((p, Self::absorb(p, actions, &mut timers[p], now, held, &provs[p], monitor, frames_sent)))
    }

    pub fn pending_contexts(&self) -> Vec<usize> {
        self.held.iter().enumerate().filter(|(_, h)| h.is_some()).map(|(i, _)| i).collect()
    }

    fn end_bmca_port(&mut self, p: usize) -> Vec<OAction> {
        let slot = std::mem::replace(&mut self.ports[p], PortSlot::Empty);
        let PortSlot::InBmca(b) = slot else { panic!("harness: port not in bmca") };
        let (r, actions) = b.end_bmca();
        let now = self.now_ns;
        let out = Self::absorb(p, actions, &mut self.timers[p], now, &mut self.held, &self.provs[p], &mut self.monitor, &mut self.frames_sent);
        self.ports[p] = PortSlot::Running(r);
        out
    }

    /// One BMCA round the way run()/port_task() do it: all ports start_bmca,
    /// instance.bmca(all ports in `order`), end_bmca + pending actions.
    pub fn bmca_ordered(&mut self, order: &[usize]) -> Vec<Vec<OAction>> {
        self.begin_op();
        let n = self.nports();
        let mut taken: Vec<Option<BPort>> = vec![];
        for p in 0..n {
            let slot = std::mem::replace(&mut self.ports[p], PortSlot::Empty);
            match slot {
                PortSlot::Running(r) => taken.push(Some(r.start_bmca())),
                _ => panic!("harness: port not running at bmca"),
            }
        }
        {
            let mut by_order: Vec<BPort> = order.iter().map(|&i| taken[i].take().unwrap()).collect();
            {
                let mut refs: Vec<&mut BPort> = by_order.iter_mut().collect();
                self.inst.bmca(&mut refs);
            }
            for (k, b) in by_order.into_iter().enumerate() {
                taken[order[k]] = Some(b);
            }
        }
        let mut outs = vec![];
        for p in 0..n {
            self.ports[p] = PortSlot::InBmca(taken[p].take().unwrap());
            outs.push(self.end_bmca_port(p));
        }
        outs
    }
    pub fn bmca(&mut self) -> Vec<Vec<OAction>> {
        let order: Vec<usize> = (0..self.nports()).collect();
        self.bmca_ordered(&order)
    }

    pub fn bmca_interval_ns(&self) -> u64 {
        self.inst.bmca_interval().as_nanos() as u64
    }

    pub fn set_slave_only(&mut self, v: bool) {
        self.begin_op();
        self.inst.set_slave_only(v)
    }
    pub fn set_clock_quality(&mut self, class: u8, accuracy: u8, variance: u16) {
        self.begin_op();
        self.inst.set_clock_quality(quality(class, accuracy, variance))
    }

    /// earliest armed timer (deadline, port, kind)
    pub fn next_timer(&self) -> Option<(u64, usize, TimerKind)> {
        let mut best: Option<(u64, usize, TimerKind)> = None;
        for (p, t) in self.timers.iter().enumerate() {
            for k in ALL_TIMERS {
                if let Some(d) = t[k as usize] {
                    if best.map(|b| d < b.0).unwrap_or(true) {
                        best = Some((d, p, k));
                    }
                }
            }
        }
        best
    }

    pub fn measurements(&self) -> Vec<(u16, Measurement)> {
        self.rec_log
            .borrow()
            .iter()
            .filter_map(|e| match e {
                RecEvent::Measurement { port, m } => Some((*port, *m)),
                _ => None,
            })
            .collect()
    }
}

/// Duration -> TimeInterval as observable through the public API.
pub fn duration_to_time_interval_bits(d: Duration) -> Result<i64, String> {
    let mut cfg = NodeCfg::default();
    cfg.ports[0].asymmetry_bits = dbits(d);
    let node = Node::new(cfg);
    let ds = node.port_ds(0);
    let v = serde_json::to_value(ds.delay_asymmetry).map_err(|e| e.to_string())?;
    v.as_i64().ok_or_else(|| "delay_asymmetry not an integer".to_string())
}

// ---------------------------------------------------------------------------
// helpers to build frames for a node

pub fn announce_from(src: PortId, seq: u16, a: refcodec::RAnnounce, domain: u8, sdo: u16) -> refcodec::RMsg {
    let mut m = refcodec::RMsg::new(refcodec::T_ANNOUNCE, src, seq, refcodec::RBody::Announce(a));
    m.header.domain = domain;
    m.header.major_sdo = (sdo >> 8) as u8;
    m.header.minor_sdo = sdo as u8;
    m.header.log_interval = 0;
    m
}

pub fn simple_announce(gm: [u8; 8], p1: u8, class: u8, steps: u16) -> refcodec::RAnnounce {
    refcodec::RAnnounce {
        origin: Default::default(),
        utc_offset: 37,
        reserved: 0,
        gm_priority1: p1,
        gm_class: class,
        gm_accuracy: 0x21,
        gm_variance: 0x4000,
        gm_priority2: 128,
        gm_identity: gm,
        steps_removed: steps,
        time_source: 0x20,
    }
}

#[allow(dead_code)]
pub fn ensure_accept_trait() {
    fn f<A: AcceptableMasterList>() {}
    f::<Aml>();
}

// ---------------------------------------------------------------------------
// protocol helpers

/// Deliver two consecutive Announces from `parent` and run a BMCA so that the
/// port becomes slave of it by the normal protocol. Returns false if it did not.
pub fn make_slave(node: &mut Node, p: usize, parent: PortId, ann: refcodec::RAnnounce, first_seq: u16) -> bool {
    for k in 0..2u16 {
        let m = announce_from(parent, first_seq.wrapping_add(k), ann, node.cfg.domain, node.cfg.sdo);
        node.recv_general(p, &m.encode());
    }
    node.bmca();
    node.state(p) == PS::Slave && node.ds().parent == parent
}

pub fn in_domain(node: &Node, m: &mut refcodec::RMsg) {
    m.header.domain = node.cfg.domain;
    m.header.major_sdo = (node.cfg.sdo >> 8) as u8;
    m.header.minor_sdo = node.cfg.sdo as u8;
}
