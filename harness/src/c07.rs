//! C07 — traffic from unselected / unacceptable / foreign-domain sources has
//! no effect. Two-run non-interference: history H vs H with noise insertions.

use crate::engine::*;
use crate::hist::*;
use crate::host::*;
use crate::refcodec::*;
use serde_json::json;

pub const PROFILE: Profile = Profile { extreme: false, malformed: false, tlvs: true, settings: true, free_timers: true };

#[derive(Debug, Clone, PartialEq)]
struct Obs {
    actions: Vec<(usize, Vec<OAction>)>,
    states: Vec<PS>,
    ds: DsSnapshot,
    clock: Vec<(u16, ClockOp, bool)>,
    rec: Vec<RecEvent>,
    link_delays: Vec<String>,
    timers: Vec<[Option<u64>; 5]>,
}

struct Observer {
    clock_seen: usize,
    rec_seen: usize,
}

impl Observer {
    fn new(node: &Node) -> Self {
        Observer { clock_seen: node.clock.borrow().calls.len(), rec_seen: node.rec_log.borrow().len() }
    }
    fn observe(&mut self, node: &Node, actions: Vec<(usize, Vec<OAction>)>) -> Obs {
        let clock: Vec<(u16, ClockOp, bool)> = node.clock.borrow().calls.iter().skip(self.clock_seen).map(|c| (c.port, c.op.clone(), c.ok)).collect();
        self.clock_seen += clock.len();
        let rec: Vec<RecEvent> = node.rec_log.borrow().iter().skip(self.rec_seen).cloned().collect();
        self.rec_seen += rec.len();
        Obs {
            actions,
            states: node.states(),
            ds: node.ds(),
            clock,
            rec,
            link_delays: (0..node.nports()).map(|p| format!("{:?}", node.port_ds(p).delay_mechanism)).collect(),
            timers: node.timers.clone(),
        }
    }
}

#[derive(Debug, Clone)]
struct Noise {
    pos: usize, // inserted before H[pos]
    op: COp,
    class: String,
    state: PS,
}

fn rebuild(op: &COp, data: Vec<u8>, class: &str) -> COp {
    match op {
        COp::RecvEvent { port, ts_bits, what, .. } => COp::RecvEvent { port: *port, data, ts_bits: *ts_bits, what: format!("NOISE[{}] {}", class, what) },
        COp::RecvGeneral { port, what, .. } => COp::RecvGeneral { port: *port, data, what: format!("NOISE[{}] {}", class, what) },
        o => o.clone(),
    }
}

fn op_data(op: &COp) -> Vec<u8> {
    match op {
        COp::RecvEvent { data, .. } | COp::RecvGeneral { data, .. } => data.clone(),
        _ => vec![],
    }
}

/// Build one noise frame for port p from a frame that would have had an effect.
fn gen_noise(w: &mut World, t: &mut Tape, p: usize) -> Option<(COp, String)> {
    // save generator bookkeeping so that noise construction does not perturb H
    let save = (w.ann_seq.clone(), w.sync_seq.clone(), w.last_sync.clone(), w.tick);
    let prof = Profile { extreme: false, malformed: false, tlvs: false, settings: false, free_timers: true };
    let parent = w.node.ds().parent;
    let me = w.node.port_id(p);
    let has_aml = w.node.cfg.ports[p].aml.is_some();
    let st = w.node.state(p);
    // a frame that would matter
    let base = match t.weighted(&[4, 3, 3, 3, 1, 1]) {
        0 => {
            let mi = t.below(2) as usize; // Better / Best
            w.announce(t, mi, p, &prof)
        }
        1 => w.sync(t, p, &prof),
        2 => w.follow_up(t, p, &prof),
        3 => w.delay_resp(t, p, &prof),
        4 => w.pdelay_resp(t, p, &prof, false),
        _ => w.delay_req(t, p, &prof),
    };
    let data = op_data(&base);
    let res = (|| {
        let m = decode(&data).ok()?;
        let ty = m.header.msg_type;
        let class_pick = t.weighted(&[3, 2, 2, 3, 3, 3, 2, 2]);
        let mut m2 = m.clone();
        let (class, bytes): (String, Vec<u8>) = match class_pick {
            0 => {
                m2.header.domain = m.header.domain.wrapping_add(1 + t.below(254) as u8);
                ("other-domain".into(), m2.encode())
            }
            1 => {
                if t.bool() {
                    m2.header.major_sdo = (m.header.major_sdo + 1 + t.below(14) as u8) & 0xf;
                    ("other-majorSdoId".into(), m2.encode())
                } else {
                    m2.header.minor_sdo = m.header.minor_sdo.wrapping_add(1 + t.below(254) as u8);
                    ("other-minorSdoId".into(), m2.encode())
                }
            }
            2 => {
                m2.header.version = *t.pick(&[0u8, 1, 3, 4, 7, 15]);
                ("other-versionPTP".into(), m2.encode())
            }
            3 => {
                let mut b = m.encode();
                let kind = t.below(5);
                match kind {
                    0 => {
                        let cut = t.below(b.len() as u64) as usize;
                        b.truncate(cut);
                    }
                    1 => {
                        let l = b.len() as u16 + 1 + t.below(50) as u16;
                        b[2] = (l >> 8) as u8;
                        b[3] = l as u8;
                    }
                    2 => {
                        b[2] = 0;
                        b[3] = t.below(34) as u8;
                    }
                    3 => {
                        b[0] = (b[0] & 0xf0) | *t.pick(&[4u8, 5, 6, 7, 0xe, 0xf]);
                    }
                    _ => {
                        // bad TLV framing: dangling octets or odd length inside the declared length
                        if t.bool() {
                            b.extend([0u8; 3].iter().take(1 + t.below(3) as usize));
                        } else {
                            b.extend([0x40, 0x00, 0x00, 0x03, 1, 2, 3]);
                        }
                        let l = b.len() as u16;
                        b[2] = (l >> 8) as u8;
                        b[3] = l as u8;
                    }
                }
                (format!("malformed-{}", kind), b)
            }
            4 => {
                // Announce from an identity outside the acceptable list / bearing the port's own identity
                if ty != T_ANNOUNCE {
                    return None;
                }
                let own_listed = w.node.cfg.ports[p].aml.as_ref().map(|l| l.contains(&me.clock)).unwrap_or(true);
                if has_aml && !own_listed && t.bool() {
                    // the instance's own clock identity is outside the list too: an Announce that
                    // claims to come from a sibling port must be as ineffective as any other
                    m2.header.source = PortId { clock: me.clock, port: if t.bool() { 0 } else { me.port.wrapping_add(1) } };
                    ("announce-unacceptable-own-clock".into(), m2.encode())
                } else if has_aml && t.bool() {
                    m2.header.source = PortId { clock: [0, 0, 0, 0, 0, 0, 0, 0x66], port: 1 };
                    ("announce-unacceptable-master".into(), m2.encode())
                } else {
                    m2.header.source = me;
                    ("announce-own-port-identity".into(), m2.encode())
                }
            }
            5 => {
                // Sync / Follow_Up / Delay_Resp not sent by the selected parent
                if !matches!(ty, T_SYNC | T_FOLLOW_UP | T_DELAY_RESP) {
                    return None;
                }
                let other = match t.below(3) {
                    0 => PortId { clock: parent.clock, port: parent.port.wrapping_add(1) },
                    1 => PortId { clock: [0, 0, 0, 0, 0, 0, 0, 0x03], port: 1 },
                    _ => PortId { clock: [9, 9, 9, 9, 9, 9, 9, 9], port: parent.port },
                };
                if other == parent {
                    return None;
                }
                m2.header.source = other;
                ("not-from-parent".into(), m2.encode())
            }
            6 => {
                // Delay_Resp answering someone else's request
                if let RBody::DelayResp { receive, .. } = m.body {
                    let other = if t.bool() { PortId { clock: me.clock, port: me.port.wrapping_add(1 + t.below(3) as u16) } } else { PortId { clock: [7; 8], port: me.port } };
                    m2.body = RBody::DelayResp { receive, requesting: other };
                    m2.header.source = parent;
                    ("delay-resp-for-other-requester".into(), m2.encode())
                } else {
                    return None;
                }
            }
            _ => {
                // Sync/Follow_Up/Delay_Resp while the port is not slave
                if st == PS::Slave || !matches!(ty, T_SYNC | T_FOLLOW_UP | T_DELAY_RESP) {
                    return None;
                }
                ("slave-traffic-while-not-slave".into(), m.encode())
            }
        };
        Some((rebuild(&base, bytes, &class), class))
    })();
    w.ann_seq = save.0;
    w.sync_seq = save.1;
    w.last_sync = save.2;
    w.tick = save.3;
    res
}

pub fn case(t: &mut Tape) -> CaseOut {
    let mut out = CaseOut::new();
    let filters = [FilterKind::Rec, FilterKind::Rec, FilterKind::Kalman];
    let mut cfg = gen_node_cfg(t, 2, &filters);
    if t.chance(1, 2) {
        // give ports an acceptable master list more often than the default generator
        for pc in cfg.ports.iter_mut() {
            if t.bool() {
                pc.aml = Some(vec![[0, 0, 0, 0, 0, 0, 0, 1], [0, 0, 0, 0, 0, 0, 0, 2], [0, 0, 0, 0, 0, 0, 0, 3], cfg.identity]);
                if t.bool() {
                    pc.aml.as_mut().unwrap().pop(); // own clock identity not acceptable either
                }
            }
        }
    }
    let cfg_b = cfg.clone();
    // run A: generate H online, collect observations, build noise candidates
    let mut w = World::new(cfg, 1_700_000_000);
    let mut obs_a = Observer::new(&w.node);
    let nops = t.urange(3, 40);
    let mut h: Vec<COp> = vec![];
    let mut trace_a: Vec<Obs> = vec![];
    let mut noises: Vec<Noise> = vec![];
    let mut h_has_effect = false;
    for i in 0..nops {
        // maybe a noise insertion before op i
        let ninsert = t.weighted(&[5, 3, 1]);
        for _ in 0..ninsert {
            let p = t.below(w.node.nports() as u64) as usize;
            if let Some((op, class)) = gen_noise(&mut w, t, p) {
                noises.push(Noise { pos: i as usize, op, class, state: w.node.state(p) });
            }
        }
        let op = w.gen_op(t, &PROFILE);
        let before = w.node.states();
        let nm = w.node.rec_log.borrow().len();
        let res = w.step(&op);
        if w.node.states() != before || w.node.rec_log.borrow().len() != nm {
            h_has_effect = true;
        }
        trace_a.push(obs_a.observe(&w.node, res));
        h.push(op);
    }
    if !w.node.monitor.is_empty() {
        out.fail("monitor", w.node.monitor.join("; "));
    }
    // run B: replay H with the insertions
    let mut node_b = Node::new(cfg_b);
    let mut obs_b = Observer::new(&node_b);
    let mut ni = 0;
    let mut sensitive = false;
    'outer: for (i, op) in h.iter().enumerate() {
        while ni < noises.len() && noises[ni].pos == i {
            let nz = &noises[ni];
            ni += 1;
            let pre = obs_b.observe(&node_b, vec![]);
            let res = apply(&mut node_b, &nz.op);
            let post = obs_b.observe(&node_b, vec![]);
            out.label(format!("{}@{:?}", nz.class, nz.state));
            if nz.state == PS::Slave {
                sensitive = true;
            }
            let emitted: usize = res.iter().map(|(_, a)| a.len()).sum();
            if emitted != 0 {
                out.fail(format!("noise frame ({}) produced actions", nz.class), format!("{:?} for {}", res, nz.op.brief()));
                break 'outer;
            }
            if pre.states != post.states || pre.ds != post.ds || !post.clock.is_empty() || !post.rec.is_empty() || pre.link_delays != post.link_delays || pre.timers != post.timers {
                out.fail(format!("noise frame ({}) changed observable state", nz.class), format!("{} ; before {:?} after {:?}", nz.op.brief(), pre, post));
                break 'outer;
            }
        }
        let res = apply(&mut node_b, op);
        let ob = obs_b.observe(&node_b, res);
        if ob != trace_a[i] {
            let cls: Vec<String> = noises.iter().filter(|n| n.pos <= i).map(|n| n.class.clone()).collect();
            let which = cls.last().cloned().unwrap_or_default();
            out.fail(
                format!("run with insertions diverges from the run without (last inserted class {})", which),
                format!("at H[{}] = {} ; without: {:?} ; with: {:?} ; insertions so far {:?}", i, op.brief(), trace_a[i], ob, noises.iter().filter(|n| n.pos <= i).map(|n| n.op.brief()).collect::<Vec<_>>()),
            );
            break;
        }
    }
    let lm = lock_mon_take();
    if !lm.nested.is_empty() {
        out.fail("nested lock acquisition", lm.nested.join("; "));
    }
    out.render = json!({"H": h.iter().map(|o| o.brief()).collect::<Vec<_>>(), "insertions": noises.iter().map(|n| json!({"before": n.pos, "class": n.class, "state": format!("{:?}", n.state), "frame": n.op.json()})).collect::<Vec<_>>()});
    if sensitive && h_has_effect && !noises.is_empty() {
        out.nontrivial = Some(hash_of(&format!("{:?}{:?}", h, noises.iter().map(|n| (&n.class, n.pos)).collect::<Vec<_>>())));
    }
    out
}

pub fn run(ctx: &Ctx) -> i32 {
    let mut rep = Report::new();
    run_cases(ctx, &mut rep, "pairs", ctx.cases(400_000, 8_000_000), case);
    // the real daemon, slaved to the harness: the same classes of ignorable traffic, timed against its live exchanges
    let workers = (ctx.threads as u64 / 2).clamp(2, 8);
    let sum = crate::daemon::run_part(ctx, &mut rep, ctx.cases(workers, 10 * workers), workers);
    if let Some(why) = &sum.skipped {
        println!("note: end-to-end daemon part skipped ({}); the other parts are unaffected", why);
    }
    finish(
        Finish {
            ctx,
            level: "exploration",
            rule: "base history H (<= 40 ops, well-formed traffic so that ports become master/slave/passive and hold half-collected exchanges; 1-2 ports; acceptable-master lists on half of the ports; recording or Kalman filter) and insertions of noise frames, each built from a frame that would have had an effect in the state at the insertion point and then broken in exactly one way (other domainNumber / majorSdoId / minorSdoId, versionPTP != 2, malformed in 5 ways, Announce from outside the acceptable list or with the port's own identity, Sync/Follow_Up/Delay_Resp not from the selected parent, Delay_Resp for another requester, slave traffic while not slave). Run A = H, run B = H with insertions on identically seeded ports; oracle: identical action lists, port states, data sets, clock-call log, filter log, link delays and armed timers after every op of H, and every inserted call returns no actions and changes nothing. Non-trivial = >= 1 insertion while the port is Slave and H alone changes state or produces a measurement; distinct by (H, insertion classes and positions). Part daemon: the real statime daemon slaved for 4 s to a grandmaster played by the harness whose clock is the system clock, then 3-5 s more while 40-120 frames per second of the same classes are added (header-level disguises of frames that would have had an effect; Announce with the receiving port's own identity or from outside the acceptable master list (half of the daemons have one); Sync / Follow_Up / Delay_Resp not from the parent or for another requester, placed between the parent's Sync and Follow_Up or ahead of its Delay_Resp with the very sequence id; timestamps 5 ms..5 s off); oracle: observable port states, parentDS, stepsRemoved and timePropertiesDS never change, every logged measurement stays within 2 ms of zero (before the noise: within 0.6 ms, else inconclusive), no more measurements than honest exchanges, the master port's Announces count on by one with one content, no Delay_Resp / Pdelay_Resp to a requester of another domain, no two Announces or Syncs of the master port closer than 0.8 interval; workers 4-7 configure the second port master-only. Non-trivial there = >= 50 noise frames and >= 5 measurements of each kind.",
            assumptions: vec!["only the noise classes named in the statement are inserted (a Delay_Resp from the parent for this port with a stale sequence id is not noise)".into()],
            min_nontrivial: 100,
        },
        rep,
    )
}

pub fn replay(ctx: &Ctx, path: &str) -> i32 {
    let s = std::fs::read_to_string(path).expect("read replay");
    let v: serde_json::Value = serde_json::from_str(&s).expect("parse");
    if v["part"].as_str() == Some("daemon") {
        return crate::daemon::replay_part(ctx, path, 2);
    }
    replay_file(ctx, path, case)
}
