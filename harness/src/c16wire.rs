//! C16 part `wire`: Time -> (seconds, nanoseconds, correctionField) -> Time
//! observed end-to-end through Follow_Up frames of a real master port.

use crate::engine::*;
use crate::host::*;
use crate::refcodec::*;
use serde_json::json;

const NS: u128 = 1_000_000_000;

pub fn master_node() -> Node {
    let mut node = Node::new(NodeCfg::default());
    node.timer(0, TimerKind::Receipt);
    assert_eq!(node.state(0), PS::Master, "harness: receipt timeout must make the port master");
    node
}

fn gen_time_bits(t: &mut Tape) -> u128 {
    let secs: u128 = match t.weighted(&[3, 2, 2, 1, 1, 1]) {
        0 => t.below(4_000_000_000) as u128,
        1 => t.below(100) as u128,
        2 => t.below(1 << 48) as u128,
        3 => (1u128 << 32) - 2 + t.below(4) as u128,
        4 => 18_446_744_072 + t.below(4) as u128, // around 2^64 ns
        _ => (1u128 << 48) - 1 - t.below(3) as u128,
    };
    let nanos: u128 = match t.weighted(&[3, 1, 1]) {
        0 => t.below(1_000_000_000) as u128,
        1 => 0,
        _ => 999_999_999,
    };
    let frac: u128 = match t.weighted(&[2, 2, 1, 1, 1]) {
        0 => 0,
        1 => t.below(1 << 32) as u128,
        2 => (1 << 16) - 1 + t.below(3) as u128,
        3 => (1u128 << 32) - 1,
        _ => 1 << t.below(32),
    };
    ((secs * NS + nanos) << 32) | frac
}

pub fn case_wire(t: &mut Tape) -> CaseOut {
    let mut out = CaseOut::new();
    let mut node = master_node();
    let n = t.urange(1, 4);
    let mut rendered = vec![];
    for _ in 0..n {
        let tb = gen_time_bits(t);
        rendered.push(format!("0x{:x}", tb));
        let acts = node.timer(0, TimerKind::Sync);
        let ctx = acts.iter().find_map(|a| if let OAction::SendEvent { ctx, .. } = a { Some(*ctx) } else { None });
        let Some(ctx) = ctx else {
            out.fail("harness: master emitted no Sync", "");
            break;
        };
        let (_, acts) = node.tx_timestamp(ctx, time_from_bits(tb)).unwrap();
        let fup = acts.iter().find_map(|a| if let OAction::SendGeneral { data, .. } = a { decode(data).ok() } else { None });
        let Some(fup) = fup else {
            out.fail("no Follow_Up for reported transmit timestamp", format!("T=0x{:x}", tb));
            break;
        };
        let RBody::FollowUp { precise_origin } = fup.body else {
            out.fail("frame after transmit timestamp is not Follow_Up", format!("T=0x{:x}", tb));
            break;
        };
        if precise_origin.nanos >= 1_000_000_000 {
            out.fail("wire nanoseconds >= 1e9", format!("T=0x{:x} -> {:?}", tb, precise_origin));
        }
        // reconstruct in units of 2^-16 ns
        let got: i128 = ((precise_origin.total_ns() as i128) << 16) + fup.header.correction as i128;
        let want: i128 = (tb >> 16) as i128;
        if got != want {
            out.fail("time->wire->time not exact to 2^-16 ns", format!("T=0x{:x}: wire {:?} corr {} reconstructs {} want {}", tb, precise_origin, fup.header.correction, got, want));
        }
        if (tb & 0xffff_ffff) != 0 {
            out.nontrivial = Some(hash_of(&tb));
        }
        if tb >> 32 >= (1u128 << 64) {
            out.label("time>=2^64ns");
        }
    }
    out.render = json!({"kind": "wire", "tx_timestamps_bits": rendered});
    out
}

pub fn run_wire(ctx: &Ctx, rep: &mut Report) {
    run_cases(ctx, rep, "wire", ctx.cases(200_000, 10_000_000), case_wire);
}
