#!/bin/bash
# tools/try_mutant.sh <patch.diff> <ID> [tier]  : apply the patch to a scratch copy of /repo (never to /repo
# itself, so other runs are not disturbed), run the check against the copy (VERIF_SUT). One at a time (lock).
P=$(readlink -f "$1"); ID=$2; TIER=${3:-quick}
SUT=/tmp/mut-sut; VD=/tmp/mut-verif-$$
exec 9>/tmp/mut-alt.lock; flock 9
mkdir -p $SUT $VD
# sync to /repo's working tree; touch whatever changed so cargo's mtime fingerprints notice reverts
rsync -a --checksum --delete --exclude target --exclude .git --out-format='%n' /repo/ $SUT/ | while read f; do [ -f "$SUT/$f" ] && touch "$SUT/$f"; done
( cd $SUT && git apply --unsafe-paths --directory=$SUT "$P" 2>/dev/null || patch -p1 -s < "$P" ) || { echo "APPLY FAILED"; rm -rf $VD; exit 3; }
cp /verif/known_findings.json $VD/
cd /verif && VERIF_SUT=$SUT VERIF_DIR=$VD ./vcheck $ID --tier $TIER 2>&1 | grep -v "^  detail" | cut -c1-400 | tail -12; echo "exit=${PIPESTATUS[0]}"
rm -rf $VD
