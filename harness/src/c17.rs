//! C17 — shared instance state never locked re-entrantly or seen half-updated.
//! (1) nesting monitor over the histories of the other checks, (2) snapshots
//! at every lock release point, (3) schedule injection with real threads at
//! lock-release granularity + serialisability oracle.

use crate::engine::*;
use crate::host::*;
use crate::refcodec::*;
use serde_json::json;
use statime::config::{ClockIdentity, ClockQuality, DelayMechanism, InstanceConfig, PortConfig, PtpMinorVersion, SdoId, TimePropertiesDS, TimeSource};
use statime::filters::BasicFilter;
use statime::port::{InBmca, Port};
use statime::time::{Duration, Interval, Time};
use statime::{Clock, PtpInstance, PtpInstanceState, PtpInstanceStateMutex};
use std::cell::RefCell;
use std::rc::Rc;
use std::sync::{Condvar, Mutex, RwLock};

const OWN: [u8; 8] = [0, 0, 0, 0, 0, 0, 0, 0x10];
const PARENT: PortId = PortId { clock: [0, 0, 0, 0, 0, 0, 0, 0x02], port: 1 };
const RIVAL: PortId = PortId { clock: [0, 0, 0, 0, 0, 0, 0, 0x03], port: 1 };

// ---------------------------------------------------------------------------
// (1) nesting monitor over the other checks' generators

fn monitor_case(which: usize, t: &mut Tape) -> CaseOut {
    LOCK_STATS.with(|s| s.set((0, 0, 0)));
    let mut out = match which {
        0 => {
            let mut o = CaseOut::new();
            crate::c03::run_history(t, 50, &mut o);
            o
        }
        1 => crate::c08::case_with(t, 40),
        2 => crate::c11::case(t),
        3 => crate::c15::case(t),
        4 => crate::c05::case(t),
        _ => crate::c14::case(t),
    };
    let (acq, mut_acq, nested) = LOCK_STATS.with(|s| s.get());
    // only lock discipline is C17's business here
    let keep = out.violation.as_ref().map(|v| v.sig.contains("nested lock") || v.sig.contains("DepthMutex") || v.detail.contains("DepthMutex")).unwrap_or(false);
    if !keep {
        out.violation = None;
        if nested > 0 {
            out.fail("nested lock acquisition", format!("{} nested acquisitions in a history of generator {}", nested, which));
        }
    } else if let Some(v) = out.violation.as_mut() {
        v.sig = "nested lock acquisition".into();
    }
    out.labels.clear();
    out.label(format!("generator:{}", ["C03", "C08", "C11", "C15", "C05", "C14"][which]));
    out.nontrivial = if mut_acq >= 2 && acq >= 10 { Some(hash_of(&(which, acq, mut_acq, t.used()))) } else { None };
    out
}

// ---------------------------------------------------------------------------
// (2) snapshots at every outermost exclusive release

fn version_announce(k: u8) -> (RAnnounce, u8) {
    let mut gm = [0xc0u8; 8];
    gm[7] = k;
    let ann = RAnnounce {
        origin: RTs::default(),
        utc_offset: k as i16,
        reserved: 0,
        gm_priority1: k % 100,
        gm_class: k,
        gm_accuracy: 0x21,
        gm_variance: 1000 + k as u16,
        gm_priority2: k,
        gm_identity: gm,
        steps_removed: (k % 200) as u16,
        time_source: 0xf0 + (k % 15),
    };
    // flags: utc valid always; ptp timescale / traceable bits from k
    let flags1 = 0x04 | ((k & 1) << 3) | (((k >> 1) & 1) << 4) | (((k >> 2) & 1) << 5);
    (ann, flags1)
}

#[derive(Default)]
struct SnapMon {
    problems: Vec<String>,
    snapshots: u64,
    own_qualities: Vec<(u8, u8, u16)>,
}

fn check_snapshot(inst: &Inst, mon: &mut SnapMon) {
    mon.snapshots += 1;
    let p = inst.parent_ds();
    let tp = inst.time_properties_ds();
    // parent data set: all fields of one version k, or all the instance's own
    let gm = p.grandmaster_identity.0;
    let q = p.grandmaster_clock_quality;
    if gm == OWN {
        let ok = p.grandmaster_priority_1 == 128 && p.grandmaster_priority_2 == 128 && p.parent_port_identity.clock_identity.0 == OWN && mon.own_qualities.contains(&(q.clock_class, q.clock_accuracy.to_primitive(), q.offset_scaled_log_variance));
        if !ok {
            mon.problems.push(format!("parentDS names the instance as grandmaster but mixes in foreign values: {:?}", p));
        }
    } else if gm[..7] == [0xc0; 7] {
        let k = gm[7];
        let ok = q.clock_class == k && q.offset_scaled_log_variance == 1000 + k as u16 && p.grandmaster_priority_1 == k % 100 && p.grandmaster_priority_2 == k && p.parent_port_identity.clock_identity.0 != OWN;
        if !ok {
            mon.problems.push(format!("parentDS mixes two updates (grandmaster identity of version {}): {:?}", k, p));
        }
    }
    // across the data sets: one Announce of the parent updates currentDS, parentDS and timePropertiesDS under a single
    // exclusive acquisition, so at a release point all three carry the same version
    if gm != OWN && gm[..7] == [0xc0; 7] {
        let k = gm[7];
        let cur = inst.current_ds(None);
        if cur.steps_removed != (k % 200) as u16 + 1 {
            mon.problems.push(format!("currentDS.stepsRemoved {} is not of the update (version {}) that parentDS shows", cur.steps_removed, k));
        }
        match tp.current_utc_offset {
            Some(u) if (0..=255).contains(&u) && u as u8 == k => {}
            other => mon.problems.push(format!("timePropertiesDS (utc offset {:?}) is not of the update (version {}) that parentDS shows", other, k)),
        }
    }
    // time properties: utc offset k <-> time source / flags of the same k; or the local values
    match tp.current_utc_offset {
        Some(u) if (0..=255).contains(&u) => {
            let k = u as u8;
            let ok = tp.time_source.to_primitive() == 0xf0 + (k % 15) && tp.ptp_timescale == (k & 1 != 0) && tp.time_traceable == ((k >> 1) & 1 != 0) && tp.frequency_traceable == ((k >> 2) & 1 != 0);
            if !ok {
                mon.problems.push(format!("timePropertiesDS mixes two updates (utc offset of version {}): {:?}", k, tp));
            }
        }
        Some(_) => {} // unversioned source (rival master): not decoded
        None => {
            if tp.time_source.to_primitive() != 0xa0 || tp.time_traceable || tp.frequency_traceable {
                mon.problems.push(format!("timePropertiesDS mixes local and received values: {:?}", tp));
            }
        }
    }
}

fn case_snapshots(t: &mut Tape) -> CaseOut {
    let mut out = CaseOut::new();
    let mut cfg = NodeCfg::default();
    cfg.identity = OWN;
    cfg.ports = vec![PortCfg::default(); 2];
    let path_trace = t.chance(1, 3);
    cfg.path_trace = path_trace;
    let mut node = Node::new(cfg);
    let mon = Rc::new(RefCell::new(SnapMon::default()));
    mon.borrow_mut().own_qualities.push((248, 0xfe, 0x8000 - 23 * 256));
    let inst_ptr: *const Inst = node.inst();
    {
        let mon = mon.clone();
        set_release_hook(Some(Box::new(move || {
            // SAFETY: the instance outlives the hook (removed at the end of the case); only &self getters are used
            let inst = unsafe { &*inst_ptr };
            check_snapshot(inst, &mut mon.borrow_mut());
        })));
    }
    let mut k: u8 = 1 + t.below(200) as u8;
    let mut seq = [0u16; 2];
    let nops = t.urange(3, 40);
    let mut rendered = vec![];
    let mut s1_updates = 0;
    for _ in 0..nops {
        match t.weighted(&[8, 4, 2, 2, 2, 2, 1]) {
            0 => {
                if t.chance(2, 3) {
                    k = 1 + ((k as u64 + 1 + t.below(50)) % 250) as u8;
                }
                let (ann, f1) = version_announce(k);
                seq[0] = seq[0].wrapping_add(1);
                let mut m = announce_from(PARENT, seq[0], ann, 0, 0);
                m.header.flags[1] = f1;
                let mut plen = 0;
                if path_trace && t.chance(3, 4) {
                    // the parent's path: short, or around the 128-entry capacity of the path trace list (frames > 1024 bytes)
                    plen = *t.pick(&[1usize, 2, 3, 64, 127, 128, 129, 130, 200]);
                    let mut v = Vec::with_capacity(plen * 8);
                    for i in 0..plen {
                        v.extend_from_slice(&[0xee, 0, 0, 0, 0, 0, (i >> 8) as u8, i as u8]);
                    }
                    m.tlvs.push(RTlv { typ: 0x0008, value: v });
                }
                node.recv_general(0, &m.encode());
                rendered.push(format!("parent announce version {} path entries {}", k, plen));
                if node.state(0) == PS::Slave {
                    s1_updates += 1;
                }
            }
            1 => {
                node.bmca();
                rendered.push("bmca".into());
            }
            2 => {
                let kk = 1 + t.below(250) as u8;
                let (mut ann, f1) = version_announce(kk);
                ann.gm_priority1 = 120;
                ann.gm_identity[0] = 0xd0; // not a versioned identity: excluded from the homogeneity decoding
                ann.utc_offset = 1000; // outside the versioned range
                // a rival never wins against the parent (priority1 < 100) but exercises port 2
                seq[1] = seq[1].wrapping_add(1);
                let mut m = announce_from(RIVAL, seq[1], ann, 0, 0);
                m.header.flags[1] = f1;
                let _ = kk;
                node.recv_general(1, &m.encode());
                rendered.push("rival announce on port 2".into());
            }
            3 => {
                let q = (*t.pick(&[248u8, 200, 187]), *t.pick(&[0xfeu8, 0x25]), *t.pick(&[0xffffu16, 77]));
                mon.borrow_mut().own_qualities.push(q);
                node.set_clock_quality(q.0, q.1, q.2);
                rendered.push(format!("set_clock_quality {:?}", q));
            }
            4 => {
                let p = t.below(2) as usize;
                node.timer(p, TimerKind::Receipt);
                rendered.push(format!("p{} receipt timeout", p + 1));
            }
            5 => {
                for _ in 0..6 {
                    node.bmca();
                }
                rendered.push("6 x bmca".into());
            }
            _ => {
                node.set_slave_only(t.bool());
                rendered.push("set_slave_only".into());
            }
        }
        if !mon.borrow().problems.is_empty() {
            break;
        }
    }
    set_release_hook(None);
    let m = mon.borrow();
    if let Some(p) = m.problems.first() {
        out.fail("data set snapshot at a lock release point shows a mixture of two updates", format!("{} ; ops {:?}", p, rendered));
    }
    let lm = lock_mon_take();
    if !lm.nested.is_empty() {
        out.fail("nested lock acquisition", lm.nested.join("; "));
    }
    out.render = json!({"ops": rendered, "snapshots": m.snapshots});
    if s1_updates > 0 && m.snapshots > 2 {
        out.nontrivial = Some(hash_of(&rendered));
    }
    out
}

// ---------------------------------------------------------------------------
// (3) schedule injection with real threads: an operation is parked right after
// one of its lock releases while another operation runs to completion.

struct ParkCtl {
    /// thread that should be parked, and after which of its releases (1-based)
    park_after: Option<u32>,
    releases_seen: u32,
    parked: bool,
    resume: bool,
}

static PARK: Mutex<ParkCtl> = Mutex::new(ParkCtl { park_after: None, releases_seen: 0, parked: false, resume: false });
static PARK_CV: Condvar = Condvar::new();
thread_local! {
    static IS_VICTIM: std::cell::Cell<bool> = std::cell::Cell::new(false);
}

pub struct ParkMutex(RwLock<PtpInstanceState>);

impl ParkMutex {
    fn released(&self) {
        if !IS_VICTIM.with(|v| v.get()) {
            return;
        }
        let mut g = PARK.lock().unwrap();
        g.releases_seen += 1;
        if g.park_after == Some(g.releases_seen) {
            g.parked = true;
            PARK_CV.notify_all();
            while !g.resume {
                g = PARK_CV.wait(g).unwrap();
            }
        }
    }
}

impl PtpInstanceStateMutex for ParkMutex {
    fn new(state: PtpInstanceState) -> Self {
        ParkMutex(RwLock::new(state))
    }
    fn with_ref<R, F: FnOnce(&PtpInstanceState) -> R>(&self, f: F) -> R {
        let r = {
            let g = self.0.read().unwrap();
            f(&g)
        };
        self.released();
        r
    }
    fn with_mut<R, F: FnOnce(&mut PtpInstanceState) -> R>(&self, f: F) -> R {
        let r = {
            let mut g = self.0.write().unwrap();
            f(&mut g)
        };
        self.released();
        r
    }
}

struct NullClock;
impl Clock for NullClock {
    type Error = ();
    fn now(&self) -> Time {
        Time::from_secs(1_700_000_000)
    }
    fn step_clock(&mut self, _o: Duration) -> Result<Time, ()> {
        Ok(self.now())
    }
    fn set_frequency(&mut self, _p: f64) -> Result<Time, ()> {
        Ok(self.now())
    }
    fn set_properties(&mut self, _p: &TimePropertiesDS) -> Result<(), ()> {
        Ok(())
    }
}

type TInst = PtpInstance<BasicFilter, ParkMutex>;
type TPort<'a> = Port<'a, InBmca, Option<Vec<ClockIdentity>>, rand::rngs::StdRng, NullClock, BasicFilter, ParkMutex>;

fn t_instance() -> TInst {
    PtpInstance::new(
        InstanceConfig { clock_identity: ClockIdentity(OWN), priority_1: 128, priority_2: 128, domain_number: 0, slave_only: false, sdo_id: SdoId::default(), path_trace: false, clock_quality: quality(248, 0xfe, 0x8000 - 23 * 256) },
        TimePropertiesDS::new_arbitrary_time(false, false, TimeSource::InternalOscillator),
    )
}

fn t_port(inst: &TInst) -> TPort<'_> {
    use rand::SeedableRng;
    inst.add_port(
        PortConfig {
            acceptable_master_list: None,
            delay_mechanism: DelayMechanism::E2E { interval: Interval::from_log_2(0) },
            announce_interval: Interval::from_log_2(0),
            announce_receipt_timeout: 3,
            sync_interval: Interval::from_log_2(0),
            master_only: false,
            delay_asymmetry: Duration::ZERO,
            minor_ptp_version: PtpMinorVersion::One,
        },
        0.25,
        NullClock,
        rand::rngs::StdRng::seed_from_u64(7),
    )
}

#[derive(Clone, Copy, Debug)]
enum VictimOp {
    SetQuality(u8, u8, u16),
    SetSlaveOnly(bool),
}

#[derive(Debug, PartialEq, Clone)]
struct Final {
    parent: String,
    default_quality: String,
    slave_only: bool,
    state_is_slave: bool,
}

/// run: prelude (optionally make the port slave of PARENT version k0), then victim op and a BMCA
/// (with PARENT version k qualified or not) in the given schedule:
/// park = None: victim first then bmca ; Some(0): bmca first then victim ; Some(i>0): victim parked after its i-th release
fn run_schedule(start_slave: bool, k: u8, qualify: bool, victim: VictimOp, park: Option<u32>) -> (Final, u32, Vec<String>) {
    let inst = t_instance();
    let port = t_port(&inst);
    let (mut port, _) = port.end_bmca();
    let mut problems = vec![];
    let send = |port: &mut Port<'_, statime::port::Running, Option<Vec<ClockIdentity>>, rand::rngs::StdRng, NullClock, BasicFilter, ParkMutex>, kk: u8, seq: u16| {
        let (ann, f1) = version_announce(kk);
        let mut m = announce_from(PARENT, seq, ann, 0, 0);
        m.header.flags[1] = f1;
        let data = m.encode();
        for _a in port.handle_general_receive(&data) {}
    };
    let mut seq = 1u16;
    if start_slave {
        send(&mut port, 7, seq);
        send(&mut port, 7, seq + 1);
        seq += 2;
        let mut b = port.start_bmca();
        inst.bmca(&mut [&mut b]);
        port = b.end_bmca().0;
    }
    if qualify {
        send(&mut port, k, seq);
        send(&mut port, k, seq + 1);
    } else if start_slave {
        // silence: let the records expire in the interfering BMCA runs (several rounds)
    }
    let mut bport = port.start_bmca();
    {
        let mut g = PARK.lock().unwrap();
        *g = ParkCtl { park_after: park.filter(|p| *p > 0), releases_seen: 0, parked: false, resume: false };
    }
    let do_victim = |inst: &TInst| match victim {
        VictimOp::SetQuality(c, a, v) => inst.set_clock_quality(quality(c, a, v)),
        VictimOp::SetSlaveOnly(b) => inst.set_slave_only(b),
    };
    let rounds = if qualify { 1 } else { 6 };
    let mut releases = 0;
    match park {
        None => {
            IS_VICTIM.with(|v| v.set(true));
            do_victim(&inst);
            IS_VICTIM.with(|v| v.set(false));
            releases = PARK.lock().unwrap().releases_seen;
            for _ in 0..rounds {
                inst.bmca(&mut [&mut bport]);
            }
        }
        Some(0) => {
            for _ in 0..rounds {
                inst.bmca(&mut [&mut bport]);
            }
            do_victim(&inst);
        }
        Some(_) => {
            std::thread::scope(|s| {
                let h = s.spawn(|| {
                    IS_VICTIM.with(|v| v.set(true));
                    do_victim(&inst);
                });
                // wait until the victim is parked (or finished without reaching that release)
                {
                    let mut g = PARK.lock().unwrap();
                    let deadline = std::time::Instant::now() + std::time::Duration::from_secs(5);
                    while !g.parked && !h.is_finished() && std::time::Instant::now() < deadline {
                        g = PARK_CV.wait_timeout(g, std::time::Duration::from_millis(2)).unwrap().0;
                    }
                }
                for _ in 0..rounds {
                    inst.bmca(&mut [&mut bport]);
                }
                // observer snapshot while the victim is still in the middle of its operation
                let p = inst.parent_ds();
                let gm = p.grandmaster_identity.0;
                if gm != OWN && gm[..7] == [0xc0; 7] && p.grandmaster_clock_quality.clock_class != gm[7] {
                    problems.push(format!("observer saw parentDS with grandmaster version {} but clock class {}", gm[7], p.grandmaster_clock_quality.clock_class));
                }
                {
                    let mut g = PARK.lock().unwrap();
                    g.resume = true;
                    PARK_CV.notify_all();
                }
                let _ = h.join();
            });
        }
    }
    let fin = Final {
        parent: format!("{:?}", inst.parent_ds()),
        default_quality: format!("{:?}", inst.default_ds().clock_quality),
        slave_only: inst.default_ds().slave_only,
        state_is_slave: bport.is_steering(),
    };
    (fin, releases, problems)
}

fn schedules(rep: &mut Report) {
    let t0 = std::time::Instant::now();
    let mut total = 0u64;
    let mut first: Option<(String, String, serde_json::Value)> = None;
    let victims = [VictimOp::SetQuality(187, 0x25, 77), VictimOp::SetQuality(6, 0x20, 1), VictimOp::SetSlaveOnly(true)];
    for &start_slave in &[false, true] {
        for &qualify in &[true, false] {
            for (vi, &victim) in victims.iter().enumerate() {
                let k = 42u8;
                // serial references
                let (a, releases, _) = run_schedule(start_slave, k, qualify, victim, None);
                let (b, _, _) = run_schedule(start_slave, k, qualify, victim, Some(0));
                total += 2;
                for i in 1..=releases.max(1) + 1 {
                    let (f, _, problems) = run_schedule(start_slave, k, qualify, victim, Some(i));
                    total += 1;
                    crate::engine::PROGRESS.fetch_add(1, std::sync::atomic::Ordering::Relaxed);
                    rep.nontrivial.insert(hash_of(&("sched", start_slave, qualify, vi, i)));
                    let case = json!({"start_slave": start_slave, "parent_qualified": qualify, "victim": format!("{:?}", victim), "parked_after_release": i});
                    if let (Some(p), None) = (problems.first(), &first) {
                        first = Some(("observer saw a half-updated data set".into(), p.clone(), case.clone()));
                    }
                    if f != a && f != b && first.is_none() {
                        first = Some((
                            "interleaved run matches no serial order of the two operations".into(),
                            format!("victim {:?} parked after release {} while BMCA ran: final {:?} ; victim-then-bmca {:?} ; bmca-then-victim {:?}", victim, i, f, a, b),
                            case,
                        ));
                    }
                }
            }
        }
    }
    rep.evaluations += total;
    rep.parts.push(json!({"part": "schedule-injection", "cases": total, "exhaustive": true, "wall_s": t0.elapsed().as_secs_f64(),
        "what": "real threads over an RwLock-based lock that parks the victim operation (set_clock_quality / set_slave_only) after each of its lock releases while BMCA rounds (parent qualified or expiring, port listening or slave) run to completion; final state must equal one of the two serial orders, observer snapshots must be homogeneous"}));
    if let Some((sig, detail, r)) = first {
        rep.violations.push((Violation { sig: format!("{}|schedule", sig), detail }, vec![], r));
        rep.viol_parts.push("schedule-injection".into());
    }
}

pub fn run(ctx: &Ctx) -> i32 {
    let mut rep = Report::new();
    schedules(&mut rep);
    let n = ctx.cases(30_000, 1_000_000);
    for which in 0..6 {
        let name = format!("monitor-{}", ["C03", "C08", "C11", "C15", "C05", "C14"][which]);
        run_cases(ctx, &mut rep, &name, n, move |t| monitor_case(which, t));
    }
    run_cases(ctx, &mut rep, "snapshots", ctx.cases(100_000, 3_000_000), case_snapshots);
    // the real daemon (std RwLock, one task per port, BMCA and observer running) under concurrent load
    let workers = (ctx.threads as u64 / 2).clamp(2, 8);
    let sum = crate::daemon::run_part(ctx, &mut rep, ctx.cases(6 * workers, 60 * workers), workers);
    if let Some(why) = &sum.skipped {
        println!("note: end-to-end daemon part skipped ({}); the other parts are unaffected", why);
    }
    finish(
        Finish {
            ctx,
            level: "exploration",
            rule: "(monitor-*) the history generators of C03, C08, C11, C15, C05 and C14 re-run over a lock implementation that records every acquisition requested while the lock is already held (shared-in-shared included); (snapshots) dedicated boundary-clock histories in which every parent Announce carries a version number encoded redundantly in all fields of all data sets it touches, with parent_ds / current_ds / time_properties_ds read at every outermost exclusive release and required to be homogeneous, each by itself and (while parentDS shows a versioned parent) across the three; a third of the cases with path trace on and parent paths of 1..200 entries (frames beyond 1024 bytes); (schedule-injection) real threads over an RwLock-based lock that parks set_clock_quality / set_slave_only after each of their lock releases while BMCA rounds run, compared with both serial orders; (daemon) the real statime daemon as a two-port boundary clock in a private network namespace: in half of the cases first a BMCA-decided hand-over of the slave role to the other port and back (a better master appearing there for 0.5-0.9 s), observed every 15 ms - each observation must be of one instant (slave ports vs parentDS vs stepsRemoved); then for 0.4-1.2 s both ports are loaded at the same time with generated mixes of traffic that takes the instance-state lock (parent Announces with changing contents and TLVs to forward, Sync/Follow_Up, Delay_Resp, Delay_Req from several requesters, Announces of worse masters, Pdelay_Req) while BMCA runs every 125 ms and the observation socket is polled; afterwards the daemon must be alive, announce, answer a fresh Delay_Req and the observation socket. Non-trivial (monitor) = >= 2 exclusive and >= 10 total acquisitions in the history; (snapshots) >= 1 S1 update through handle_announce and > 2 snapshots; distinct by history.",
            assumptions: vec![
                "a thread can only interleave between lock acquisitions, so release points enumerate exactly the states another thread can observe; OS scheduling is not otherwise controlled".into(),
                "BMCA cannot run concurrently with port handlers (type state), so only instance-level setters and observers are interleaved with it".into(),
            ],
            min_nontrivial: 100,
        },
        rep,
    )
}

pub fn replay(ctx: &Ctx, path: &str) -> i32 {
    let s = std::fs::read_to_string(path).expect("read replay");
    let v: serde_json::Value = serde_json::from_str(&s).expect("parse");
    let part = v["part"].as_str().unwrap_or("snapshots").to_string();
    if part == "daemon" {
        return crate::daemon::replay_part(ctx, path, 8);
    }
    if part == "schedule-injection" {
        let mut rep = Report::new();
        schedules(&mut rep);
        return if rep.violations.is_empty() { println!("replay passed"); 0 } else { println!("VIOLATION property=C17 replay={}\n  {}\n  {}", path, rep.violations[0].0.sig, rep.violations[0].0.detail); 1 };
    }
    if let Some(g) = part.strip_prefix("monitor-") {
        let which = ["C03", "C08", "C11", "C15", "C05", "C14"].iter().position(|x| *x == g).unwrap_or(0);
        return replay_file(ctx, path, move |t| monitor_case(which, t));
    }
    replay_file(ctx, path, case_snapshots)
}
