//! Independent IEEE 1588-2019 wire codec (Clause 13, 14.1, 15.4.1), written
//! from the standard with explicit offset tables. It never uses statime types.
//! Reserved octets/bits are carried raw so "reserved aside" comparisons are
//! explicit.

use crate::engine::Tape;

pub const T_SYNC: u8 = 0x0;
pub const T_DELAY_REQ: u8 = 0x1;
pub const T_PDELAY_REQ: u8 = 0x2;
pub const T_PDELAY_RESP: u8 = 0x3;
pub const T_FOLLOW_UP: u8 = 0x8;
pub const T_DELAY_RESP: u8 = 0x9;
pub const T_PDELAY_RESP_FUP: u8 = 0xa;
pub const T_ANNOUNCE: u8 = 0xb;
pub const T_SIGNALING: u8 = 0xc;
pub const T_MANAGEMENT: u8 = 0xd;
pub const ALL_TYPES: [u8; 10] = [0x0, 0x1, 0x2, 0x3, 0x8, 0x9, 0xa, 0xb, 0xc, 0xd];

// flagField bits, (octet, bit)
pub const F_ALT_MASTER: (usize, u8) = (0, 0);
pub const F_TWO_STEP: (usize, u8) = (0, 1);
pub const F_UNICAST: (usize, u8) = (0, 2);
pub const F_PROFILE1: (usize, u8) = (0, 5);
pub const F_PROFILE2: (usize, u8) = (0, 6);
pub const F_LEAP61: (usize, u8) = (1, 0);
pub const F_LEAP59: (usize, u8) = (1, 1);
pub const F_UTC_VALID: (usize, u8) = (1, 2);
pub const F_PTP_TIMESCALE: (usize, u8) = (1, 3);
pub const F_TIME_TRACEABLE: (usize, u8) = (1, 4);
pub const F_FREQ_TRACEABLE: (usize, u8) = (1, 5);
pub const F_SYNC_UNCERTAIN: (usize, u8) = (1, 6);
/// mask of the flag bits IEEE 1588-2019 Table 37 defines
pub const DEFINED_FLAGS: [u8; 2] = [0b0110_0111, 0b0111_1111];

pub const TLV_PATH_TRACE: u16 = 0x0008;
pub const TLV_ALT_TIME_OFFSET: u16 = 0x0009;

#[derive(Debug, Clone, Copy, PartialEq, Eq, Hash, Default, PartialOrd, Ord)]
pub struct PortId {
    pub clock: [u8; 8],
    pub port: u16,
}

#[derive(Debug, Clone, Copy, PartialEq, Eq, Hash, Default)]
pub struct RTs {
    pub secs: u64, // 48 bit
    pub nanos: u32,
}

impl RTs {
    /// total nanoseconds (wire timestamps may carry nanos >= 1e9; value is defined as secs*1e9+nanos)
    pub fn total_ns(&self) -> u128 {
        self.secs as u128 * 1_000_000_000 + self.nanos as u128
    }
    pub fn from_ns(ns: u128) -> Self {
        RTs { secs: (ns / 1_000_000_000) as u64, nanos: (ns % 1_000_000_000) as u32 }
    }
}

#[derive(Debug, Clone, PartialEq, Eq, Hash)]
pub struct RHeader {
    pub major_sdo: u8,
    pub msg_type: u8,
    pub minor_version: u8,
    pub version: u8,
    pub length: u16,
    pub domain: u8,
    pub minor_sdo: u8,
    pub flags: [u8; 2],
    pub correction: i64,
    pub type_specific: [u8; 4],
    pub source: PortId,
    pub seq: u16,
    pub control: u8,
    pub log_interval: i8,
}

impl RHeader {
    pub fn new(msg_type: u8, source: PortId, seq: u16) -> Self {
        RHeader {
            major_sdo: 0,
            msg_type,
            minor_version: 1,
            version: 2,
            length: 0,
            domain: 0,
            minor_sdo: 0,
            flags: [0, 0],
            correction: 0,
            type_specific: [0; 4],
            source,
            seq,
            control: control_for(msg_type),
            log_interval: 0,
        }
    }
    pub fn flag(&self, f: (usize, u8)) -> bool {
        self.flags[f.0] & (1 << f.1) != 0
    }
    pub fn set_flag(&mut self, f: (usize, u8), v: bool) {
        if v {
            self.flags[f.0] |= 1 << f.1
        } else {
            self.flags[f.0] &= !(1 << f.1)
        }
    }
    pub fn sdo_id(&self) -> u16 {
        ((self.major_sdo as u16) << 8) | self.minor_sdo as u16
    }
}

/// 13.3.2.13 Table 42 (controlField is obsolete; value by message type)
pub fn control_for(t: u8) -> u8 {
    match t {
        T_SYNC => 0,
        T_DELAY_REQ => 1,
        T_FOLLOW_UP => 2,
        T_DELAY_RESP => 3,
        T_MANAGEMENT => 4,
        _ => 5,
    }
}

#[derive(Debug, Clone, PartialEq, Eq, Hash)]
pub enum RBody {
    Sync { origin: RTs },
    DelayReq { origin: RTs },
    PdelayReq { origin: RTs, reserved: [u8; 10] },
    PdelayResp { receipt: RTs, requesting: PortId },
    FollowUp { precise_origin: RTs },
    DelayResp { receive: RTs, requesting: PortId },
    PdelayRespFup { response_origin: RTs, requesting: PortId },
    Announce(RAnnounce),
    Signaling { target: PortId },
    Management { target: PortId, starting_hops: u8, hops: u8, action_octet: u8, reserved: u8 },
}

#[derive(Debug, Clone, Copy, PartialEq, Eq, Hash, Default)]
pub struct RAnnounce {
    pub origin: RTs,
    pub utc_offset: i16,
    pub reserved: u8,
    pub gm_priority1: u8,
    pub gm_class: u8,
    pub gm_accuracy: u8,
    pub gm_variance: u16,
    pub gm_priority2: u8,
    pub gm_identity: [u8; 8],
    pub steps_removed: u16,
    pub time_source: u8,
}

#[derive(Debug, Clone, PartialEq, Eq, Hash)]
pub struct RTlv {
    pub typ: u16,
    pub value: Vec<u8>,
}

impl RTlv {
    pub fn wire_size(&self) -> usize {
        4 + self.value.len()
    }
    /// 14.1.1 / Table 52: TLVs a boundary clock propagates when attached to Announce
    pub fn propagates(&self) -> bool {
        matches!(self.typ, 0x0008 | 0x0009 | 0x4000..=0x7fff)
    }
}

#[derive(Debug, Clone, PartialEq, Eq, Hash)]
pub struct RMsg {
    pub header: RHeader,
    pub body: RBody,
    pub tlvs: Vec<RTlv>,
}

#[derive(Debug, Clone, PartialEq, Eq)]
pub enum RErr {
    Short,
    BadLength,
    UnknownType,
    BadTlv,
}

pub fn body_len(t: u8) -> Option<usize> {
    Some(match t {
        T_SYNC | T_DELAY_REQ | T_FOLLOW_UP => 10,
        T_PDELAY_REQ | T_PDELAY_RESP | T_PDELAY_RESP_FUP | T_DELAY_RESP => 20,
        T_ANNOUNCE => 30,
        T_SIGNALING => 10,
        T_MANAGEMENT => 14,
        _ => return None,
    })
}

fn rd_u16(b: &[u8], o: usize) -> u16 {
    ((b[o] as u16) << 8) | b[o + 1] as u16
}
fn rd_ts(b: &[u8], o: usize) -> RTs {
    let mut s: u64 = 0;
    for i in 0..6 {
        s = (s << 8) | b[o + i] as u64;
    }
    let mut n: u32 = 0;
    for i in 6..10 {
        n = (n << 8) | b[o + i] as u32;
    }
    RTs { secs: s, nanos: n }
}
fn rd_pid(b: &[u8], o: usize) -> PortId {
    let mut c = [0u8; 8];
    c.copy_from_slice(&b[o..o + 8]);
    PortId { clock: c, port: rd_u16(b, o + 8) }
}
fn wr_u16(b: &mut [u8], o: usize, v: u16) {
    b[o] = (v >> 8) as u8;
    b[o + 1] = v as u8;
}
fn wr_ts(b: &mut [u8], o: usize, t: RTs) {
    for i in 0..6 {
        b[o + i] = (t.secs >> (8 * (5 - i))) as u8;
    }
    for i in 0..4 {
        b[o + 6 + i] = (t.nanos >> (8 * (3 - i))) as u8;
    }
}
fn wr_pid(b: &mut [u8], o: usize, p: PortId) {
    b[o..o + 8].copy_from_slice(&p.clock);
    wr_u16(b, o + 8, p.port);
}

pub fn decode_header(b: &[u8]) -> Result<RHeader, RErr> {
    if b.len() < 34 {
        return Err(RErr::Short);
    }
    let mut corr: u64 = 0;
    for i in 0..8 {
        corr = (corr << 8) | b[8 + i] as u64;
    }
    Ok(RHeader {
        major_sdo: b[0] >> 4,
        msg_type: b[0] & 0x0f,
        minor_version: b[1] >> 4,
        version: b[1] & 0x0f,
        length: rd_u16(b, 2),
        domain: b[4],
        minor_sdo: b[5],
        flags: [b[6], b[7]],
        correction: corr as i64,
        type_specific: [b[16], b[17], b[18], b[19]],
        source: rd_pid(b, 20),
        seq: rd_u16(b, 30),
        control: b[32],
        log_interval: b[33] as i8,
    })
}

/// Decode one message occupying exactly the header's messageLength octets of
/// `b` (octets after messageLength are ignored, 13.3.2.4).
pub fn decode(b: &[u8]) -> Result<RMsg, RErr> {
    let h = decode_header(b)?;
    let l = h.length as usize;
    let bl = body_len(h.msg_type).ok_or(RErr::UnknownType)?;
    if l < 34 + bl {
        return Err(RErr::BadLength);
    }
    if l > b.len() {
        return Err(RErr::Short);
    }
    let o = 34;
    let body = match h.msg_type {
        T_SYNC => RBody::Sync { origin: rd_ts(b, o) },
        T_DELAY_REQ => RBody::DelayReq { origin: rd_ts(b, o) },
        T_FOLLOW_UP => RBody::FollowUp { precise_origin: rd_ts(b, o) },
        T_PDELAY_REQ => {
            let mut r = [0u8; 10];
            r.copy_from_slice(&b[o + 10..o + 20]);
            RBody::PdelayReq { origin: rd_ts(b, o), reserved: r }
        }
        T_PDELAY_RESP => RBody::PdelayResp { receipt: rd_ts(b, o), requesting: rd_pid(b, o + 10) },
        T_PDELAY_RESP_FUP => RBody::PdelayRespFup { response_origin: rd_ts(b, o), requesting: rd_pid(b, o + 10) },
        T_DELAY_RESP => RBody::DelayResp { receive: rd_ts(b, o), requesting: rd_pid(b, o + 10) },
        T_ANNOUNCE => {
            let mut gm = [0u8; 8];
            gm.copy_from_slice(&b[53..61]);
            RBody::Announce(RAnnounce {
                origin: rd_ts(b, 34),
                utc_offset: rd_u16(b, 44) as i16,
                reserved: b[46],
                gm_priority1: b[47],
                gm_class: b[48],
                gm_accuracy: b[49],
                gm_variance: rd_u16(b, 50),
                gm_priority2: b[52],
                gm_identity: gm,
                steps_removed: rd_u16(b, 61),
                time_source: b[63],
            })
        }
        T_SIGNALING => RBody::Signaling { target: rd_pid(b, o) },
        T_MANAGEMENT => RBody::Management {
            target: rd_pid(b, o),
            starting_hops: b[o + 10],
            hops: b[o + 11],
            action_octet: b[o + 12],
            reserved: b[o + 13],
        },
        _ => return Err(RErr::UnknownType),
    };
    // TLVs (14.1): type(2) length(2) value(length); lengthField even
    let mut tlvs = vec![];
    let mut p = 34 + bl;
    while p < l {
        if l - p < 4 {
            return Err(RErr::BadTlv);
        }
        let typ = rd_u16(b, p);
        let len = rd_u16(b, p + 2) as usize;
        if len % 2 != 0 || p + 4 + len > l {
            return Err(RErr::BadTlv);
        }
        tlvs.push(RTlv { typ, value: b[p + 4..p + 4 + len].to_vec() });
        p += 4 + len;
    }
    Ok(RMsg { header: h, body, tlvs })
}

impl RMsg {
    pub fn new(msg_type: u8, source: PortId, seq: u16, body: RBody) -> Self {
        RMsg { header: RHeader::new(msg_type, source, seq), body, tlvs: vec![] }
    }
    pub fn wire_len(&self) -> usize {
        34 + body_len(self.header.msg_type).unwrap() + self.tlvs.iter().map(|t| t.wire_size()).sum::<usize>()
    }
    /// Encode; messageLength is computed unless `keep_length` (for malformed inputs).
    pub fn encode_with(&self, keep_length: bool) -> Vec<u8> {
        let h = &self.header;
        let n = self.wire_len();
        let mut b = vec![0u8; n];
        b[0] = (h.major_sdo << 4) | (h.msg_type & 0x0f);
        b[1] = (h.minor_version << 4) | (h.version & 0x0f);
        wr_u16(&mut b, 2, if keep_length { h.length } else { n as u16 });
        b[4] = h.domain;
        b[5] = h.minor_sdo;
        b[6] = h.flags[0];
        b[7] = h.flags[1];
        let c = h.correction as u64;
        for i in 0..8 {
            b[8 + i] = (c >> (8 * (7 - i))) as u8;
        }
        b[16..20].copy_from_slice(&h.type_specific);
        wr_pid(&mut b, 20, h.source);
        wr_u16(&mut b, 30, h.seq);
        b[32] = h.control;
        b[33] = h.log_interval as u8;
        let o = 34;
        match &self.body {
            RBody::Sync { origin } | RBody::DelayReq { origin } => wr_ts(&mut b, o, *origin),
            RBody::FollowUp { precise_origin } => wr_ts(&mut b, o, *precise_origin),
            RBody::PdelayReq { origin, reserved } => {
                wr_ts(&mut b, o, *origin);
                b[o + 10..o + 20].copy_from_slice(reserved);
            }
            RBody::PdelayResp { receipt, requesting } => {
                wr_ts(&mut b, o, *receipt);
                wr_pid(&mut b, o + 10, *requesting);
            }
            RBody::PdelayRespFup { response_origin, requesting } => {
                wr_ts(&mut b, o, *response_origin);
                wr_pid(&mut b, o + 10, *requesting);
            }
            RBody::DelayResp { receive, requesting } => {
                wr_ts(&mut b, o, *receive);
                wr_pid(&mut b, o + 10, *requesting);
            }
            RBody::Announce(a) => {
                wr_ts(&mut b, 34, a.origin);
                wr_u16(&mut b, 44, a.utc_offset as u16);
                b[46] = a.reserved;
                b[47] = a.gm_priority1;
                b[48] = a.gm_class;
                b[49] = a.gm_accuracy;
                wr_u16(&mut b, 50, a.gm_variance);
                b[52] = a.gm_priority2;
                b[53..61].copy_from_slice(&a.gm_identity);
                wr_u16(&mut b, 61, a.steps_removed);
                b[63] = a.time_source;
            }
            RBody::Signaling { target } => wr_pid(&mut b, o, *target),
            RBody::Management { target, starting_hops, hops, action_octet, reserved } => {
                wr_pid(&mut b, o, *target);
                b[o + 10] = *starting_hops;
                b[o + 11] = *hops;
                b[o + 12] = *action_octet;
                b[o + 13] = *reserved;
            }
        }
        let mut p = 34 + body_len(h.msg_type).unwrap();
        for t in &self.tlvs {
            wr_u16(&mut b, p, t.typ);
            wr_u16(&mut b, p + 2, t.value.len() as u16);
            b[p + 4..p + 4 + t.value.len()].copy_from_slice(&t.value);
            p += 4 + t.value.len();
        }
        b
    }
    pub fn encode(&self) -> Vec<u8> {
        self.encode_with(false)
    }
    pub fn announce(&self) -> Option<&RAnnounce> {
        match &self.body {
            RBody::Announce(a) => Some(a),
            _ => None,
        }
    }
}

pub fn type_name(t: u8) -> &'static str {
    match t {
        T_SYNC => "Sync",
        T_DELAY_REQ => "Delay_Req",
        T_PDELAY_REQ => "Pdelay_Req",
        T_PDELAY_RESP => "Pdelay_Resp",
        T_FOLLOW_UP => "Follow_Up",
        T_DELAY_RESP => "Delay_Resp",
        T_PDELAY_RESP_FUP => "Pdelay_Resp_Follow_Up",
        T_ANNOUNCE => "Announce",
        T_SIGNALING => "Signaling",
        T_MANAGEMENT => "Management",
        _ => "unknown",
    }
}

/// value IEEE defines for the clockAccuracy octet, or None for reserved values
/// (Table 5: 0x17..=0x31 defined, 0x80..=0xfd profile, 0xfe unknown)
pub fn accuracy_defined(v: u8) -> bool {
    matches!(v, 0x17..=0x31 | 0x80..=0xfe)
}

// ---------------------------------------------------------------------------
// generators shared by several checks

pub fn gen_ts(t: &mut Tape) -> RTs {
    let secs = match t.weighted(&[3, 2, 1, 1, 1, 1]) {
        0 => t.below(4_000_000_000),
        1 => t.below(16),
        2 => (1u64 << 32) - 1 + t.below(3),
        3 => (1u64 << 48) - 1 - t.below(2),
        4 => t.below(1 << 48),
        _ => 0,
    };
    let nanos = match t.weighted(&[4, 1, 1, 1, 1]) {
        0 => t.below(1_000_000_000) as u32,
        1 => 0,
        2 => 999_999_999,
        3 => 1_000_000_000 + t.below(8) as u32,
        _ => u32::MAX - t.below(2) as u32,
    };
    RTs { secs, nanos }
}

pub fn gen_correction(t: &mut Tape) -> i64 {
    match t.weighted(&[4, 3, 2, 1]) {
        0 => 0,
        1 => t.log_i128(40) as i64,
        2 => t.log_i128(63) as i64,
        _ => *t.pick(&[i64::MAX, i64::MIN, -1, 1, 1 << 16, -(1 << 16), (1 << 47), -(1 << 47), i64::MAX - 1, i64::MIN + 1]),
    }
}

pub fn gen_port_id(t: &mut Tape) -> PortId {
    let mut clock = [0u8; 8];
    match t.weighted(&[3, 1, 1]) {
        0 => {
            clock[7] = t.below(8) as u8;
        }
        1 => clock = [0xff; 8],
        _ => {
            for c in clock.iter_mut() {
                *c = t.below(256) as u8
            }
        }
    }
    let port = *t.pick(&[1u16, 0, 2, 3, 0xffff, 0x1234]);
    PortId { clock, port }
}

pub fn gen_tlvs(t: &mut Tape, max_total: usize) -> Vec<RTlv> {
    let n = t.weighted(&[5, 3, 2, 1, 1]);
    let mut out = vec![];
    let mut used = 0;
    for _ in 0..n {
        let typ = match t.weighted(&[3, 2, 2, 2, 1, 1]) {
            0 => 0x0008,
            1 => 0x0009,
            2 => 0x4000 + t.below(0x4000) as u16,
            3 => *t.pick(&[0x0001u16, 0x0002, 0x0003, 0x8000, 0x8001, 0x2004, 0x8009]),
            4 => t.below(0x10000) as u16,
            _ => 0,
        };
        let len = match t.weighted(&[3, 3, 2, 1]) {
            0 => 0,
            1 => 2 * t.below(12) as usize,
            2 => 2 * t.below(60) as usize,
            _ => 2 * t.below(520) as usize,
        };
        if used + 4 + len > max_total {
            break;
        }
        used += 4 + len;
        let value = if t.bool() { vec![0xa5; len] } else { t.bytes(len) };
        out.push(RTlv { typ, value });
    }
    out
}

pub fn gen_body(t: &mut Tape, msg_type: u8) -> RBody {
    match msg_type {
        T_SYNC => RBody::Sync { origin: gen_ts(t) },
        T_DELAY_REQ => RBody::DelayReq { origin: gen_ts(t) },
        T_FOLLOW_UP => RBody::FollowUp { precise_origin: gen_ts(t) },
        T_PDELAY_REQ => RBody::PdelayReq {
            origin: gen_ts(t),
            reserved: if t.chance(1, 4) {
                let mut r = [0u8; 10];
                r.copy_from_slice(&t.bytes(10));
                r
            } else {
                [0; 10]
            },
        },
        T_PDELAY_RESP => RBody::PdelayResp { receipt: gen_ts(t), requesting: gen_port_id(t) },
        T_PDELAY_RESP_FUP => RBody::PdelayRespFup { response_origin: gen_ts(t), requesting: gen_port_id(t) },
        T_DELAY_RESP => RBody::DelayResp { receive: gen_ts(t), requesting: gen_port_id(t) },
        T_ANNOUNCE => {
            let mut gm = [0u8; 8];
            for c in gm.iter_mut() {
                *c = t.below(256) as u8
            }
            RBody::Announce(RAnnounce {
                origin: gen_ts(t),
                utc_offset: t.below(0x10000) as u16 as i16,
                reserved: if t.chance(1, 4) { t.below(256) as u8 } else { 0 },
                gm_priority1: t.below(256) as u8,
                gm_class: t.below(256) as u8,
                gm_accuracy: t.below(256) as u8,
                gm_variance: t.below(0x10000) as u16,
                gm_priority2: t.below(256) as u8,
                gm_identity: gm,
                steps_removed: *t.pick(&[0u16, 1, 2, 254, 255, 256, 65535, 0x1234]),
                time_source: t.below(256) as u8,
            })
        }
        T_SIGNALING => RBody::Signaling { target: gen_port_id(t) },
        _ => RBody::Management {
            target: gen_port_id(t),
            starting_hops: t.below(256) as u8,
            hops: t.below(256) as u8,
            action_octet: t.below(256) as u8,
            reserved: if t.chance(1, 4) { t.below(256) as u8 } else { 0 },
        },
    }
}

/// A well-formed message with every field drawn (boundary-biased).
pub fn gen_msg(t: &mut Tape) -> RMsg {
    let msg_type = *t.pick(&ALL_TYPES);
    gen_msg_of(t, msg_type)
}

pub fn gen_msg_of(t: &mut Tape, msg_type: u8) -> RMsg {
    let mut h = RHeader::new(msg_type, gen_port_id(t), t.below(0x10000) as u16);
    h.major_sdo = if t.chance(1, 3) { t.below(16) as u8 } else { 0 };
    h.minor_sdo = if t.chance(1, 3) { t.below(256) as u8 } else { 0 };
    h.minor_version = if t.chance(1, 3) { t.below(16) as u8 } else { 1 };
    h.version = if t.chance(1, 6) { t.below(16) as u8 } else { 2 };
    h.domain = if t.chance(1, 3) { t.below(256) as u8 } else { 0 };
    h.flags = match t.weighted(&[2, 3, 1]) {
        0 => [0, 0],
        1 => [t.below(256) as u8 & DEFINED_FLAGS[0], t.below(256) as u8 & DEFINED_FLAGS[1]],
        _ => [t.below(256) as u8, t.below(256) as u8],
    };
    h.correction = gen_correction(t);
    if t.chance(1, 5) {
        h.type_specific.copy_from_slice(&t.bytes(4));
    }
    if t.chance(1, 4) {
        h.control = t.below(256) as u8;
    }
    h.log_interval = t.below(256) as u8 as i8;
    let body = gen_body(t, msg_type);
    let tlvs = gen_tlvs(t, 1500);
    RMsg { header: h, body, tlvs }
}
