#!/usr/bin/env python3
"""Regenerates /verif/MANIFEST.json from the table below (single source of truth)."""
import json, os
V = os.path.dirname(os.path.dirname(os.path.abspath(__file__)))
props = [json.loads(l) for l in open(os.path.join(V, "properties.jsonl"))]

CHECKS = {
 "C04": dict(level="exploration", design="DESIGN.md §4 C04",
   text="Generated-input search with a three-part oracle per input (round-trip, tail-independence metamorphic relation, differential against an independently written Clause-13 codec), plus exhaustive sweeps of every octet value / every flagField value (thorough: every 16-bit window) of each message type. Exploration, not proof: absence is not established, but every 8-bit field value of every type is enumerated.",
   note="Trusted: harness/src/refcodec.rs (self-tested against the repository's golden vectors at start-up); rejection by statime is never a violation.",
   technique="property-based testing: choice-sequence generator + shrinker, round-trip/metamorphic/differential oracle, exhaustive small-field enumeration; libFuzzer target `codec` in thorough"),
 "C16": dict(level="exploration", design="DESIGN.md §4 C16",
   text="Exact-arithmetic oracle (raw 2^-32 ns bit patterns in i128) over exhaustively enumerated boundary lattices (second/nanosecond carries, sign changes, extremes, every log interval) plus millions of sampled operand tuples; the time->wire->time clause is observed end-to-end in Follow_Up frames of a real master port decoded by the reference codec.",
   note="Out-of-domain operand pairs (negative or >= 2^49 s results) are skipped; TimeInterval values are created via serde because the type is crate-private.",
   technique="property-based testing: exhaustive boundary lattices + sampled operands against an exact integer reference"),
 "C18": dict(level="exploration", design="DESIGN.md §4 C18",
   text="Model-based testing: generated sequences (<=50 ops) of advance/set_frequency/step_clock/now/time_from_underlying on OverlayClock (also through SharedClock) compared after every op with an exact rational piecewise-affine reference, tolerance 1 ns + 2^-44 x elapsed.",
   note="Underlying clock is harness-controlled; timestamps older than the last adjustment are not converted.",
   technique="stateful property-based testing against an exact reference model, with shrinking"),
 "C10": dict(level="exploration", design="DESIGN.md §4 C10",
   text="Stateful generated histories on a real master port (E2E and P2P) with transmit/receive times over the whole 80-bit range and arbitrary request headers; every emitted frame is decoded by the independent reference codec and compared with exact integer expectations; two 70 000-emission runs per message type cross the sequence wrap; global monitors assert <= 1 SendEvent per action set, size <= 1024 and decodability by the library's own parser. Plus an end-to-end part: the master port of the real daemon binary (private network namespace) is watched while generated Delay_Req frames are sent to it; wire timestamps are compared with the harness's own clock readings within stated real-time tolerances, pairing / echo / sequence rules exactly.",
   note="Request corrections |c| >= 2^62 belong to C03. minorVersionPTP of Delay_Resp (echoed from the request) is not asserted.",
   technique="stateful property-based testing with exact arithmetic oracle on decoded frames + generated black-box scenarios against the real daemon process"),
 "C09": dict(level="exploration", design="DESIGN.md §4 C09",
   text="Schedule exploration over message deliveries of a port made slave by the protocol: exhaustive enumeration of all schedules up to length 6 (thorough 7) over a 7-symbol alphabet plus sampled schedules with duplication, omission, reordering, late transmit timestamps, non-parent traffic, parent switches and delay-id wrap-around; every Measurement handed to a recording filter must equal bit-for-bit the IEEE formula of one exchange with matching sequence id from the current parent (exact integer oracle).",
   note="Double transmit timestamps are unrepresentable through the public API. A vacuity guard (clean in-order exchange must yield two measurements) exits 2, not 1.",
   technique="schedule enumeration + sampled schedules with an exact single-exchange oracle"),
 "C14": dict(level="exploration", design="DESIGN.md §4 C14",
   text="Schedule exploration on a peer-to-peer port in every state in which the exchange runs: exhaustive enumeration of all schedules up to length 6 (thorough 7) over {delay timer, tx timestamp, Pdelay_Resp/Follow_Up of responders R1 and R2, receipt timer} plus sampled schedules (one/two-step, duplicates, stale ids, other requesters, late transmit timestamps of superseded requests, timers, BMCA, clean exchanges) and the same schedules after ~65 530 request rounds with a generated crossing at the 16-bit id wrap; exact integer oracle per (request, first responder) and the fault rules: second responder => Faulty at once and never used; while Faulty no master traffic; Faulty is left only through a completed peer-delay exchange; a single-responder exchange clears it.",
   note="Whether the port may already recover through the faulted exchange when its first responder completes it is not asserted either way.",
   technique="schedule enumeration + sampled schedules with exact arithmetic oracle and state invariants"),
 "C03": dict(level="exploration", design="DESIGN.md §4 C03",
   text="Stateful generated histories over the whole host-call alphabet, drawn online against the port's observed state so that deep states are reached, with boundary-lattice fields, frames to 2048 bytes, TLV sizes around every margin, mutated and raw frames, all port configurations and all three filters; oracle = every call returns (panic hook + catch_unwind) and no nested lock acquisition; run in a build with debug assertions + overflow checks and in a build without; saved failing inputs are replayed as a regression corpus.",
   note="evidence/C03.json is written by the checked-build run, evidence/C03.unchecked.json by the unchecked-build run of the same command. Configuration values outside what the daemon's config accepts are not generated.",
   technique="stateful property-based testing / fuzzing with a crash oracle in two build profiles, shrinking to a replay tape"),
 "C08": dict(level="exploration", design="DESIGN.md §4 C08",
   text="Stateful generated histories over instances with 1-3 ports in every combination of master-only / slave-only (static or toggled at run time) / E2E / P2P with invariants checked after every host call: at most one Slave port, is_steering consistent, every frequency/step call attributed (tagged clock handles) to a port that is or becomes Slave in that call, master-only never Slave, slave-only never Master (from the first completed BMCA after a run-time switch), Announce/Sync/Follow_Up/Delay_Resp only from a Master port, E2E Delay_Req only from the Slave port (frames decoded by the reference codec).",
   note="Clock::set_properties is not counted as adjusting the clock.",
   technique="stateful property-based testing with invariants after every step"),
 "C07": dict(level="exploration", design="DESIGN.md §4 C07",
   text="Two-run non-interference: a generated base history H is executed on two identically seeded instances, the second with noise frames inserted (each built from a frame that would have had an effect at that point and broken in exactly one way named by the statement); after every op of H the action lists, port states, five data sets, clock-call log, filter log, link delays and armed timers must be identical, and every inserted call must return no action and change nothing.",
   note="Only the noise classes named in the statement are inserted.",
   technique="metamorphic / differential property-based testing (lock-step runs with insertions)"),
 "C05": dict(level="exploration", design="DESIGN.md §4 C05",
   text="Differential testing against an independent implementation of IEEE 1588-2019 Figures 33/34/35 and Tables 30/33 with statime's documented deviations: generated multi-port cases (prior states via preludes, up to 4 candidates per port, same grandmaster via different paths, own-instance Announces, master-only/slave-only/faulty exclusions, permuted port and Announce order) plus an exhaustive single-candidate lattice; additional relations: maximality of the selected parent and order independence (every case is run a second time with reversed orders).",
   note="Genuine ties are skipped; timePropertiesDS after M1/M2 is not asserted; candidates are arranged so that IEEE's and statime's qualification bookkeeping agree (that bookkeeping is C06's subject).",
   technique="differential property-based testing against a reference BMCA + exhaustive small lattice + metamorphic order-independence"),
 "C06": dict(level="exploration", design="DESIGN.md §4 C06",
   text="Time-stepped model-based testing with live host timers: generated per-interval arrival patterns (absent/once/duplicated/reordered/stale, isolated single Announces, ids across 65535->0, stepsRemoved >= 255, own clock identity, up to 10 masters) and BMCA phases; after every BMCA an independent time-based reception record decides the necessary conditions (>= 2 receptions within 4 intervals + one BMCA period, stepsRemoved < 255, foreign identity; Passive must be explainable), the expiry bound (silent for 6 intervals + 1 BMCA period => not parent) and, for clean patterns with <= 8 masters, that the steadily announcing best master is the parent. A second part runs one or two masters announcing in every interval over 33 000-80 000 announce intervals (a complete sequence-number cycle and a half) under the same oracle; a second idle port makes the BMCA period 1/2, 1/4 or 1/8 of the announce interval in a third of the cases.",
   note="The sufficient clause is only asserted when no better-or-equal competitor was heard within 7 intervals + 2 BMCA periods (falling back to being master in between is allowed by the statement; see DESIGN.md section 8).",
   technique="model-based property testing over arrival schedules with a time-based reference record"),
 "C11": dict(level="exploration", design="DESIGN.md §4 C11",
   text="Model-based testing on boundary clocks with 2-3 ports: clean Announce streams from a synthetic parent and a rival whose contents change (whole-content and single-field changes), parent restarts (sequence id jumping back), parent silence and take-over, receipt time-outs, run-time quality changes, BMCA and announce timers in generated order. Every emitted Announce (decoded by the reference codec) must (A) equal the data set getters read just before the call, (B) while a port is slave equal the parent's last delivered Announce with stepsRemoved+1, (C) when it names the instance as grandmaster carry the own priorities, stepsRemoved 0, the clock quality in force at the last completed BMCA (or a newer one) and own time properties; when the last BMCA left a master and no slave port the grandmaster named must be the instance itself.",
   note="Both leap flags from the parent: the data set keeps Leap59. UTC offset compared only when flagged valid. One known finding (BMCA after a parent restart reinstates the pre-restart contents) is classified by its own signature and reported as KNOWN-FINDING.",
   technique="stateful model-based property testing with a reference of the expected Announce contents"),
 "C13": dict(level="exploration", design="DESIGN.md §4 C13",
   text="The Kalman and basic filters are driven directly with generated, physically consistent but adversarial measurement sequences (offsets 0..+-1e9 s, identical samples, equal event times, time running backwards, dt = 0, offset jumps, interleaved update() calls, intermittently failing clock, applied steps fed back), Kalman configurations drawn around the default; every programmed frequency must be finite and within +-max_freq_offset, every Kalman step at least the step threshold, no panic, estimates finite. A port-level part (C08-style histories with the Kalman filter) asserts at most one final in-bound frequency command in the call in which a port stops being slave and none afterwards.",
   note="Samples whose event time minus offset would be negative are skipped.",
   technique="property-based testing of the servo with invariant oracle on the recorded clock commands"),
 "C15": dict(level="exploration", design="DESIGN.md §4 C15",
   text="Model-based testing of a boundary clock (slave port + 1-3 master ports sharing the daemon's TlvForwarder wired as in main.rs, or a literal-contract provider): generated Announces from parent / other acceptable / unacceptable senders with TLVs of every type class and sizes at and around the remaining room, frames to 2048 bytes, path traces of 0..200 identities with and without the own identity, forwarder lag beyond 128 entries; every emitted Announce is compared with an exact reference forwarding queue per master port (order, at most once, unmodified, only parent + propagating, every TLV that fits, PATH_TRACE = parent's path + own identity, size <= 1024, decodable, always sent; under overflow the exact contents of the 128-slot broadcast channel); loop Announces must have no effect at all. Plus an exhaustive size sweep (every even length 0..1100 x 11 path settings). Plus an end-to-end part against the real statime daemon binary built from /repo: two-port boundary clock in a private network namespace (unshare -n, veth pairs, PTP over Ethernet, real time), the harness is the parent on port 1 and listens on port 2; the TLVs forwarded must be exactly the parent's propagating TLVs, once each, unmodified and in order.",
   note="One known finding (received PATH_TRACE TLV blocking the queue for paths >= 58 identities) is classified by its own signature and reported as KNOWN-FINDING. The end-to-end part needs root and network namespaces; where they are unavailable it is skipped with a note in the evidence (the other parts still decide); cases in which the daemon is not (Slave, Master) before and after are inconclusive, never violations.",
   technique="model-based property testing against a reference queue + exhaustive size sweep + generated black-box histories against the real daemon process"),
 "C12": dict(level="exploration", design="DESIGN.md §4 C12",
   text="Bounded-horizon progress under a faithful host timer model: a generated prefix history (timers fire only if armed, at their deadline; lost transmit timestamps; masters coming and going; P2P faults and recoveries; run-time slave-only switches) is continued with (a) total silence and (b) a steadily announcing better master, both driven by the daemon's loop (timers as armed, periodic BMCA, immediate transmit timestamps). (a): every non-faulty port is Master within 2*receiptTimeout+6 announce intervals and then emits Announce and Sync/Follow_Up at the configured rates (+-1 per 8 intervals); slave-only instances listen with a live receipt timer. (b): port 1 is slave of that master within the bound and its delay requests are never more than two delay intervals apart. Plus an end-to-end part against the real daemon binary (private network namespace, real time, explicit bounds): steady-state rates of Announce/Sync/Delay_Req, take-over after parent silence, return to slave and resumption of Delay_Req.",
   note="Liveness is checked as bounded-horizon safety with explicit bounds. One known finding (port recovered from Faulty without receipt timer) has its own signature and a deterministic reproducer.",
   technique="stateful property-based testing with a discrete-event host model and bounded-progress oracle + generated black-box scenarios against the real daemon process"),
 "C17": dict(level="exploration", design="DESIGN.md §4 C17",
   text="Three generated-input mechanisms: (1) the history generators of six other checks re-run over a lock implementation that records any acquisition requested while the lock is held; (2) dedicated histories whose parent Announces carry a version number encoded redundantly in every data set field, with parent/current/time-properties snapshots taken at every outermost exclusive release (exactly the states another thread can observe) and required to be homogeneous, each by itself and across the three data sets (path trace on with parent paths up to 200 entries in a third of the cases); (3) schedule injection with real threads over an RwLock-based lock that parks set_clock_quality / set_slave_only after each of their lock releases while BMCA rounds run, with a serialisability oracle (final state must equal one of the two serial orders) and homogeneous observer snapshots; (4) the real daemon (std RwLock, one task per port) in a private network namespace under generated concurrent load on both ports with BMCA and observers running, followed by liveness probes.",
   note="Interleavings are owned at lock-release granularity only (sound because all shared state is behind the lock); the OS scheduler is not otherwise controlled. BMCA cannot overlap port handlers by type state.",
   technique="property-based testing with a lock-discipline monitor, release-point snapshot invariants, deterministic schedule injection with a serialisability oracle, and generated load scenarios against the real daemon process with a liveness oracle"),
 "C19": dict(level="exploration", design="DESIGN.md §4 C19",
   text="Generated instance states reached in simulation plus directly generated observable-state JSON over the full field ranges, checked in three stages: (1) the ObservableInstanceState assembled as the daemon's run() does against the configuration, the Announce a master port emits (an independent view of the live data sets), the port's behaviour and the slave port's filter estimates; (2) byte-identical and field-equal serde_json round trip; (3) black box: the statime-metrics-exporter binary built from /repo receives the JSON on a Unix socket (a fifth of the scrapes preceded by a scrape the client aborts while the exporter is working on it) and every sample of its HTTP response is parsed by an independent HTTP + OpenMetrics text parser and compared with the value derived from the state under the meaning the family's own metadata states; (4) end to end: the real daemon in a private network namespace is told generated hierarchies by a synthetic parent and its observation socket - and the real exporter behind it - must show exactly them.",
   note="Stage 3 uses wall-clock socket time-outs (time-out = exit 2). uptime_seconds values are chosen exactly representable (serde_json's default float parser is not round-trip exact).",
   technique="property-based testing: differential (state vs Announce), round-trip, black-box differential against an independent exposition-format parser, and generated black-box scenarios against the real daemon + exporter processes"),
 "C20": dict(level="fault_enumeration", design="DESIGN.md §4 C20",
   text="Fault enumeration against the real exporter subprocess: every sequence of length 1 and 2 over the alphabet of (client behaviour x observation-socket behaviour) pairs is executed exhaustively (reduced alphabet in quick, full in thorough), sequences of length 3-4 are sampled, and every disturbing client is repeated 14 (thorough also 40) times in a row; each is followed by a probe request that must receive a complete 200 response within a deadline, well-formed requests inside the sequence must get 200/500, and on a miss the process is classified as exited / spinning (CPU time from /proc) / hanging.",
   note="Only clients that go away are generated. Needs loopback TCP and Unix sockets.",
   technique="fault-sequence enumeration (exhaustive to length 2, sampled beyond) with a liveness probe oracle"),
 "C01": dict(level="exploration", design="DESIGN.md §4 C01",
   text="Discrete-event simulation of networks of real PtpInstances (2-4 nodes quick, 2-7 thorough; point-to-point links, shared segments, rings, two ports of one instance on one segment) with generated rankings (incl. clockClass < 128 and slave-only nodes), delays, jitter, BMCA phases and event tie-breaks, followed by one generated fault (cut / cut-and-restore an endpoint, silence a node, change a node's quality, toggle slave-only). The predicates of the statement (best node is the only grandmaster; no instance with clockClass < 128 has a slave port; every reachable slave-capable node has exactly one slave port whose parent chain reaches it with stepsRemoved decreasing by one; one master port per segment; isolated ports master; no stale slave) must hold from some point inside an explicit bound onwards, and every port state and the hierarchy part of all data sets must stay constant over the following 12 announce intervals, evaluated at every BMCA of every node. Plus an end-to-end part: networks of 2-4 real statime daemon processes (bridges and veth pairs in a private network namespace, real time) started, faulted (kill, cut, cut-and-restore) and judged by the same predicates on what they publish on their observation sockets.",
   note="Liveness as bounded-horizon safety with explicit bounds: (2*receiptTimeout+7)*(diameter+2) announce intervals, plus 510 intervals when the post-fault topology contains a cycle (IEEE 1588 count-to-infinity of a lost grandmaster's data set without path trace). Slave-only nodes are generated with clockClass 255 and a priority1 behind all master-capable nodes (a slave-only instance whose own data set wins the comparison never synchronises; the daemon does not enforce class 255 - noted in DESIGN.md).",
   technique="property-based testing over generated topologies/rankings/schedules/faults with a discrete-event simulator and graph-based oracle + generated networks of real daemon processes under the same oracle"),
 "C02": dict(level="exploration", design="DESIGN.md §4 C02",
   text="Closed-loop simulation with the real slave port and the real KalmanFilter steering a simulated clock whose readings produce all of the slave's timestamps (so corrections feed back), against a synthetic one-step/two-step grandmaster; generated initial offset (+-10 s), oscillator error (+-150 ppm), symmetric delay (1-400 us), jitter (0-20 us), sync/delay intervals (2^-3..2^1 s), message interleavings (Follow_Up before Sync, transmit timestamps prompt / late / mixed), grandmaster present from the start or appearing only after the port has become master through its receipt timeout. Oracle: |true offset| <= 0.5 us + 3 J from some time <= 120 s + 1000 x max(sync, delay interval) until the horizon, no step after that time, all frequency commands finite and within +-400 ppm. Plus an end-to-end part: the real daemon process slaved in real time to a grandmaster played by the harness with a generated clock offset and drift (kernel timestamps both ways); its true offset is read off the Sync/Follow_Up its other, master port emits and must be small over the last quarter of the run.",
   note="The two constants are a stated tolerance calibrated once on the unchanged tree (10^4 runs: worst settle time 0.40 of the bound, worst residual 0.17 of the bound); degradations smaller than that head-room are not detected. No wall clock is involved.",
   technique="property-based testing of a closed-loop discrete-event simulation with a bounded-convergence oracle + generated real-time closed loops against the real daemon process"),
}
NA_REASON = "check not built yet in this round (design in DESIGN.md §4); will be claimed once its check exists"

checks, na = [], []
for p in props:
    pid = p["id"]
    if pid in CHECKS:
        c = CHECKS[pid]
        checks.append({
            "property_id": pid,
            "quick_cmd": f"./vcheck {pid} --tier quick",
            "thorough_cmd": f"./vcheck {pid} --tier thorough",
            "evidence_file": f"/verif/evidence/{pid}.json",
            "replay_cmd_template": f"./vcheck {pid} --replay {{path}}",
            "engine": "harness",
            "level_claimed": {"category": c["level"], "text": c["text"], "design_ref": c["design"]},
            "level_note": c["note"],
            "technique": c["technique"],
        })
    else:
        na.append({"property_id": pid, "reason": NA_REASON})

manifest = {
 "version": 1,
 "setup_cmd": "./setup.sh",
 "hooks": {
   "guard": "statime_verif",
   "enable": "no source hooks are needed: every check observes the library through its public API with harness-supplied Clock/Filter/lock/RNG/TLV-provider implementations; the harness depends on /repo/statime and /repo/statime-linux by path and is rebuilt from the working tree by ./vcheck",
   "baseline_off_cmd": "cd /repo && cargo test --workspace --no-fail-fast --offline",
   "source_commits": [],
   "add_only": True,
 },
 "engines": [
   {"name": "harness", "path": "/verif/harness", "serves_properties": sorted(CHECKS.keys()),
    "kind_free_text": "Rust binary `vcheck` (incl. the drivers that spawn statime-metrics-exporter and the statime daemon built from /repo, the latter inside a private network namespace): choice-sequence (Hypothesis-style) property-testing engine with shrinking and replay files, exhaustive lattices, reference codec/BMCA/models, host model of statime-linux's action handling"},
 ],
 "checks": checks,
 "not_applicable": na,
 "notes": "Exit codes of every check: 0 held, 1 violation (VIOLATION line + replay file), 2 infrastructure/vacuity. Known findings: /verif/known_findings.json.",
}
json.dump(manifest, open(os.path.join(V, "MANIFEST.json"), "w"), indent=1)
print("wrote MANIFEST.json:", len(checks), "checks,", len(na), "not_applicable")
