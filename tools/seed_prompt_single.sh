#!/bin/bash
# prints the prompt for a seeding agent asked for ONE change: $1 = property id, $2 = name (e.g. m12)
ID=$1; M=${2:-m12}
python3 - "$ID" > /tmp/prop-$ID.txt <<PY
import json,sys
for l in open('/verif/properties.jsonl'):
    d=json.loads(l)
    if d['id']==sys.argv[1]:
        print(d.get('title','')); print(); print(d.get('statement', d.get('description','')))
PY
cat <<P
You are helping test a verification tool by producing a realistic *bug* ("seeded change") in a Rust code base. Work ONLY inside the scratch git worktree /tmp/seed5-$ID (a checkout of the open-source project pendulum-project/statime, a Rust implementation of IEEE 1588 PTP: crates statime/ and statime-linux/). Never touch /repo or /verif and do not look into them. The machine is offline: use \`cargo ... --offline\`, and set CARGO_TARGET_DIR=/tmp/seed5-$ID/target for every cargo command. Other jobs share this machine: use \`-j 4\` for cargo builds. You have about 10 minutes: be quick and decisive.

Here is a semantic property that the code base is supposed to satisfy:

---
$(cat /tmp/prop-$ID.txt)
---

Your task: produce ONE source change (call it $M) to the statime code (library and/or daemon sources, not tests) such that it:
 1. still compiles (\`cargo build --workspace --offline\`),
 2. still passes the complete existing test suite, unedited (\`cargo test --workspace --no-fail-fast --offline\`; 76 tests pass on the unchanged tree),
 3. BREAKS the property above, in a way that a realistic programming slip or a plausible "refactoring"/"optimisation" could introduce, and
 4. needs something specific to manifest — a multi-step sequence of operations, an unusual/boundary input value, a wrap-around, a rarely visited state, or two cooperating code sites that each look fine alone — NOT something every ordinary use would expose at once. Prefer subtle over blatant.

Also write a demonstration: a small Rust test (preferably a new file under statime/tests/ or statime-linux/tests/ using only the public API — the statime crate has a cargo feature "fuzz" exposing statime::fuzz::FuzzMessage for raw message encode/decode; or, if the public API cannot reach it, a #[cfg(test)] unit test appended inside the crate) that FAILS with the change applied and PASSES on the unchanged code. Verify both directions yourself by actually running it.

Deliverables, written to /tmp/seed5-$ID-out/ :
  $M.diff       – \`git diff\` of ONLY the source change (no demo test), relative to the clean worktree HEAD, applicable with \`git apply\` on a clean checkout
  ${M}_demo.diff – patch adding ONLY the demonstration test (new files must be included, e.g. via \`git add -N\` before \`git diff\`), applicable on a clean checkout independently of $M.diff
  $M.md         – short notes: what was changed, why it breaks the property, what exactly is needed for it to manifest, the exact command to run the demo, and the observed output with and without the change
When you are done, leave the worktree clean (\`git checkout -- . && git clean -fd -e target\`) and reply with a brief summary. Do not write anything outside /tmp/seed5-$ID and /tmp/seed5-$ID-out.
P
