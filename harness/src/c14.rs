//! C14 — peer-delay measurement exact and guarded against multiple responders.

use crate::engine::*;
use crate::host::*;
use crate::refcodec::*;
use serde_json::json;

const NS: u128 = 1_000_000_000;
const R1: PortId = PortId { clock: [0, 0, 0, 0, 0, 0, 0, 0x21], port: 1 };
const R2: PortId = PortId { clock: [0, 0, 0, 0, 0, 0, 0, 0x22], port: 1 };
const R1B: PortId = PortId { clock: [0, 0, 0, 0, 0, 0, 0, 0x21], port: 2 }; // same clock, other port
const GM: PortId = PortId { clock: [0, 0, 0, 0, 0, 0, 0, 0x01], port: 1 };

#[derive(Clone, Debug)]
pub enum Op {
    DelayTimer,
    ReturnTx { t1: u128 },
    /// late transmit timestamp of the previous (superseded) request
    ReturnOldTx { t1: u128 },
    Resp { who: u8, t2: RTs, t4: u128, corr: i64, two_step: bool, seq_delta: i32, for_me: bool },
    Fup { who: u8, t3: RTs, corr: i64, seq_delta: i32, for_me: bool },
    ReceiptTimer,
    AnnounceTimer,
    SyncTimer,
    Bmca,
    CleanExchange { who: u8, two_step: bool },
    /// Announce from another port of the own instance with a lower port number (same segment)
    OwnAnnounce { seq: u16 },
}

fn responder(who: u8) -> PortId {
    match who {
        0 => R1,
        1 => R2,
        _ => R1B,
    }
}

fn gen_t(t: &mut Tape, base: u128) -> u128 {
    let ns = base * NS + t.below(2_000_000_000) as u128;
    let frac = if t.chance(2, 3) { t.below(1 << 32) as u128 } else { *t.pick(&[0u128, 1, (1u128 << 32) - 1]) };
    (ns << 32) | frac
}
fn gen_corr(t: &mut Tape) -> i64 {
    match t.weighted(&[2, 3, 2]) {
        0 => 0,
        1 => t.log_i128(30) as i64,
        _ => t.log_i128(56) as i64,
    }
}

#[derive(Clone, Debug)]
pub struct Scenario {
    start: u8, // 0 listening 1 master 2 slave 3 passive
    base: u128,
    ops: Vec<Op>,
    /// complete request/timestamp rounds before the generated ops (brings the 16-bit request id near its wrap)
    prelude_reqs: u32,
}

fn gen_scenario(t: &mut Tape) -> Scenario {
    let start = t.below(4) as u8;
    let base: u128 = *t.pick(&[1_700_000_000u128, 400_000, (1u128 << 33) + 5, 1u128 << 47]);
    let n = t.urange(2, 16);
    let mut ops = vec![];
    for _ in 0..n {
        let op = match t.weighted(&[5, 5, 7, 6, 1, 1, 1, 1, 2, 1, 2]) {
            0 => Op::DelayTimer,
            1 => Op::ReturnTx { t1: gen_t(t, base) },
            2 => Op::Resp {
                who: t.weighted(&[4, 3, 1]) as u8,
                t2: RTs::from_ns(base * NS + t.below(2_000_000_000) as u128),
                t4: gen_t(t, base),
                corr: gen_corr(t),
                two_step: !t.chance(1, 3),
                seq_delta: if t.chance(1, 8) { *t.pick(&[-1, 1]) } else { 0 },
                for_me: !t.chance(1, 10),
            },
            3 => Op::Fup { who: t.weighted(&[4, 3, 1]) as u8, t3: RTs::from_ns(base * NS + t.below(2_000_000_000) as u128), corr: gen_corr(t), seq_delta: if t.chance(1, 8) { *t.pick(&[-1, 1]) } else { 0 }, for_me: !t.chance(1, 10) },
            4 => Op::ReceiptTimer,
            5 => Op::AnnounceTimer,
            6 => Op::SyncTimer,
            7 => Op::Bmca,
            8 => Op::CleanExchange { who: t.below(2) as u8, two_step: t.bool() },
            9 => Op::OwnAnnounce { seq: t.below(8) as u16 },
            _ => Op::ReturnOldTx { t1: gen_t(t, base) },
        };
        ops.push(op);
    }
    Scenario { start, base, ops, prelude_reqs: 0 }
}

struct Cur {
    seq: u16,
    ctx: Option<usize>,
    t1: Option<u128>,
    first: Option<PortId>,
    multi: bool,
    resps: Vec<(PortId, RTs, u128, i64, bool)>,
    fups: Vec<(PortId, RTs, i64)>,
}

fn candidates(c: &Cur) -> Vec<(u128, i128)> {
    // (event_time, 2*peer_delay)
    let mut v = vec![];
    let (Some(t1), Some(first)) = (c.t1, c.first) else { return v };
    for (who, t2, t4, corr, two_step) in &c.resps {
        if *who != first {
            continue;
        }
        let t4c = *t4 as i128 - ((*corr as i128) << 16);
        let t2b = (t2.total_ns() as i128) << 32;
        if *two_step {
            for (fwho, t3, cf) in &c.fups {
                if *fwho != first {
                    continue;
                }
                let t3c = ((t3.total_ns() as i128) << 32) + ((*cf as i128) << 16);
                v.push((t4c as u128, (t4c - t1 as i128) - (t3c - t2b)));
            }
        } else {
            v.push((t4c as u128, t4c - t1 as i128));
        }
    }
    v
}

pub fn run_scenario(sc: &Scenario, out: &mut CaseOut) -> (usize, bool) {
    let mut cfg = NodeCfg::default();
    cfg.ports[0].p2p = true;
    cfg.ports[0].delay_log = -1;
    if sc.start == 3 {
        cfg.class = 6; // low class + better foreign master => passive (decision code P1)
    }
    let mut node = Node::new(cfg);
    match sc.start {
        1 => {
            node.timer(0, TimerKind::Receipt);
        }
        2 => {
            make_slave(&mut node, 0, GM, simple_announce(GM.clock, 10, 6, 0), 3);
        }
        3 => {
            for k in 0..2 {
                let m = announce_from(GM, 3 + k, simple_announce(GM.clock, 10, 6, 0), 0, 0);
                node.recv_general(0, &m.encode());
            }
            node.bmca();
        }
        _ => {}
    }
    let want_state = [PS::Listening, PS::Master, PS::Slave, PS::Passive][sc.start as usize];
    if node.state(0) != want_state {
        out.fail("harness: prelude did not reach the intended state", format!("{:?} vs {:?}", node.state(0), want_state));
        return (0, false);
    }
    out.label(format!("start:{:?}", want_state));
    let me = node.port_id(0);
    let mut cur: Option<Cur> = None;
    let mut old_ctx: Option<usize> = None;
    for k in 0..sc.prelude_reqs {
        for a in node.timer(0, TimerKind::DelayReq) {
            if let OAction::SendEvent { ctx, .. } = a {
                node.tx_timestamp(ctx, time_from_bits(((sc.base * NS + k as u128) << 32) | 1));
            }
        }
    }
    let mut seen = node.measurements().len();
    let mut peer_meas = 0usize;
    let mut two_resp = false;
    let mut expanded: Vec<Op> = vec![];
    for op in &sc.ops {
        if let Op::CleanExchange { who, two_step } = op {
            expanded.push(Op::DelayTimer);
            let k = expanded.len() as u128;
            expanded.push(Op::ReturnTx { t1: ((sc.base * NS + 10_000 + k) << 32) | 0x8000_0001 });
            expanded.push(Op::Resp { who: *who, t2: RTs::from_ns(sc.base * NS + 20_000 + k), t4: ((sc.base * NS + 40_000 + 3 * k) << 32) | 0x1234, corr: 77, two_step: *two_step, seq_delta: 0, for_me: true });
            if *two_step {
                expanded.push(Op::Fup { who: *who, t3: RTs::from_ns(sc.base * NS + 30_000 + 2 * k), corr: -5, seq_delta: 0, for_me: true });
            }
            expanded.push(Op::Bmca); // marker: clean-exchange end is checked below through `clean_pending`
        } else {
            expanded.push(op.clone());
        }
    }
    // clean-exchange tracking: a request whose deliveries all came from one responder and that completed
    for op in &expanded {
        let before = node.state(0);
        let mut fault_expected = false;
        let acts: Vec<OAction> = match op {
            Op::DelayTimer => {
                let acts = node.timer(0, TimerKind::DelayReq);
                let mut found = false;
                for a in &acts {
                    if let OAction::SendEvent { ctx, data, .. } = a {
                        if let Ok(m) = decode(data) {
                            if m.header.msg_type == T_PDELAY_REQ {
                                found = true;
                                if let Some(oc) = cur.as_mut().and_then(|c| c.ctx.take()) {
                                    old_ctx = Some(oc);
                                }
                                cur = Some(Cur { seq: m.header.seq, ctx: Some(*ctx), t1: None, first: None, multi: false, resps: vec![], fups: vec![] });
                            }
                        }
                    }
                }
                if !found {
                    out.fail("peer-to-peer port did not emit a Pdelay_Req on its delay timer", format!("state {:?}", before));
                }
                acts
            }
            Op::ReturnTx { t1 } => {
                let Some(c) = cur.as_mut() else { continue };
                let Some(ctx) = c.ctx.take() else { continue };
                c.t1 = Some(*t1);
                node.tx_timestamp(ctx, time_from_bits(*t1)).map(|x| x.1).unwrap_or_default()
            }
            Op::ReturnOldTx { t1 } => {
                // belongs to a request that has been superseded: must not become part of the current exchange
                let Some(ctx) = old_ctx.take() else { continue };
                out.label("late-timestamp-of-superseded-request");
                node.tx_timestamp(ctx, time_from_bits(*t1)).map(|x| x.1).unwrap_or_default()
            }
            Op::Resp { who, t2, t4, corr, two_step, seq_delta, for_me } => {
                let Some(c) = cur.as_mut() else { continue };
                let seq = (c.seq as i32 + seq_delta) as u16;
                let src = responder(*who);
                if (*t4 as i128) < ((*corr as i128) << 16) {
                    continue;
                }
                let requesting = if *for_me { me } else { PortId { clock: me.clock, port: 9 } };
                let mut m = RMsg::new(T_PDELAY_RESP, src, seq, RBody::PdelayResp { receipt: *t2, requesting });
                m.header.correction = *corr;
                m.header.set_flag(F_TWO_STEP, *two_step);
                if *seq_delta == 0 && *for_me {
                    match c.first {
                        None => c.first = Some(src),
                        Some(f) if f != src => {
                            c.multi = true;
                            fault_expected = true;
                        }
                        _ => {}
                    }
                    c.resps.push((src, *t2, *t4, *corr, *two_step));
                }
                node.recv_event(0, &m.encode(), time_from_bits(*t4))
            }
            Op::Fup { who, t3, corr, seq_delta, for_me } => {
                let Some(c) = cur.as_mut() else { continue };
                let seq = (c.seq as i32 + seq_delta) as u16;
                let src = responder(*who);
                if ((t3.total_ns() as i128) << 32) + ((*corr as i128) << 16) < 0 {
                    continue;
                }
                let requesting = if *for_me { me } else { PortId { clock: me.clock, port: 9 } };
                let mut m = RMsg::new(T_PDELAY_RESP_FUP, src, seq, RBody::PdelayRespFup { response_origin: *t3, requesting });
                m.header.correction = *corr;
                if *seq_delta == 0 && *for_me {
                    match c.first {
                        None => c.first = Some(src),
                        Some(f) if f != src => {
                            c.multi = true;
                            fault_expected = true;
                        }
                        _ => {}
                    }
                    c.fups.push((src, *t3, *corr));
                }
                node.recv_general(0, &m.encode())
            }
            Op::ReceiptTimer => node.timer(0, TimerKind::Receipt),
            Op::AnnounceTimer => node.timer(0, TimerKind::Announce),
            Op::SyncTimer => node.timer(0, TimerKind::Sync),
            Op::Bmca => node.bmca().into_iter().flatten().collect(),
            Op::CleanExchange { .. } => unreachable!(),
            Op::OwnAnnounce { seq } => {
                let src = PortId { clock: me.clock, port: 0 };
                let m = announce_from(src, *seq, simple_announce(me.clock, 128, 248, 0), 0, 0);
                node.recv_general(0, &m.encode())
            }
        };
        let after = node.state(0);
        // measurements recorded during this op
        let ms = node.measurements();
        let mut peer_in_op = false;
        for (_, m) in ms.iter().skip(seen) {
            if let Some(pd) = m.peer_delay {
                peer_in_op = true;
                peer_meas += 1;
                let cands = cur.as_ref().map(candidates).unwrap_or_default();
                let ev = tbits(m.event_time);
                let pd = dbits(pd);
                if !cands.iter().any(|(e, twice)| *e == ev && (2 * pd - twice).abs() <= 2) {
                    out.fail("peer delay is not ((t4-t1)-(t3-t2))/2 of one request and its first single responder", format!("event {} peer_delay {} ; legitimate (event, 2*delay): {:?}", ev, pd, cands));
                }
            }
        }
        seen = ms.len();
        // (2) a response to the current request from a responder other than the first one
        //     must leave the port faulty (and is never used: see `candidates`)
        if fault_expected {
            two_resp = true;
            if after != PS::Faulty {
                out.fail("responses from two responders to one request did not make the port faulty", format!("state {:?} after {:?}", after, op));
            }
            if peer_in_op {
                out.fail("response of a second responder completed a measurement", format!("{:?}", op));
            }
        }
        // (3) while faulty: no master traffic
        if before == PS::Faulty && after == PS::Faulty {
            for a in &acts {
                let data = match a {
                    OAction::SendEvent { data, .. } | OAction::SendGeneral { data, .. } => data,
                    _ => continue,
                };
                if let Ok(m) = decode(data) {
                    if matches!(m.header.msg_type, T_ANNOUNCE | T_SYNC | T_FOLLOW_UP | T_DELAY_RESP) {
                        out.fail("faulty port acts as master", format!("emitted {}", type_name(m.header.msg_type)));
                    }
                }
            }
            if node.is_steering(0) || node.is_master(0) {
                out.fail("faulty port reports master/steering", "");
            }
        }
        // (5) leaving faulty needs a completed peer-delay exchange
        if before == PS::Faulty && after != PS::Faulty && !peer_in_op {
            out.fail("port left the faulty state without a completed peer-delay exchange", format!("{:?}: Faulty -> {:?}", op, after));
        }
        // (5') ... and that exchange must have been answered by exactly one responder: the exchange
        //      that made the port faulty must not itself clear the fault (first responder's follow-up
        //      arriving after the second responder's response)
        if before == PS::Faulty && after != PS::Faulty && peer_in_op {
            if let Some(c) = cur.as_ref() {
                if c.multi {
                    out.fail("port left the faulty state through an exchange answered by two responders", format!("{:?}: Faulty -> {:?}", op, after));
                }
            }
        }
        // (4) a completed exchange answered by exactly one responder clears the fault
        if peer_in_op && after == PS::Faulty {
            if let Some(c) = cur.as_ref() {
                if !c.multi {
                    out.fail("port still faulty after an exchange answered by exactly one responder", format!("{:?}", op));
                }
            }
        }
        if out.violation.is_some() {
            break;
        }
    }
    if !node.monitor.is_empty() {
        out.fail("monitor", node.monitor.join("; "));
    }
    let lm = lock_mon_take();
    if !lm.nested.is_empty() {
        out.fail("nested lock acquisition", lm.nested.join("; "));
    }
    (peer_meas, two_resp)
}


/// the same histories after 65529..65536 completed request rounds: the request id wraps inside the generated ops
pub fn case_wrap(t: &mut Tape) -> CaseOut {
    let mut out = CaseOut::new();
    let mut sc = gen_scenario(t);
    // a crossing at a generated position: request k is sent, request k+1 supersedes it before k's transmit
    // timestamp is back, then the late timestamp of k arrives, then k+1 completes with one responder
    let pos = t.below(sc.ops.len() as u64 + 1) as usize;
    let who = t.below(2) as u8;
    let two_step = t.bool();
    let b = sc.base * NS;
    let mut crossing = vec![Op::DelayTimer, Op::DelayTimer, Op::ReturnOldTx { t1: ((b + 500_000_000) << 32) | 3 }];
    let mut tail = vec![
        Op::ReturnTx { t1: ((b + 1_000_010_000) << 32) | 0x8000_0001 },
        Op::Resp { who, t2: RTs::from_ns(b + 1_000_020_000), t4: ((b + 1_000_040_000) << 32) | 0x1234, corr: 77, two_step, seq_delta: 0, for_me: true },
    ];
    if two_step {
        tail.push(Op::Fup { who, t3: RTs::from_ns(b + 1_000_030_000), corr: -5, seq_delta: 0, for_me: true });
    }
    if t.chance(1, 3) {
        tail.swap(0, 1); // the response overtakes the transmit timestamp
    }
    crossing.extend(tail);
    let before: usize = sc.ops[..pos].iter().filter(|o| matches!(o, Op::DelayTimer | Op::CleanExchange { .. })).count();
    // id of the first request of the crossing: 65533..=65537 (i.e. ..., 65535, 0, 1)
    let target = 65533 + t.below(5) as u32;
    sc.prelude_reqs = target - before as u32;
    let mut ops: Vec<Op> = sc.ops[..pos].to_vec();
    ops.extend(crossing);
    ops.extend(sc.ops[pos..].iter().cloned());
    sc.ops = ops;
    let (n, two) = run_scenario(&sc, &mut out);
    out.render = json!({"start_state": sc.start, "base_s": sc.base.to_string(), "prelude_request_rounds": sc.prelude_reqs, "ops": sc.ops.iter().map(|o| format!("{:?}", o)).collect::<Vec<_>>()});
    out.label("id-wrap");
    if two || n > 0 {
        out.nontrivial = Some(hash_of(&format!("{}{:?}", sc.prelude_reqs, sc.ops)));
    }
    out
}

pub fn case(t: &mut Tape) -> CaseOut {
    let mut out = CaseOut::new();
    let sc = gen_scenario(t);
    let (n, two) = run_scenario(&sc, &mut out);
    out.render = json!({"start_state": sc.start, "base_s": sc.base.to_string(), "ops": sc.ops.iter().map(|o| format!("{:?}", o)).collect::<Vec<_>>()});
    if two {
        out.label("two-responders");
    }
    if n > 0 {
        out.label("has-peer-measurement");
    }
    if two || n > 0 {
        out.nontrivial = Some(hash_of(&format!("{:?}", sc.ops)));
    }
    out
}

fn enumerate(ctx: &Ctx, rep: &mut Report) {
    let t0 = std::time::Instant::now();
    let maxlen = if ctx.quick() { 6 } else { 7 };
    let base: u128 = 1_700_000_000;
    let alphabet = 7u64;
    let mut total = 0u64;
    let mut first: Option<(String, String, serde_json::Value)> = None;
    for start in [1u8, 2, 0] {
        for len in 1..=maxlen {
            if start != 1 && len > maxlen - 1 {
                continue;
            }
            for code in 0..alphabet.pow(len as u32) {
                let mut c = code;
                let mut ops = vec![];
                for k in 0..len {
                    let sym = c % alphabet;
                    c /= alphabet;
                    let kk = k as u128 + 1;
                    ops.push(match sym {
                        0 => Op::DelayTimer,
                        1 => Op::ReturnTx { t1: ((base * NS + 1000 * kk) << 32) | (kk * 0x1111_1111) },
                        2 => Op::Resp { who: 0, t2: RTs::from_ns(base * NS + 5000 + kk), t4: ((base * NS + 90_000 + 7 * kk) << 32) | 0x77, corr: 3 + kk as i64, two_step: true, seq_delta: 0, for_me: true },
                        3 => Op::Fup { who: 0, t3: RTs::from_ns(base * NS + 7000 + kk), corr: -(kk as i64), seq_delta: 0, for_me: true },
                        4 => Op::Resp { who: 1, t2: RTs::from_ns(base * NS + 5500 + kk), t4: ((base * NS + 95_000 + 7 * kk) << 32) | 0x99, corr: 9, two_step: true, seq_delta: 0, for_me: true },
                        5 => Op::Fup { who: 1, t3: RTs::from_ns(base * NS + 7500 + kk), corr: 4, seq_delta: 0, for_me: true },
                        _ => Op::ReceiptTimer,
                    });
                }
                let sc = Scenario { start, base, ops, prelude_reqs: 0 };
                let mut out = CaseOut::new();
                let (n, two) = run_scenario(&sc, &mut out);
                total += 1;
                crate::engine::PROGRESS.fetch_add(1, std::sync::atomic::Ordering::Relaxed);
                if n > 0 || two {
                    rep.nontrivial.insert(hash_of(&("enum", start, len, code)));
                }
                if let (Some(v), None) = (out.violation, &first) {
                    first = Some((v.sig, v.detail, json!({"start_state": start, "ops": sc.ops.iter().map(|o| format!("{:?}", o)).collect::<Vec<_>>()})));
                }
            }
        }
    }
    rep.evaluations += total;
    rep.parts.push(json!({"part": "enumerated-schedules", "cases": total, "exhaustive": true, "max_len": maxlen, "alphabet": "delay timer, request tx timestamp, Pdelay_Resp(R1), Pdelay_Resp_Follow_Up(R1), Pdelay_Resp(R2), Pdelay_Resp_Follow_Up(R2), announce receipt timer; start states Master (full length), Slave and Listening (length-1)", "wall_s": t0.elapsed().as_secs_f64()}));
    if let Some((sig, detail, r)) = first {
        rep.violations.push((Violation { sig: format!("{}|enumerated", sig), detail }, vec![], r));
        rep.viol_parts.push("enumerated-schedules".into());
    }
}

pub fn run(ctx: &Ctx) -> i32 {
    let mut rep = Report::new();
    enumerate(ctx, &mut rep);
    run_cases(ctx, &mut rep, "sampled", ctx.cases(150_000, 5_000_000), case);
    run_cases(ctx, &mut rep, "id-wrap", ctx.cases(600, 20_000), case_wrap);
    // the real daemon with peer-to-peer ports: its Pdelay_Req answered by the harness (one or two responders)
    let workers = (ctx.threads as u64 / 2).clamp(2, 8);
    let sum = crate::daemon::run_part(ctx, &mut rep, ctx.cases(4 * workers, 60 * workers), workers);
    if let Some(why) = &sum.skipped {
        println!("note: end-to-end daemon part skipped ({}); the other parts are unaffected", why);
    }
    finish(
        Finish {
            ctx,
            level: "exploration",
            rule: "a peer-to-peer port in each state in which the exchange runs (Listening, Master, Slave, Passive), recording filter; generated schedules over delay timer, request transmit timestamp, Pdelay_Resp / Pdelay_Resp_Follow_Up from responders R1, R2 (and R1's other port), one- or two-step, duplicated/omitted/reordered, stale ids, other requesters, late transmit timestamps of superseded requests, receipt/announce/sync timers, BMCA, clean exchanges; part id-wrap: the same after ~65530 complete request rounds plus, at a generated position, a crossing (request k, request k+1 before k's transmit timestamp, late timestamp of k, completion of k+1) with k = 65533..65537 mod 2^16; plus exhaustive enumeration of all schedules of length <= 6 (thorough 7) over a 7-symbol alphabet. part daemon: the real statime daemon with peer-to-peer ports in a private network namespace, its Pdelay_Req answered by the harness - 3-8 clean exchanges (one- or two-step, generated turnaround times, negative ones emulating a longer link) must give one measurement each whose value in the daemon's own log is ((t4-t1)-(t3-t2))/2 from the harness's kernel timestamps (-5..+300 us of link latency), then two responders to one request must make the port Faulty in the next observation and clean answers must clear it within four exchanges. Oracle: exact integer formula per (request, first responder); fault rules (2)-(5) of DESIGN.md C14. Non-trivial = two responders involved or >= 1 peer-delay measurement; distinct by schedule.",
            assumptions: vec!["halving tolerance 1 unit of 2^-32 ns".into(), "a port may also leave Faulty through the exchange that faulted it if the first responder completes it (not asserted either way)".into()],
            min_nontrivial: 100,
        },
        rep,
    )
}

pub fn replay(ctx: &Ctx, path: &str) -> i32 {
    let s = std::fs::read_to_string(path).expect("read replay");
    let v: serde_json::Value = serde_json::from_str(&s).expect("parse");
    if v["part"].as_str() == Some("enumerated-schedules") {
        let mut rep = Report::new();
        enumerate(ctx, &mut rep);
        return if rep.violations.is_empty() { println!("replay passed"); 0 } else { println!("VIOLATION property=C14 replay={}\n  {}\n  {}", path, rep.violations[0].0.sig, rep.violations[0].0.detail); 1 };
    }
    if v["part"].as_str() == Some("daemon") {
        return crate::daemon::replay_part(ctx, path, 3);
    }
    if v["part"].as_str() == Some("id-wrap") {
        return replay_file(ctx, path, case_wrap);
    }
    replay_file(ctx, path, case)
}
