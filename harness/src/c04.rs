//! C04 — wire codec total, lossless on defined fields, self-consistent.
//! Oracle: round-trip + metamorphic (tail independence) + differential against
//! the independent `refcodec`.

use crate::engine::*;
use crate::refcodec::*;
use serde_json::json;
use statime::fuzz::FuzzMessage;

fn hex(b: &[u8]) -> String {
    let mut s = String::with_capacity(b.len() * 2);
    for x in b.iter().take(160) {
        s.push_str(&format!("{:02x}", x));
    }
    if b.len() > 160 {
        s.push_str(&format!("..(+{})", b.len() - 160));
    }
    s
}

/// Compare two reference decodes on every field IEEE 1588 defines; returns the
/// name of the first differing field.
pub fn defined_fields_differ(a: &RMsg, b: &RMsg) -> Option<String> {
    let (ha, hb) = (&a.header, &b.header);
    macro_rules! cmp {
        ($name:expr, $x:expr, $y:expr) => {
            if $x != $y {
                return Some(format!("{}: {:?} != {:?}", $name, $x, $y));
            }
        };
    }
    cmp!("majorSdoId", ha.major_sdo, hb.major_sdo);
    cmp!("messageType", ha.msg_type, hb.msg_type);
    cmp!("minorVersionPTP", ha.minor_version, hb.minor_version);
    cmp!("versionPTP", ha.version, hb.version);
    cmp!("messageLength", ha.length, hb.length);
    cmp!("domainNumber", ha.domain, hb.domain);
    cmp!("minorSdoId", ha.minor_sdo, hb.minor_sdo);
    cmp!("flagField[0]", ha.flags[0] & DEFINED_FLAGS[0], hb.flags[0] & DEFINED_FLAGS[0]);
    cmp!("flagField[1]", ha.flags[1] & DEFINED_FLAGS[1], hb.flags[1] & DEFINED_FLAGS[1]);
    cmp!("correctionField", ha.correction, hb.correction);
    cmp!("sourcePortIdentity", ha.source, hb.source);
    cmp!("sequenceId", ha.seq, hb.seq);
    cmp!("logMessageInterval", ha.log_interval, hb.log_interval);
    match (&a.body, &b.body) {
        (RBody::Sync { origin: x }, RBody::Sync { origin: y }) => cmp!("originTimestamp", x, y),
        (RBody::DelayReq { origin: x }, RBody::DelayReq { origin: y }) => cmp!("originTimestamp", x, y),
        (RBody::FollowUp { precise_origin: x }, RBody::FollowUp { precise_origin: y }) => cmp!("preciseOriginTimestamp", x, y),
        (RBody::PdelayReq { origin: x, .. }, RBody::PdelayReq { origin: y, .. }) => cmp!("originTimestamp", x, y),
        (RBody::PdelayResp { receipt: x, requesting: p }, RBody::PdelayResp { receipt: y, requesting: q }) => {
            cmp!("requestReceiptTimestamp", x, y);
            cmp!("requestingPortIdentity", p, q);
        }
        (RBody::PdelayRespFup { response_origin: x, requesting: p }, RBody::PdelayRespFup { response_origin: y, requesting: q }) => {
            cmp!("responseOriginTimestamp", x, y);
            cmp!("requestingPortIdentity", p, q);
        }
        (RBody::DelayResp { receive: x, requesting: p }, RBody::DelayResp { receive: y, requesting: q }) => {
            cmp!("receiveTimestamp", x, y);
            cmp!("requestingPortIdentity", p, q);
        }
        (RBody::Announce(x), RBody::Announce(y)) => {
            cmp!("originTimestamp", x.origin, y.origin);
            cmp!("currentUtcOffset", x.utc_offset, y.utc_offset);
            cmp!("grandmasterPriority1", x.gm_priority1, y.gm_priority1);
            cmp!("grandmasterClockQuality.clockClass", x.gm_class, y.gm_class);
            if accuracy_defined(x.gm_accuracy) {
                cmp!("grandmasterClockQuality.clockAccuracy", x.gm_accuracy, y.gm_accuracy);
            }
            cmp!("grandmasterClockQuality.offsetScaledLogVariance", x.gm_variance, y.gm_variance);
            cmp!("grandmasterPriority2", x.gm_priority2, y.gm_priority2);
            cmp!("grandmasterIdentity", x.gm_identity, y.gm_identity);
            cmp!("stepsRemoved", x.steps_removed, y.steps_removed);
            cmp!("timeSource", x.time_source, y.time_source);
        }
        (RBody::Signaling { target: x }, RBody::Signaling { target: y }) => cmp!("targetPortIdentity", x, y),
        (
            RBody::Management { target: x, starting_hops: s1, hops: h1, action_octet: a1, .. },
            RBody::Management { target: y, starting_hops: s2, hops: h2, action_octet: a2, .. },
        ) => {
            cmp!("targetPortIdentity", x, y);
            cmp!("startingBoundaryHops", s1, s2);
            cmp!("boundaryHops", h1, h2);
            if a1 & 0x0f <= 4 {
                cmp!("actionField", a1 & 0x0f, a2 & 0x0f);
            }
        }
        _ => return Some("body kind differs".into()),
    }
    if a.tlvs != b.tlvs {
        return Some(format!("TLVs differ: {} vs {} entries", a.tlvs.len(), b.tlvs.len()));
    }
    None
}


/// Field *meaning*: the Debug rendering of the decoded message names every field; each named integer /
/// boolean must hold the value the reference codec finds at the Clause-13 offset (a symmetric
/// read/write slip survives the round trip but not this).
fn debug_fields_differ(dbg: &str, r: &RMsg) -> Option<String> {
    fn num_after(dbg: &str, key: &str, nth: usize) -> Option<i128> {
        let mut from = 0;
        let mut found = None;
        for _ in 0..=nth {
            let i = dbg[from..].find(key)? + from;
            let rest = &dbg[i + key.len()..];
            let end = rest.find(|c: char| !(c.is_ascii_digit() || c == '-')).unwrap_or(rest.len());
            found = rest[..end].parse::<i128>().ok();
            from = i + key.len();
        }
        found
    }
    fn bool_after(dbg: &str, key: &str) -> Option<bool> {
        let i = dbg.find(key)?;
        let rest = &dbg[i + key.len()..];
        Some(rest.starts_with("true"))
    }
    macro_rules! num {
        ($key:expr, $nth:expr, $want:expr, $name:expr) => {
            match num_after(dbg, $key, $nth) {
                Some(v) if v == $want as i128 => {}
                Some(v) => return Some(format!("{}: decoded {} but the wire holds {}", $name, v, $want)),
                None => {}
            }
        };
    }
    macro_rules! flag {
        ($key:expr, $f:expr, $name:expr) => {
            match bool_after(dbg, $key) {
                Some(v) if v == r.header.flag($f) => {}
                Some(v) => return Some(format!("{}: decoded {} but the wire holds {}", $name, v, r.header.flag($f))),
                None => {}
            }
        };
    }
    let h = &r.header;
    num!("sdo_id: SdoId(", 0, h.sdo_id(), "sdoId");
    num!("major: ", 0, h.version, "versionPTP");
    num!("minor: ", 0, h.minor_version, "minorVersionPTP");
    num!("domain_number: ", 0, h.domain, "domainNumber");
    num!("sequence_id: ", 0, h.seq, "sequenceId");
    num!("log_message_interval: ", 0, h.log_interval, "logMessageInterval");
    num!("port_number: ", 0, h.source.port, "sourcePortIdentity.portNumber");
    flag!("alternate_master_flag: ", F_ALT_MASTER, "alternateMasterFlag");
    flag!("two_step_flag: ", F_TWO_STEP, "twoStepFlag");
    flag!("unicast_flag: ", F_UNICAST, "unicastFlag");
    flag!("ptp_profile_specific_1: ", F_PROFILE1, "profileSpecific1");
    flag!("ptp_profile_specific_2: ", F_PROFILE2, "profileSpecific2");
    flag!("leap61: ", F_LEAP61, "leap61");
    flag!("leap59: ", F_LEAP59, "leap59");
    flag!("current_utc_offset_valid: ", F_UTC_VALID, "currentUtcOffsetValid");
    flag!("ptp_timescale: ", F_PTP_TIMESCALE, "ptpTimescale");
    flag!("time_tracable: ", F_TIME_TRACEABLE, "timeTraceable");
    flag!("frequency_tracable: ", F_FREQ_TRACEABLE, "frequencyTraceable");
    flag!("synchronization_uncertain: ", F_SYNC_UNCERTAIN, "synchronizationUncertain");
    // the body starts after the header's Debug text
    let body = dbg.find("body: ").map(|i| &dbg[i..]).unwrap_or("");
    let bnum = |key: &str, nth: usize| -> Option<i128> { num_after(body, key, nth) };
    macro_rules! bchk {
        ($key:expr, $nth:expr, $want:expr, $name:expr) => {
            match bnum($key, $nth) {
                Some(v) if v == $want as i128 => {}
                Some(v) => return Some(format!("{}: decoded {} but the wire holds {}", $name, v, $want)),
                None => {}
            }
        };
    }
    match &r.body {
        RBody::Announce(a) => {
            // the Announce body repeats the header first; skip to its own fields by key names that are unique to it
            bchk!("current_utc_offset: ", 0, a.utc_offset, "currentUtcOffset");
            bchk!("grandmaster_priority_1: ", 0, a.gm_priority1, "grandmasterPriority1");
            bchk!("clock_class: ", 0, a.gm_class, "grandmasterClockQuality.clockClass");
            bchk!("offset_scaled_log_variance: ", 0, a.gm_variance, "grandmasterClockQuality.offsetScaledLogVariance");
            bchk!("grandmaster_priority_2: ", 0, a.gm_priority2, "grandmasterPriority2");
            bchk!("steps_removed: ", 0, a.steps_removed, "stepsRemoved");
            bchk!("seconds: ", 0, a.origin.secs, "originTimestamp.seconds");
            bchk!("nanos: ", 0, a.origin.nanos, "originTimestamp.nanoseconds");
        }
        RBody::Sync { origin } | RBody::DelayReq { origin } | RBody::PdelayReq { origin, .. } => {
            bchk!("seconds: ", 0, origin.secs, "originTimestamp.seconds");
            bchk!("nanos: ", 0, origin.nanos, "originTimestamp.nanoseconds");
        }
        RBody::FollowUp { precise_origin } => {
            bchk!("seconds: ", 0, precise_origin.secs, "preciseOriginTimestamp.seconds");
            bchk!("nanos: ", 0, precise_origin.nanos, "preciseOriginTimestamp.nanoseconds");
        }
        RBody::DelayResp { receive: ts, requesting } | RBody::PdelayResp { receipt: ts, requesting } | RBody::PdelayRespFup { response_origin: ts, requesting } => {
            bchk!("seconds: ", 0, ts.secs, "timestamp.seconds");
            bchk!("nanos: ", 0, ts.nanos, "timestamp.nanoseconds");
            bchk!("port_number: ", 0, requesting.port, "requestingPortIdentity.portNumber");
        }
        RBody::Signaling { target } => {
            bchk!("port_number: ", 0, target.port, "targetPortIdentity.portNumber");
        }
        RBody::Management { target, starting_hops, hops, .. } => {
            bchk!("port_number: ", 0, target.port, "targetPortIdentity.portNumber");
            bchk!("starting_boundary_hops: ", 0, *starting_hops, "startingBoundaryHops");
            bchk!("boundary_hops: ", 1, *hops, "boundaryHops");
        }
    }
    None
}

pub struct CodecVerdict {
    pub accepted: bool,
    pub ref_accepted: bool,
    pub msg_type: u8,
    pub ntlv: usize,
    pub violation: Option<(String, String)>,
}

/// The C04 oracle for one input byte string. `tail` is alternative trailing data.
pub fn check_bytes(b: &[u8], tail: &[u8]) -> CodecVerdict {
    let mut v = CodecVerdict { accepted: false, ref_accepted: false, msg_type: b.first().map(|x| x & 0xf).unwrap_or(0xff), ntlv: 0, violation: None };
    let rref = decode(b);
    v.ref_accepted = rref.is_ok();
    let bb = b.to_vec();
    let res = guarded(|| {
        let m = match FuzzMessage::deserialize(&bb) {
            Ok(m) => m,
            Err(_) => return Ok::<Option<usize>, (String, String)>(None),
        };
        // declared length
        let l = ((bb[2] as usize) << 8) | bb[3] as usize;
        if l < 34 || l > bb.len() {
            return Err(("declared-length-outside-buffer".into(), format!("accepted message with messageLength {} in buffer of {}", l, bb.len())));
        }
        // metamorphic: nothing past L is read
        match FuzzMessage::deserialize(&bb[..l]) {
            Ok(m2) if m2 == m => {}
            Ok(_) => return Err(("tail-dependence".into(), "decode(B[..L]) differs from decode(B)".into())),
            Err(e) => return Err(("tail-dependence".into(), format!("decode(B[..L]) fails: {}", e))),
        }
        let mut alt = bb[..l].to_vec();
        alt.extend_from_slice(tail);
        match FuzzMessage::deserialize(&alt) {
            Ok(m2) if m2 == m => {}
            Ok(_) => return Err(("tail-dependence".into(), "decode(B[..L]++tail') differs from decode(B)".into())),
            Err(e) => return Err(("tail-dependence".into(), format!("decode(B[..L]++tail') fails: {}", e))),
        }
        // re-encode into a dirty buffer (stale content must not leak into defined fields)
        let mut out = vec![0xEEu8; 70000];
        let n = match m.serialize(&mut out) {
            Ok(n) => n,
            Err(e) => return Err(("reencode-fails".into(), format!("serialize of decoded message fails: {}", e))),
        };
        if n != l {
            return Err(("reencode-length".into(), format!("serialize returned {} for declared length {}", n, l)));
        }
        let ol = ((out[2] as usize) << 8) | out[3] as usize;
        if ol != n {
            return Err(("reencode-length".into(), format!("length field {} in output of {} bytes", ol, n)));
        }
        match FuzzMessage::deserialize(&out[..n]) {
            Ok(m3) if m3 == m => {}
            Ok(_) => return Err(("roundtrip-unequal".into(), "decode(encode(m)) != m".into())),
            Err(e) => return Err(("roundtrip-unequal".into(), format!("decode(encode(m)) fails: {}", e))),
        }
        let mut ntlv = 0usize;
        for _t in m.tlv() {
            ntlv += 1;
            if ntlv > 20000 {
                return Err(("tlv-iteration".into(), "tlv iterator does not terminate".into()));
            }
        }
        // differential
        let rin = match decode(&bb[..l]) {
            Ok(r) => r,
            Err(e) => return Err(("ref-rejects-accepted".into(), format!("reference codec rejects input statime accepts: {:?}", e))),
        };
        if let Some(d) = debug_fields_differ(&format!("{:?}", m), &rin) {
            let field = d.split(':').next().unwrap_or("").to_string();
            return Err((format!("field-meaning {} {}", type_name(rin.header.msg_type), field), d));
        }
        if ntlv != rin.tlvs.len() {
            return Err(("tlv-count".into(), format!("statime iterates {} TLVs, reference finds {}", ntlv, rin.tlvs.len())));
        }
        let rout = match decode(&out[..n]) {
            Ok(r) => r,
            Err(e) => return Err(("ref-rejects-output".into(), format!("reference codec rejects statime output: {:?}", e))),
        };
        if let Some(d) = defined_fields_differ(&rin, &rout) {
            let field = d.split(':').next().unwrap_or("").to_string();
            return Err((format!("field-mismatch {} {}", type_name(rin.header.msg_type), field), d));
        }
        Ok(Some(ntlv))
    });
    match res {
        Err(p) => v.violation = Some((format!("panic {}", p.split(" @ ").last().map(|s| s.rsplit_once(':').map(|x| x.0).unwrap_or(s)).unwrap_or("")), p)),
        Ok(Err((sig, detail))) => {
            v.accepted = true;
            v.violation = Some((sig, detail));
        }
        Ok(Ok(Some(n))) => {
            v.accepted = true;
            v.ntlv = n;
        }
        Ok(Ok(None)) => {}
    }
    v
}

pub fn mutate(t: &mut Tape, b: &mut Vec<u8>) -> &'static str {
    match t.weighted(&[6, 2, 2, 2, 2, 1, 1, 1]) {
        0 => "wellformed",
        1 => {
            // trailing bytes beyond messageLength
            let n = t.urange(1, 40) as usize;
            let tail = t.bytes(n);
            b.extend(tail);
            "tail"
        }
        2 => {
            let cut = t.below(b.len() as u64 + 1) as usize;
            b.truncate(cut);
            "truncated"
        }
        3 => {
            // messageLength relation
            if b.len() >= 4 {
                let l = ((b[2] as i64) << 8) | b[3] as i64;
                let d = *t.pick(&[-1i64, 1, -2, 2, -4, 4, -10, 30]);
                let nl = (l + d).clamp(0, 65535) as u16;
                b[2] = (nl >> 8) as u8;
                b[3] = nl as u8;
            }
            "length-shift"
        }
        4 => {
            let k = t.urange(1, 4);
            for _ in 0..k {
                if !b.is_empty() {
                    let i = t.below(b.len() as u64) as usize;
                    b[i] = t.below(256) as u8;
                }
            }
            "byteflip"
        }
        5 => {
            // odd-length / lying TLV length at the first TLV header
            if b.len() > 4 {
                let i = b.len() - 1 - t.below((b.len() as u64 - 1).min(64)) as usize;
                b[i] ^= 1 << t.below(8);
            }
            "bitflip-tail"
        }
        6 => {
            // short message length (< 34)
            if b.len() >= 4 {
                let nl = t.below(40) as u16;
                b[2] = 0;
                b[3] = nl as u8;
            }
            "tiny-length"
        }
        _ => {
            // trailing zero-length TLV / dangling 1..3 bytes in the TLV area, length adjusted
            if b.len() >= 34 {
                let extra: Vec<u8> = match t.below(3) {
                    0 => vec![0x40, 0x00, 0x00, 0x00],
                    1 => vec![0x00],
                    _ => vec![0x00, 0x08, 0x00],
                };
                b.extend(extra);
                let nl = b.len() as u16;
                b[2] = (nl >> 8) as u8;
                b[3] = nl as u8;
            }
            "tlv-edge"
        }
    }
}

fn case_structured(t: &mut Tape) -> CaseOut {
    let mut out = CaseOut::new();
    let m = gen_msg(t);
    let mut b = m.encode();
    let mutation = mutate(t, &mut b);
    let tn = t.below(24) as usize;
    let tail = t.bytes(tn);
    let v = check_bytes(&b, &tail);
    finish_case(&mut out, &b, &v, mutation, "structured");
    out
}

fn case_raw(t: &mut Tape) -> CaseOut {
    let mut out = CaseOut::new();
    let n = match t.weighted(&[2, 2, 1]) {
        0 => t.urange(0, 80) as usize,
        1 => t.urange(30, 200) as usize,
        _ => t.urange(200, 2048) as usize,
    };
    let mut b = t.bytes(n);
    // give random strings a fighting chance: plausible type nibble and length
    if b.len() >= 4 && t.chance(3, 4) {
        b[0] = (b[0] & 0xf0) | *t.pick(&ALL_TYPES);
        let l = if t.chance(2, 3) { b.len() as u64 } else { t.below(b.len() as u64 + 8) };
        b[2] = (l >> 8) as u8;
        b[3] = l as u8;
    }
    let v = check_bytes(&b, &[0x5a; 7]);
    finish_case(&mut out, &b, &v, "raw", "raw");
    out
}

fn finish_case(out: &mut CaseOut, b: &[u8], v: &CodecVerdict, mutation: &str, kind: &str) {
    let tname = type_name(v.msg_type);
    if v.accepted {
        out.label(format!("accepted:{}", tname));
        out.label(format!("accepted-mutation:{}", mutation));
        if v.ntlv > 0 {
            out.label(format!("accepted-with-tlvs:{}", tname));
        }
        let flags = if b.len() >= 8 { ((b[6] as u16) << 8) | b[7] as u16 } else { 0 };
        let lrel = {
            let l = ((b[2] as usize) << 8) | b[3] as usize;
            (b.len() as i64 - l as i64).signum()
        };
        out.nontrivial = Some(hash_of(&(v.msg_type, flags, v.ntlv, lrel, b.len())));
    } else {
        out.label(format!("rejected-mutation:{}", mutation));
        if v.ref_accepted {
            out.label(format!("statime-rejects-reference-accepts:{}:{}", tname, mutation));
        }
    }
    out.render = json!({"kind": kind, "mutation": mutation, "type": tname, "len": b.len(), "accepted": v.accepted, "tlvs": v.ntlv, "bytes": hex(b)});
    if let Some((sig, detail)) = &v.violation {
        out.fail(sig.clone(), format!("{} | input {}", detail, hex(b)));
    }
}

/// Exhaustive: every value of every single octet (8-bit tier) of a well-formed
/// message of each type, all defined-flag combinations, and (thorough) every
/// value of every aligned 16-bit pair.
fn exhaustive(ctx: &Ctx, rep: &mut Report) {
    let t0 = std::time::Instant::now();
    let mut evals = 0u64;
    let mut accepted = 0u64;
    let mut tape = Tape::fresh(ctx.seed ^ 0xc04, 0);
    let mut viol: Option<(String, String, Vec<u8>)> = None;
    let mut per_type: std::collections::BTreeMap<&'static str, u64> = Default::default();
    for &ty in ALL_TYPES.iter() {
        for base_i in 0..2 {
            let mut m = gen_msg_of(&mut tape, ty);
            m.header.version = 2;
            if base_i == 0 {
                m.tlvs.clear();
            } else if m.tlvs.is_empty() {
                m.tlvs.push(RTlv { typ: 0x4001, value: vec![1, 2, 3, 4] });
            }
            let base = m.encode();
            let fixed = 34 + body_len(ty).unwrap();
            let limit = (fixed + 8).min(base.len());
            // every octet value at every position
            for pos in 0..limit {
                for val in 0..=255u8 {
                    let mut b = base.clone();
                    b[pos] = val;
                    let v = check_bytes(&b, &[1, 2, 3]);
                    evals += 1;
                    crate::engine::PROGRESS.fetch_add(1, std::sync::atomic::Ordering::Relaxed);
                    if v.accepted {
                        accepted += 1;
                        *per_type.entry(type_name(ty)).or_insert(0) += 1;
                        rep.nontrivial.insert(hash_of(&("ex8", ty, base_i, pos, val)));
                    }
                    if let (Some((s, d)), None) = (v.violation, &viol) {
                        viol = Some((s, d, b.clone()));
                    }
                }
            }
            // all flag-field combinations (16 bits)
            if base_i == 0 {
                for fl in 0..=0xffffu32 {
                    let mut b = base.clone();
                    b[6] = (fl >> 8) as u8;
                    b[7] = fl as u8;
                    let v = check_bytes(&b, &[]);
                    evals += 1;
                    crate::engine::PROGRESS.fetch_add(1, std::sync::atomic::Ordering::Relaxed);
                    if v.accepted {
                        accepted += 1;
                        if fl & 0xff < 4 && fl >> 8 < 4 {
                            rep.nontrivial.insert(hash_of(&("flags", ty, fl)));
                        }
                    }
                    if let (Some((s, d)), None) = (v.violation, &viol) {
                        viol = Some((s, d, b.clone()));
                    }
                }
            }
            // thorough: every 16-bit value at every even offset of the fixed part
            if !ctx.quick() && base_i == 0 {
                let mut pos = 0;
                while pos + 1 < fixed {
                    for val in 0..=0xffffu32 {
                        let mut b = base.clone();
                        b[pos] = (val >> 8) as u8;
                        b[pos + 1] = val as u8;
                        let v = check_bytes(&b, &[9]);
                        evals += 1;
                        crate::engine::PROGRESS.fetch_add(1, std::sync::atomic::Ordering::Relaxed);
                        if v.accepted {
                            accepted += 1;
                        }
                        if let (Some((s, d)), None) = (v.violation, &viol) {
                            viol = Some((s, d, b.clone()));
                        }
                    }
                    pos += 1;
                }
            }
        }
    }
    rep.evaluations += evals;
    rep.labels.insert("exhaustive:accepted".into(), accepted);
    for (k, v) in per_type {
        rep.labels.insert(format!("exhaustive:accepted:{}", k), v);
    }
    rep.parts.push(json!({"part": "exhaustive-octets-and-flags", "cases": evals, "exhaustive": true, "wall_s": t0.elapsed().as_secs_f64(),
        "what": "for each of the 10 message types x 2 base messages: all 256 values of every octet of header+body(+8 TLV octets); all 65536 flagField values; thorough: all 65536 values of every 16-bit window of header+body"}));
    if let Some((sig, detail, b)) = viol {
        let v = Violation { sig: format!("{}|exhaustive", sig), detail: format!("{} | input {}", detail, hex(&b)) };
        rep.violations.push((v, vec![], json!({"kind": "exhaustive", "bytes_hex": hex(&b), "bytes": b})));
        rep.viol_parts.push("exhaustive".into());
    }
}

/// Self-test of the reference codec against golden vectors taken from the
/// repository's own wire-format tests and from IEEE layouts.
fn selftest() -> Result<(), String> {
    // header golden from header.rs::header_wireformat
    let hdr: [u8; 34] = [
        0x59, 0xa1, 0x12, 0x34, 0xaa, 0xbb, 0b0100_0101, 0b0010_1010, 0x00, 0x00, 0x00, 0x00, 0x00, 0x01, 0x80, 0x00, 0, 0, 0, 0, 0, 1, 2, 3, 4, 5, 6, 7, 0x55, 0x55, 0xde, 0xad, 0x03, 0x16,
    ];
    let h = decode_header(&hdr).map_err(|e| format!("{:?}", e))?;
    let ok = h.major_sdo == 5
        && h.minor_sdo == 0xbb
        && h.msg_type == T_DELAY_RESP
        && h.version == 1
        && h.minor_version == 0xa
        && h.length == 0x1234
        && h.domain == 0xaa
        && h.flag(F_ALT_MASTER)
        && !h.flag(F_TWO_STEP)
        && h.flag(F_UNICAST)
        && h.flag(F_PROFILE2)
        && h.flag(F_LEAP59)
        && h.flag(F_PTP_TIMESCALE)
        && h.flag(F_FREQ_TRACEABLE)
        && h.correction == 0x18000
        && h.source.clock == [0, 1, 2, 3, 4, 5, 6, 7]
        && h.source.port == 0x5555
        && h.seq == 0xdead
        && h.control == 3
        && h.log_interval == 0x16;
    if !ok {
        return Err(format!("reference header decode disagrees with golden vector: {:?}", h));
    }
    // announce body golden from announce.rs::announce_wireformat
    let body: [u8; 30] = [
        0x00, 0x00, 0x45, 0xb1, 0x11, 0x5a, 0x0a, 0x73, 0x46, 0x60, 0x00, 0x00, 0x00, 0x60, 0x00, 0x00, 0x00, 0x80, 0x63, 0xff, 0xff, 0x00, 0x09, 0xba, 0xf8, 0x21, 0x00, 0x00, 0x80, 0x80,
    ];
    let mut m = RMsg::new(T_ANNOUNCE, PortId::default(), 0, RBody::Announce(RAnnounce::default()));
    let mut bytes = m.encode();
    bytes[34..64].copy_from_slice(&body);
    m = decode(&bytes).map_err(|e| format!("{:?}", e))?;
    let a = m.announce().unwrap();
    if !(a.origin.secs == 1169232218 && a.origin.nanos == 175326816 && a.gm_priority1 == 96 && a.gm_variance == 128 && a.gm_priority2 == 99 && a.gm_identity == [0xff, 0xff, 0x00, 0x09, 0xba, 0xf8, 0x21, 0x00] && a.steps_removed == 128 && a.time_source == 0x80) {
        return Err(format!("reference announce decode disagrees with golden vector: {:?}", a));
    }
    if m.encode() != bytes {
        return Err("reference encode(decode(x)) != x".into());
    }
    Ok(())
}

pub fn part_fn(part: &str) -> Option<fn(&mut Tape) -> CaseOut> {
    match part {
        "structured" => Some(case_structured),
        "raw" => Some(case_raw),
        _ => None,
    }
}

pub fn run(ctx: &Ctx) -> i32 {
    if let Err(e) = selftest() {
        println!("HARNESS ERROR: refcodec self-test failed: {}", e);
        return 2;
    }
    let mut rep = Report::new();
    exhaustive(ctx, &mut rep);
    run_cases(ctx, &mut rep, "structured", ctx.cases(600_000, 50_000_000), case_structured);
    run_cases(ctx, &mut rep, "raw", ctx.cases(200_000, 10_000_000), case_raw);
    // vacuity: every message type must have been accepted (round-trip exercised)
    let mut missing = vec![];
    for ty in ALL_TYPES {
        let k = format!("structured:accepted:{}", type_name(ty));
        if rep.labels.get(&k).copied().unwrap_or(0) == 0 {
            missing.push(type_name(ty));
        }
    }
    let code = finish(
        Finish {
            ctx,
            level: "exploration",
            rule: "inputs: (a) reference-encoded messages of all 10 types with boundary-biased fields and TLV lists, mutated (tail, truncation, messageLength shift, byte/bit flips, TLV edge cases); (b) raw byte strings; (c) exhaustive single-octet / flagField / (thorough) 16-bit-window sweeps. Non-trivial = accepted by statime so that round-trip, tail-independence and the differential against the reference codec were actually evaluated; distinct by (type, flagField, TLV count, sign(len(B)-L), len(B)).",
            assumptions: vec![
                "refcodec (harness/src/refcodec.rs) is the judge of Clause 13 offsets; self-tested against the repository's golden vectors at start-up".into(),
                "exempt from the field comparison: reserved bits/octets, messageTypeSpecific, controlField, reserved clockAccuracy values, management action values > 4".into(),
                "rejection is never a violation (statement allows it); reject/accept disagreements are only counted in labels".into(),
            ],
            min_nontrivial: 50,
        },
        rep,
    );
    if code == 0 && !missing.is_empty() {
        println!("VACUOUS: no accepted message of type(s) {:?}", missing);
        return 2;
    }
    code
}

pub fn replay(ctx: &Ctx, path: &str) -> i32 {
    let s = std::fs::read_to_string(path).expect("read replay");
    let v: serde_json::Value = serde_json::from_str(&s).expect("parse replay");
    let part = v["part"].as_str().unwrap_or("structured").to_string();
    if part == "exhaustive" || part == "fuzz" {
        let b: Vec<u8> = v["case"]["bytes"].as_array().map(|a| a.iter().map(|x| x.as_u64().unwrap() as u8).collect()).unwrap_or_default();
        let r = check_bytes(&b, &[1, 2, 3]);
        return match r.violation {
            Some((sig, d)) => {
                println!("VIOLATION property=C04 replay={}\n  signature: {}\n  detail: {}", path, sig, d);
                1
            }
            None => {
                println!("replay passed");
                0
            }
        };
    }
    match part_fn(&part) {
        Some(f) => replay_file(ctx, path, f),
        None => {
            println!("unknown part {}", part);
            2
        }
    }
}
