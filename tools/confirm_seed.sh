#!/bin/bash
# tools/confirm_seed.sh <ID> <mN> : independently confirm a seeded change in its scratch worktree:
#  (a) demo passes on the unchanged tree, (b) with the change: builds, every pre-existing test passes, the demo fails.
ID=$1; M=$2; W=/tmp/${SEEDP:-seed}-$ID; O=/tmp/${SEEDP:-seed}-$ID-out
export CARGO_TARGET_DIR=$W/target CARGO_NET_OFFLINE=true
cd $W || exit 2
git checkout -q -- . && git clean -fdq -e target
git apply $O/${M}_demo.diff || { echo "demo apply failed"; exit 3; }
cargo test --workspace --no-fail-fast --offline -j 6 $DEMO_ARGS > $O/$M.confirm.clean.log 2>&1
A_FAILED=$(grep -E "^test .* FAILED$" $O/$M.confirm.clean.log | wc -l)
A_PASSED=$(grep -E "^test .* ok$" $O/$M.confirm.clean.log | wc -l)
git apply $O/$M.diff || { echo "mutation apply failed"; exit 3; }
cargo build --workspace --offline -j 6 > $O/$M.confirm.build.log 2>&1; BUILD=$?
cargo test --workspace --no-fail-fast --offline -j 6 $DEMO_ARGS > $O/$M.confirm.mut.log 2>&1
B_FAILED_NAMES=$(grep -E "^test .* FAILED$" $O/$M.confirm.mut.log | sed 's/^test //; s/ \.\.\. FAILED//' | tr '\n' ' ')
B_FAILED=$(grep -E "^test .* FAILED$" $O/$M.confirm.mut.log | wc -l)
B_PASSED=$(grep -E "^test .* ok$" $O/$M.confirm.mut.log | wc -l)
git checkout -q -- . && git clean -fdq -e target
# also: existing suite alone with the mutation (no demo)
git apply $O/$M.diff
cargo test --workspace --no-fail-fast --offline -j 6 > $O/$M.confirm.suite.log 2>&1
C_FAILED=$(grep -E "^test .* FAILED$" $O/$M.confirm.suite.log | wc -l)
C_PASSED=$(grep -E "^test .* ok$" $O/$M.confirm.suite.log | wc -l)
git checkout -q -- . && git clean -fdq -e target
echo "{\"id\":\"$ID\",\"m\":\"$M\",\"clean_with_demo\":{\"passed\":$A_PASSED,\"failed\":$A_FAILED},\"mutant_build_rc\":$BUILD,\"mutant_with_demo\":{\"passed\":$B_PASSED,\"failed\":$B_FAILED,\"failed_names\":\"$B_FAILED_NAMES\"},\"mutant_existing_suite\":{\"passed\":$C_PASSED,\"failed\":$C_FAILED}}" | tee $O/$M.confirm.json
